/* lacon_harness.c -- C side of the C12 (condition estimate / pivot growth) and C13 (refinement)
 * checks.  Compile with -DVP_PREC=0 (s), 1 (d), 2 (c), 3 (z) and link with
 *   -Wl,--wrap=<p>langs,--wrap=<p>gscon,--wrap=<p>PivotGrowth,--wrap=<p>gstrs,--wrap=<p>gsrfs,
 *       --wrap=<p>gsequ,--wrap=<p>laqgs      (all precisions: call/argument log of the expert driver)
 *   -Wl,--wrap=dlacon_,--wrap=sp_dtrsv      (d only: every vector exchanged with the estimator)
 * Nothing in /repo is edited: GNU ld's --wrap redirects the *cross-object* calls of the real library
 * objects (pdgssvx.o -> dgscon, dgscon.o -> dlacon_/sp_dtrsv, dgsrfs.o -> dgstrs/dlacon_) through the
 * logging wrappers below, which call the real function (__real_*) unchanged.
 *
 * usage:  lacon_harness <outfile>   < cases
 * input : whitespace separated "key values" records, see read_case(); floats are C99 hex or decimal.
 * output: lines "#R key values..." (floats printed with %a, i.e. exactly) in <outfile>.
 */
#include <stdio.h>
#include <stdlib.h>
#include <string.h>
#include <math.h>

#ifndef VP_PREC
#define VP_PREC 1
#endif
#if VP_PREC == 0
#include "slu_mt_sdefs.h"
typedef float real_t; typedef float val_t;
#define NV 1
#define P(x) s##x
#define PP(x) ps##x
#define LAMCH slamch_
extern double slamch_(char *);
#elif VP_PREC == 1
#include "slu_mt_ddefs.h"
typedef double real_t; typedef double val_t;
#define NV 1
#define P(x) d##x
#define PP(x) pd##x
#define LAMCH dlamch_
extern double dlamch_(char *);
#elif VP_PREC == 2
#include "slu_mt_cdefs.h"
typedef float real_t; typedef complex val_t;
#define NV 2
#define P(x) c##x
#define PP(x) pc##x
#define LAMCH slamch_
extern double slamch_(char *);
#else
#include "slu_mt_zdefs.h"
typedef double real_t; typedef doublecomplex val_t;
#define NV 2
#define P(x) z##x
#define PP(x) pz##x
#define LAMCH dlamch_
extern double dlamch_(char *);
#endif

extern void verif_set_ienv(int ispec, int_t v);
extern real_t P(langs)(char *, SuperMatrix *);   /* not declared in the slu_mt_?defs.h headers */

static FILE *out;
static int logvec = 0;        /* log vectors inside gscon / gsrfs (d only) */
static int ctx_gscon = 0, ctx_gsrfs = 0, quiet = 0;

static void pr_real(const char *key, const real_t *a, long n)
{
    long i; fprintf(out, "#R %s", key);
    for (i = 0; i < n; ++i) fprintf(out, " %a", (double) a[i]);
    fprintf(out, "\n");
}
static void pr_val(const char *key, const val_t *a, long n)
{
    pr_real(key, (const real_t *) a, n * NV);
}
static void pr_val(const char *key, const val_t *a, long n);
/* the logical nrow x ncol content of a dense matrix stored with leading dimension lda, printed column after column */
static void pr_packed(const char *key, const val_t *a, long nrow, long ncol, long lda)
{
    val_t *t = (val_t *) malloc(sizeof(val_t) * (nrow * ncol + 1));
    for (long j = 0; j < ncol; ++j) for (long i = 0; i < nrow; ++i) t[j * nrow + i] = a[j * lda + i];
    pr_val(key, t, nrow * ncol);
    free(t);
}
static void pr_int(const char *key, const int_t *a, long n)
{
    long i; fprintf(out, "#R %s", key);
    for (i = 0; i < n; ++i) fprintf(out, " %ld", (long) a[i]);
    fprintf(out, "\n");
}

/* ------------------------------------------------------------------ wrappers (call log) */
#if VP_PREC == 0
#define REAL(f) __real_s##f
#define WRAP(f) __wrap_s##f
#elif VP_PREC == 1
#define REAL(f) __real_d##f
#define WRAP(f) __wrap_d##f
#elif VP_PREC == 2
#define REAL(f) __real_c##f
#define WRAP(f) __wrap_c##f
#else
#define REAL(f) __real_z##f
#define WRAP(f) __wrap_z##f
#endif

extern real_t REAL(langs)(char *, SuperMatrix *);
extern void REAL(gscon)(char *, SuperMatrix *, SuperMatrix *, real_t, real_t *, int_t *);
extern real_t REAL(PivotGrowth)(int_t, SuperMatrix *, int_t *, SuperMatrix *, SuperMatrix *);
extern void REAL(gstrs)(trans_t, SuperMatrix *, SuperMatrix *, int_t *, int_t *, SuperMatrix *, Gstat_t *, int_t *);
extern void REAL(gsrfs)(trans_t, SuperMatrix *, SuperMatrix *, SuperMatrix *, int_t *, int_t *, equed_t,
                        real_t *, real_t *, SuperMatrix *, SuperMatrix *, real_t *, real_t *, Gstat_t *, int_t *);
extern void REAL(gsequ)(SuperMatrix *, real_t *, real_t *, real_t *, real_t *, real_t *, int_t *);
extern void REAL(laqgs)(SuperMatrix *, real_t *, real_t *, real_t, real_t, real_t, equed_t *);

real_t WRAP(langs)(char *norm, SuperMatrix *A)
{
    real_t r = REAL(langs)(norm, A);
    if (!quiet) fprintf(out, "#R ev langs %d %a\n", (int) *(unsigned char *) norm, (double) r);
    return r;
}
void WRAP(gscon)(char *norm, SuperMatrix *L, SuperMatrix *U, real_t anorm, real_t *rcond, int_t *info)
{
    if (!quiet) fprintf(out, "#R ev gscon_in %d %a\n", (int) *(unsigned char *) norm, (double) anorm);
    ctx_gscon = 1;
    REAL(gscon)(norm, L, U, anorm, rcond, info);
    ctx_gscon = 0;
    if (!quiet) fprintf(out, "#R ev gscon_out %a %ld\n", (double) *rcond, (long) *info);
}
real_t WRAP(PivotGrowth)(int_t ncols, SuperMatrix *A, int_t *perm_c, SuperMatrix *L, SuperMatrix *U)
{
    real_t r = REAL(PivotGrowth)(ncols, A, perm_c, L, U);
    if (!quiet) fprintf(out, "#R ev pivotgrowth %ld %a\n", (long) ncols, (double) r);
    return r;
}
static int fe_open;
static void fs_log(const char *name, long a, SuperMatrix *B)
{   /* the solve ?gsrfs performs to answer the estimator (all precisions): "fs_in trans v.." / "fs_out info v.." */
    DNformat *Bs = B->Store; long i;
    if (quiet || !ctx_gsrfs || !fe_open || B->ncol != 1) return;
    fprintf(out, "#R ev %s %ld", name, a);
    for (i = 0; i < (long) B->nrow * NV; ++i) fprintf(out, " %a", (double) ((real_t *) Bs->nzval)[i]);
    fprintf(out, "\n");
}
void WRAP(gstrs)(trans_t trans, SuperMatrix *L, SuperMatrix *U, int_t *perm_r, int_t *perm_c, SuperMatrix *B,
                 Gstat_t *Gstat, int_t *info)
{
    DNformat *Bs = B->Store;
    int lg = (!quiet && logvec && B->ncol == 1);
    fs_log("fs_in", (long) trans, B);
    if (lg) { fprintf(out, "#R ev gstrs_in %d %d", (int) trans, ctx_gsrfs);
              for (long i = 0; i < (long) B->nrow * NV; ++i) fprintf(out, " %a", (double) ((real_t *) Bs->nzval)[i]);
              fprintf(out, "\n"); }
    else if (!quiet) fprintf(out, "#R ev gstrs_call %d %d %ld\n", (int) trans, ctx_gsrfs, (long) B->ncol);
    REAL(gstrs)(trans, L, U, perm_r, perm_c, B, Gstat, info);
    fs_log("fs_out", (long) *info, B);
    if (lg) { fprintf(out, "#R ev gstrs_out %ld", (long) *info);
              for (long i = 0; i < (long) B->nrow * NV; ++i) fprintf(out, " %a", (double) ((real_t *) Bs->nzval)[i]);
              fprintf(out, "\n"); }
}
void WRAP(gsrfs)(trans_t trans, SuperMatrix *A, SuperMatrix *L, SuperMatrix *U, int_t *perm_r, int_t *perm_c,
                 equed_t equed, real_t *R, real_t *C, SuperMatrix *B, SuperMatrix *X, real_t *ferr, real_t *berr,
                 Gstat_t *Gstat, int_t *info)
{
    DNformat *Xs = X->Store, *Bs = B->Store;
    if (!quiet) {
        fprintf(out, "#R ev gsrfs_in %d %d %ld\n", (int) trans, (int) equed, (long) B->ncol);
        pr_packed("ev gsrfs_X0", (val_t *) Xs->nzval, X->nrow, X->ncol, Xs->lda);
        pr_packed("ev gsrfs_B", (val_t *) Bs->nzval, B->nrow, B->ncol, Bs->lda);
    }
    ctx_gsrfs = 1;
    REAL(gsrfs)(trans, A, L, U, perm_r, perm_c, equed, R, C, B, X, ferr, berr, Gstat, info);
    ctx_gsrfs = 0;
    if (!quiet) {
        fprintf(out, "#R ev gsrfs_out %ld\n", (long) *info);
        pr_packed("ev gsrfs_X1", (val_t *) Xs->nzval, X->nrow, X->ncol, Xs->lda);
        pr_real("ev gsrfs_ferr", ferr, B->ncol);
        pr_real("ev gsrfs_berr", berr, B->ncol);
    }
}
void WRAP(gsequ)(SuperMatrix *A, real_t *r, real_t *c, real_t *rowcnd, real_t *colcnd, real_t *amax, int_t *info)
{
    REAL(gsequ)(A, r, c, rowcnd, colcnd, amax, info);
    if (!quiet) fprintf(out, "#R ev gsequ %ld\n", (long) *info);
}
void WRAP(laqgs)(SuperMatrix *A, real_t *r, real_t *c, real_t rowcnd, real_t colcnd, real_t amax, equed_t *equed)
{
    REAL(laqgs)(A, r, c, rowcnd, colcnd, amax, equed);
    if (!quiet) fprintf(out, "#R ev laqgs %d\n", (int) *equed);
}

/* every vector exchanged with the estimator INSIDE ?gscon (all precisions): "ge_in kase x.." = what ?gscon hands to ?lacon_ (its reply to
   the previous request), "ge_out kase x.." = what ?lacon_ asks for next */
/* fe_open (declared above): inside ?gsrfs the estimator has asked for a product that has not been answered yet */
static void ge_log(const char *name, long kase, const val_t *x, long n)
{
    long i;
    if (quiet || !(ctx_gscon || ctx_gsrfs)) return;
    if (ctx_gsrfs && !ctx_gscon) {           /* same exchange inside ?gsrfs (forward error estimate): fe_in / fe_out */
        fe_open = (name[3] == 'o' && kase != 0);
        fprintf(out, "#R ev f%s %ld", name + 1, kase);
    } else
    fprintf(out, "#R ev %s %ld", name, kase);
    for (i = 0; i < n * NV; ++i) fprintf(out, " %a", (double) ((const real_t *) x)[i]);
    fprintf(out, "\n");
}
#if VP_PREC == 0
extern int_t __real_slacon_(int_t *, float *, float *, int_t *, float *, int_t *);
int_t __wrap_slacon_(int_t *n, float *v, float *x, int_t *isgn, float *est, int_t *kase)
{ int_t r; ge_log("ge_in", (long) *kase, x, *n); r = __real_slacon_(n, v, x, isgn, est, kase); ge_log("ge_out", (long) *kase, x, *n); return r; }
#elif VP_PREC == 2
extern int_t __real_clacon_(int_t *, complex *, complex *, float *, int_t *);
int_t __wrap_clacon_(int_t *n, complex *v, complex *x, float *est, int_t *kase)
{ int_t r; ge_log("ge_in", (long) *kase, x, *n); r = __real_clacon_(n, v, x, est, kase); ge_log("ge_out", (long) *kase, x, *n); return r; }
#elif VP_PREC == 3
extern int_t __real_zlacon_(int_t *, doublecomplex *, doublecomplex *, double *, int_t *);
int_t __wrap_zlacon_(int_t *n, doublecomplex *v, doublecomplex *x, double *est, int_t *kase)
{ int_t r; ge_log("ge_in", (long) *kase, x, *n); r = __real_zlacon_(n, v, x, est, kase); ge_log("ge_out", (long) *kase, x, *n); return r; }
#endif

#if VP_PREC == 1
extern int_t __real_dlacon_(int_t *, double *, double *, int_t *, double *, int_t *);
extern int_t __real_sp_dtrsv(char *, char *, char *, SuperMatrix *, SuperMatrix *, double *, int_t *);
int_t __wrap_dlacon_(int_t *n, double *v, double *x, int_t *isgn, double *est, int_t *kase)
{
    int_t r;
    int lg = (!quiet && logvec);
    ge_log("ge_in", (long) *kase, x, *n);
    if (lg) { fprintf(out, "#R ev lacon_in %ld %a", (long) *kase, *est);
              for (long i = 0; i < *n; ++i) fprintf(out, " %a", x[i]);
              fprintf(out, "\n"); }
    r = __real_dlacon_(n, v, x, isgn, est, kase);
    ge_log("ge_out", (long) *kase, x, *n);
    if (lg) { long i;
              fprintf(out, "#R ev lacon_out %ld %a", (long) *kase, *est);
              for (i = 0; i < *n; ++i) fprintf(out, " %a", x[i]);
              fprintf(out, "\n#R ev lacon_v");
              for (i = 0; i < *n; ++i) fprintf(out, " %a", v[i]);
              fprintf(out, "\n"); }
    return r;
}
int_t __wrap_sp_dtrsv(char *uplo, char *trans, char *diag, SuperMatrix *L, SuperMatrix *U, double *x, int_t *info)
{
    int_t r; long n = L->nrow;
    int lg = (!quiet && logvec && ctx_gscon);
    if (lg) { fprintf(out, "#R ev trsv_in %c %c %c", *uplo, *trans, *diag);
              for (long i = 0; i < n; ++i) fprintf(out, " %a", x[i]);
              fprintf(out, "\n"); }
    r = __real_sp_dtrsv(uplo, trans, diag, L, U, x, info);
    if (lg) { fprintf(out, "#R ev trsv_out %ld", (long) *info);
              for (long i = 0; i < n; ++i) fprintf(out, " %a", x[i]);
              fprintf(out, "\n"); }
    return r;
}
#endif

/* ------------------------------------------------------------------ case input */
typedef struct {
    char id[128];
    long n, nnz, nrhs, stype, trans, fact, nprocs, permc, dirty, equed_in, ldb, ldx, stale;   /* ldb, ldx: leading dimensions of B, X (0 = n) */
    double u;
    int_t *ptr, *ind; val_t *val, *b; double *xpert, *apert;
    double *M;             /* lacon mode: dense n x n operator, row major */
    char mode[32];
} vcase;

static double rd_f(void)
{
    char tok[128]; if (scanf("%127s", tok) != 1) { fprintf(stderr, "harness: unexpected end of input\n"); exit(3); }
    return strtod(tok, NULL);
}
static long rd_i(void)
{
    long v; if (scanf("%ld", &v) != 1) { fprintf(stderr, "harness: integer expected\n"); exit(3); }
    return v;
}

static int read_case(vcase *c)
{
    char key[64];
    memset(c, 0, sizeof *c);
    c->u = 1.0; c->nprocs = 1; c->nrhs = 1; c->permc = 0; strcpy(c->mode, "ssvx");
    while (scanf("%63s", key) == 1) {
        if (!strcmp(key, "case")) { if (scanf("%127s", c->id) != 1) return 0; }
        else if (!strcmp(key, "mode")) { if (scanf("%31s", c->mode) != 1) return 0; }
        else if (!strcmp(key, "n")) c->n = rd_i();
        else if (!strcmp(key, "nnz")) c->nnz = rd_i();
        else if (!strcmp(key, "nrhs")) c->nrhs = rd_i();
        else if (!strcmp(key, "stype")) c->stype = rd_i();
        else if (!strcmp(key, "trans")) c->trans = rd_i();
        else if (!strcmp(key, "fact")) c->fact = rd_i();
        else if (!strcmp(key, "nprocs")) c->nprocs = rd_i();
        else if (!strcmp(key, "permc")) c->permc = rd_i();
        else if (!strcmp(key, "dirty")) c->dirty = rd_i();
        else if (!strcmp(key, "ldb")) c->ldb = rd_i();
        else if (!strcmp(key, "ldx")) c->ldx = rd_i();
        else if (!strcmp(key, "stale")) c->stale = rd_i();
        else if (!strcmp(key, "u")) c->u = rd_f();
        else if (!strcmp(key, "ptr")) { c->ptr = malloc(sizeof(int_t) * (c->n + 1)); for (long i = 0; i <= c->n; ++i) c->ptr[i] = rd_i(); }
        else if (!strcmp(key, "ind")) { c->ind = malloc(sizeof(int_t) * (c->nnz + 1)); for (long i = 0; i < c->nnz; ++i) c->ind[i] = rd_i(); }
        else if (!strcmp(key, "val")) { c->val = malloc(sizeof(val_t) * (c->nnz + 1)); for (long i = 0; i < c->nnz * NV; ++i) ((real_t *) c->val)[i] = (real_t) rd_f(); }
        else if (!strcmp(key, "b")) { c->b = malloc(sizeof(val_t) * (c->n * c->nrhs + 1)); for (long i = 0; i < c->n * c->nrhs * NV; ++i) ((real_t *) c->b)[i] = (real_t) rd_f(); }
        else if (!strcmp(key, "apert")) { c->apert = malloc(sizeof(double) * (c->nnz + 1)); for (long i = 0; i < c->nnz; ++i) c->apert[i] = rd_f(); }
        else if (!strcmp(key, "xpert")) { c->xpert = malloc(sizeof(double) * (c->n * c->nrhs + 1)); for (long i = 0; i < c->n * c->nrhs; ++i) c->xpert[i] = rd_f(); }
        else if (!strcmp(key, "M")) { c->M = malloc(sizeof(double) * (c->n * c->n + 1)); for (long i = 0; i < c->n * c->n; ++i) c->M[i] = rd_f(); }
        else if (!strcmp(key, "go")) return 1;
        else { fprintf(stderr, "harness: unknown key %s\n", key); exit(3); }
    }
    return 0;
}

static void free_case(vcase *c) { free(c->ptr); free(c->ind); free(c->val); free(c->b); free(c->M); free(c->xpert); free(c->apert); }

/* ------------------------------------------------------------------ mode lacon (d only): drive the real dlacon_ */
#if VP_PREC == 1
static void apply_dense(const double *M, long n, int transposed, double *x, double *tmp)
{
    long i, j;
    for (i = 0; i < n; ++i) {
        double s = 0.0;
        if (!transposed) for (j = 0; j < n; ++j) s += M[i * n + j] * x[j];
        else             for (j = 0; j < n; ++j) s += M[j * n + i] * x[j];
        tmp[i] = s;
    }
    for (i = 0; i < n; ++i) x[i] = tmp[i];
}
static void run_lacon(vcase *c)
{
    long n = c->n, calls = 0; int_t nn = (int_t) n, kase = 0;
    double *v = calloc(n + 1, sizeof(double)), *x = calloc(n + 1, sizeof(double)), *tmp = calloc(n + 1, sizeof(double));
    int_t *isgn = calloc(n + 1, sizeof(int_t));
    double est = 0.0;
    fprintf(out, "#R case %s\n#R mode lacon\n", c->id);
    if (c->dirty) {   /* leave the function statics of dlacon_ in the state of another, unfinished run */
        int_t m = (int_t) c->dirty, k2 = 0; double e2 = 0; long t;
        double *v2 = calloc(m + 1, sizeof(double)), *x2 = calloc(m + 1, sizeof(double)); int_t *s2 = calloc(m + 1, sizeof(int_t));
        int save = quiet; quiet = 1;
        for (t = 0; t < 4; ++t) { dlacon_(&m, v2, x2, s2, &e2, &k2); if (k2 == 0) break;
                                  for (long i = 0; i < m; ++i) x2[i] = (double) ((i * 7 + t * 3) % 5) - 1.5; }
        quiet = save; free(v2); free(x2); free(s2);
    }
    logvec = 1;
    do {
        dlacon_(&nn, v, x, isgn, &est, &kase);
        ++calls;
        pr_int("lacon_isgn", isgn, n);
        if (kase == 0 || calls > 64) break;
        apply_dense(c->M, n, kase == 2, x, tmp);
    } while (1);
    logvec = 0;
    fprintf(out, "#R lacon_final %ld %a %ld\n", (long) kase, est, calls);
    fprintf(out, "#R end\n");
    free(v); free(x); free(tmp); free(isgn);
}
#endif

/* ------------------------------------------------------------------ mode ssvx: the expert driver */
static void run_ssvx(vcase *c)
{
    SuperMatrix A, L, U, B, X;
    long n = c->n, nrhs = c->nrhs, i;
    int_t *perm_c = malloc(sizeof(int_t) * (n + 1)), *perm_r = malloc(sizeof(int_t) * (n + 1));
    real_t *R = calloc(n + 1, sizeof(real_t)), *C = calloc(n + 1, sizeof(real_t));
    real_t *ferr = calloc(nrhs + 1, sizeof(real_t)), *berr = calloc(nrhs + 1, sizeof(real_t));
    val_t *xm = malloc(sizeof(val_t) * (n * nrhs + 1)), *bp = NULL, *xp = NULL;
    long ldb_ = 0, ldx_ = 0;
    real_t rpg = -777, rcond = -777;
    equed_t equed = NOEQUIL;
    superlumt_options_t o;
    superlu_memusage_t mu;
    int_t info = -999;
    real_t mach[2];

    for (i = 0; i < n * nrhs * NV; ++i) ((real_t *) xm)[i] = (real_t) NAN;   /* sentinel: X must be overwritten */
    for (i = 0; i < nrhs; ++i) { ferr[i] = (real_t) -777; berr[i] = (real_t) -777; }
    if (c->stype == 0)
        P(Create_CompCol_Matrix)(&A, n, n, c->nnz, c->val, c->ind, c->ptr, SLU_NC, (NV == 1 ? (sizeof(real_t) == 4 ? SLU_S : SLU_D) : (sizeof(real_t) == 4 ? SLU_C : SLU_Z)), SLU_GE);
    else
        P(Create_CompRow_Matrix)(&A, n, n, c->nnz, c->val, c->ind, c->ptr, SLU_NR, (NV == 1 ? (sizeof(real_t) == 4 ? SLU_S : SLU_D) : (sizeof(real_t) == 4 ? SLU_C : SLU_Z)), SLU_GE);
    {   /* B and X with their own leading dimensions; the rows n..ld-1 of every column hold a sentinel */
        long ldb = c->ldb > n ? c->ldb : n, ldx = c->ldx > n ? c->ldx : n, j;
        bp = (val_t *) malloc(sizeof(val_t) * (ldb * nrhs + 1)); xp = (val_t *) malloc(sizeof(val_t) * (ldx * nrhs + 1));
        for (i = 0; i < ldb * nrhs * NV; ++i) ((real_t *) bp)[i] = (real_t) 781.25;
        for (i = 0; i < ldx * nrhs * NV; ++i) ((real_t *) xp)[i] = (real_t) 781.25;
        for (j = 0; j < nrhs; ++j) { memcpy(bp + j * ldb, c->b + j * n, sizeof(val_t) * n); memcpy(xp + j * ldx, xm + j * n, sizeof(val_t) * n); }
        P(Create_Dense_Matrix)(&B, n, nrhs, bp, ldb, SLU_DN, A.Dtype, SLU_GE);
        P(Create_Dense_Matrix)(&X, n, nrhs, xp, ldx, SLU_DN, A.Dtype, SLU_GE);
        ldb_ = ldb; ldx_ = ldx;
    }
    get_perm_c(c->permc, &A, perm_c);

    memset(&o, 0, sizeof o);
    o.nprocs = c->nprocs; o.fact = (fact_t) c->fact; o.trans = (trans_t) c->trans; o.refact = NO;
    o.panel_size = sp_ienv(1); o.relax = sp_ienv(2); o.usepr = NO; o.drop_tol = 0.0;
    o.diag_pivot_thresh = c->u; o.SymmetricMode = NO; o.PrintStat = NO;
    o.perm_c = perm_c; o.perm_r = perm_r; o.work = NULL; o.lwork = 0;
    o.etree = malloc(sizeof(int_t) * (n + 1)); o.colcnt_h = malloc(sizeof(int_t) * (n + 1)); o.part_super_h = malloc(sizeof(int_t) * (n + 1));

    mach[0] = LAMCH("E"); mach[1] = LAMCH("S");
    fprintf(out, "#R case %s\n#R mode ssvx\n", c->id);
    pr_real("mach", mach, 2);
    if (c->stale > 0 && c->fact != (long) FACTORED) {
        /* equed, R and C are OUTPUTS of a call that factors (fact != FACTORED): what the caller's variables held before - here the
         * result of an earlier, unrelated call that did equilibrate - is not an argument of this call */
        equed = (equed_t) (c->stale & 3);
        for (i = 0; i < n; ++i) { R[i] = (real_t) ldexp(1.0, (int) ((i * 37 + 11) % 41) - 20); C[i] = (real_t) ldexp(1.0, (int) ((i * 29 + 5) % 37) - 18); }
    }
    logvec = (VP_PREC == 1);
    L.Store = U.Store = NULL;
    PP(gssvx)(c->nprocs, &o, &A, perm_c, perm_r, &equed, R, C, &L, &U, &B, &X, &rpg, &rcond, ferr, berr, &mu, &info);
    logvec = 0;
    {   /* back to the packed arrays the rest of this function (and the python side) works with; padding must be untouched */
        long j, bad = 0;
        for (j = 0; j < nrhs; ++j) { memcpy(c->b + j * n, bp + j * ldb_, sizeof(val_t) * n); memcpy(xm + j * n, xp + j * ldx_, sizeof(val_t) * n); }
        for (j = 0; j < nrhs; ++j) {
            for (i = n * NV; i < ldb_ * NV; ++i) if (((real_t *) (bp + j * ldb_))[i] != (real_t) 781.25) ++bad;
            for (i = n * NV; i < ldx_ * NV; ++i) if (((real_t *) (xp + j * ldx_))[i] != (real_t) 781.25) ++bad;
        }
        fprintf(out, "#R padbad %ld\n", bad);
        /* from here on B and X are the packed copies */
        ((DNformat *) B.Store)->nzval = c->b; ((DNformat *) B.Store)->lda = n;
        ((DNformat *) X.Store)->nzval = xm; ((DNformat *) X.Store)->lda = n;
    }
    fprintf(out, "#R info %ld\n#R equed %d\n#R rcond %a\n#R rpg %a\n", (long) info, (int) equed, (double) rcond, (double) rpg);
    pr_real("R", R, n); pr_real("C", C, n);
    pr_val("Aval", c->val, c->nnz);
    pr_val("B", c->b, n * nrhs);
    pr_val("X", xm, n * nrhs);
    pr_real("ferr", ferr, nrhs); pr_real("berr", berr, nrhs);
    pr_int("perm_c", perm_c, n); pr_int("perm_r", perm_r, n);
    if (info >= 0 && info <= n + 1 && L.Store && U.Store) {
        SCPformat *Ls = L.Store; NCPformat *Us = U.Store; long mx, ns = Ls->nsuper + 1;
        fprintf(out, "#R nsuper %ld\n", (long) Ls->nsuper);
        pr_int("L_sup_beg", Ls->sup_to_colbeg, ns); pr_int("L_sup_end", Ls->sup_to_colend, ns);
        pr_int("L_ri_beg", Ls->rowind_colbeg, n); pr_int("L_ri_end", Ls->rowind_colend, n);
        pr_int("L_nz_beg", Ls->nzval_colbeg, n); pr_int("L_nz_end", Ls->nzval_colend, n);
        for (mx = 0, i = 0; i < n; ++i) if (Ls->rowind_colend[i] > mx) mx = Ls->rowind_colend[i];
        pr_int("L_rowind", Ls->rowind, mx);
        for (mx = 0, i = 0; i < n; ++i) if (Ls->nzval_colend[i] > mx) mx = Ls->nzval_colend[i];
        pr_val("L_nzval", (val_t *) Ls->nzval, mx);
        pr_int("U_beg", Us->colbeg, n); pr_int("U_end", Us->colend, n);
        for (mx = 0, i = 0; i < n; ++i) if (Us->colend[i] > mx) mx = Us->colend[i];
        pr_int("U_rowind", Us->rowind, mx);
        pr_val("U_nzval", (val_t *) Us->nzval, mx);
        /* direct calls of ?langs / ?gscon / ?PivotGrowth on the returned (equilibrated) A and factors, every norm letter */
        if (info == 0 || info == n + 1) {
            static const char letters[] = "1OoIi";
            SuperMatrix AA, *pa = &A; int k;
            if (c->stype == 1) {   /* the NC view of the row-wise matrix = its transpose, as the driver builds it */
                NRformat *As = A.Store;
                P(Create_CompCol_Matrix)(&AA, n, n, As->nnz, As->nzval, As->colind, As->rowptr, SLU_NC, A.Dtype, SLU_GE);
                pa = &AA;
            }
            quiet = 1;
            for (k = 0; letters[k]; ++k) {
                char nm[2] = { letters[k], 0 }; real_t an, rc = -777; int_t inf2 = -999;
                an = P(langs)(nm, pa);
                P(gscon)(nm, &L, &U, an, &rc, &inf2);
                fprintf(out, "#R direct %d %a %a %ld\n", (int) letters[k], (double) an, (double) rc, (long) inf2);
            }
            { real_t g = P(PivotGrowth)((int_t) n, pa, perm_c, &L, &U); fprintf(out, "#R direct_rpg %a\n", (double) g); }
            { char nm[2] = "M"; real_t an = P(langs)(nm, pa); fprintf(out, "#R direct_maxabs %a\n", (double) an); }
            quiet = 0;
            {   /* the same factors reused (fact = FACTORED) for the OTHER transpose, with a fresh rcond variable: the estimate is an
                   output of every call and belongs to the norm of the system solved by THAT call */
                real_t rc2 = (real_t) -1, rpg2 = 0; int_t inf2 = -999; trans_t t2 = (c->trans == 0) ? TRANS : NOTRANS;
                val_t *sb = malloc(sizeof(val_t) * (n * nrhs + 1)), *sx = malloc(sizeof(val_t) * (n * nrhs + 1));
                real_t *f2 = calloc(nrhs + 1, sizeof(real_t)), *b2 = calloc(nrhs + 1, sizeof(real_t));
                equed_t eq2 = equed;
                memcpy(sb, c->b, sizeof(val_t) * n * nrhs); memcpy(sx, xm, sizeof(val_t) * n * nrhs);
                o.fact = FACTORED; o.trans = t2; quiet = 1;
                PP(gssvx)(c->nprocs, &o, &A, perm_c, perm_r, &eq2, R, C, &L, &U, &B, &X, &rpg2, &rc2, f2, b2, &mu, &inf2);
                quiet = 0; o.fact = (fact_t) c->fact; o.trans = (trans_t) c->trans;
                memcpy(c->b, sb, sizeof(val_t) * n * nrhs); memcpy(xm, sx, sizeof(val_t) * n * nrhs);
                fprintf(out, "#R factored2 %d %a %ld\n", (int) t2, (double) rc2, (long) inf2);
                free(sb); free(sx); free(f2); free(b2);
            }
            /* ?gsrfs called directly (C13): start from the solution of ?gstrs perturbed entry-wise by the
               relative amounts given in the case, so that several refinement steps are taken */
            if (c->xpert) {
                trans_t trant = (trans_t) c->trans;
                val_t *x2 = malloc(sizeof(val_t) * (n * nrhs + 1));
                real_t *f2 = calloc(nrhs + 1, sizeof(real_t)), *b2 = calloc(nrhs + 1, sizeof(real_t));
                SuperMatrix X2; Gstat_t Gstat; int_t inf3 = -999;
                if (c->stype == 1) trant = (c->trans == 0) ? TRANS : NOTRANS;
                memcpy(x2, c->b, sizeof(val_t) * n * nrhs);
                P(Create_Dense_Matrix)(&X2, n, nrhs, x2, n, SLU_DN, A.Dtype, SLU_GE);
                StatAlloc(n, c->nprocs, o.panel_size, o.relax, &Gstat); StatInit(n, c->nprocs, &Gstat);
                quiet = 1;
                P(gstrs)(trant, &L, &U, perm_r, perm_c, &X2, &Gstat, &inf3);
                quiet = 0;
                for (i = 0; i < n * nrhs; ++i) {
                    ((real_t *) x2)[i * NV] = (real_t) (((real_t *) x2)[i * NV] * (1.0 + c->xpert[i]));
                    if (NV == 2) ((real_t *) x2)[i * NV + 1] = (real_t) (((real_t *) x2)[i * NV + 1] * (1.0 - c->xpert[i]));
                }
                if (c->apert) {   /* refine against a matrix that differs from the factored one: slow convergence, many steps */
                    for (i = 0; i < c->nnz; ++i) {
                        ((real_t *) c->val)[i * NV] = (real_t) (((real_t *) c->val)[i * NV] * (1.0 + c->apert[i]));
                        if (NV == 2) ((real_t *) c->val)[i * NV + 1] = (real_t) (((real_t *) c->val)[i * NV + 1] * (1.0 + c->apert[i]));
                    }
                    pr_val("Aval2", c->val, c->nnz);
                }
                fprintf(out, "#R ev direct_rfs %d %ld\n", (int) trant, (long) inf3);
                logvec = (VP_PREC == 1);
                P(gsrfs)(trant, pa, &L, &U, perm_r, perm_c, equed, R, C, &B, &X2, f2, b2, &Gstat, &inf3);
                logvec = 0;
                StatFree(&Gstat);
                free(x2); free(f2); free(b2);
            }
            if (c->stype == 1) Destroy_SuperMatrix_Store(&AA);
        }
    }
    fprintf(out, "#R end\n");
    fflush(out);
    free(perm_c); free(perm_r); free(R); free(C); free(ferr); free(berr); free(xm); free(bp); free(xp);
    free(o.etree); free(o.colcnt_h); free(o.part_super_h);
    /* L, U and the SuperMatrix headers are left to the process exit (one process per batch) */
}

int main(int argc, char **argv)
{
    vcase c;
    if (argc < 2) { fprintf(stderr, "usage: %s outfile < cases\n", argv[0]); return 2; }
    out = fopen(argv[1], "w");
    if (!out) { perror(argv[1]); return 2; }
    while (read_case(&c)) {
        if (!strcmp(c.mode, "ssvx")) run_ssvx(&c);
#if VP_PREC == 1
        else if (!strcmp(c.mode, "lacon")) run_lacon(&c);
#endif
        else { fprintf(stderr, "harness: unknown mode %s\n", c.mode); return 3; }
        fflush(out);
        free_case(&c);
    }
    fprintf(out, "#R done\n");
    fclose(out);
    return 0;
}
