/* persist_harness.c -- C side of the C08 / C18 correspondence (area Persist).
 *
 * Executes a sequence of library calls ("ops") in ONE process, over several independent
 * sessions (slots) that may use different precisions, sizes and memory modes, and after every
 * op writes the observable outputs and the observable part of the process-wide persistent state
 * (file-statics of p?memory.c, function-static Glu of p?gstrf_thread_init.c) to the result file.
 *
 * usage: persist_harness <casefile> <resultfile>
 *
 * The harness is precision-generic: it includes only the precision independent headers and
 * declares the four families of entry points itself (the four slu_mt_?defs.h cannot be included
 * in one translation unit).  Numerical data are handled as arrays of "real components"
 * (ncomp = 1 or 2 per entry, 4 or 8 bytes each) and are read / written as C99 hex floats, so the
 * python side sees exactly the bits the library saw.
 *
 * Case file (whitespace separated tokens):
 *   ienv w relax maxsuper rowblk colblk f6 f7 f8
 *   slot S prec P n N nnz NNZ  <N+1 colptr> <NNZ rowind>
 *   first  S api nprocs permc u fact lwork relax panel trans nrhs usepr  <vals> <rhs>
 *   refact S api nprocs usepr u fact lwork relax panel trans nrhs        <vals> <rhs>
 *   solve  S api nprocs trans nrhs                                       <rhs>
 *   query  S api refact nprocs relax panel restore   (restore=1: the harness puts the caller's perm_r back AFTER reporting
 *                                                    what the call left in it, so that the sequence can go on)
 *   qspace S nprocs panel
 *   destroy S
 *   setienv k v
 *   setpermr S <n ints>          (overwrite perm_r, used to restore it after a query)
 *   end
 *   api: 0 = p?gssvx (expert driver), 1 = p?gstrf_init + p?gstrf + ?gstrs, 2 = p?gssv (first only)
 */
#include <stdio.h>
#include <stdlib.h>
#include <string.h>
#include <stdint.h>
#include <math.h>
#include "slu_mt_ddefs.h"   /* int_t, pthread, slu_mt_util.h, supermatrix.h and the d-precision prototypes */

extern void verif_set_ienv(int ispec, int_t v);

/* ------------------------------------------------------------------ entry points, 4 precisions */
#define DECL_MAIN(P, R) \
  extern void p##P##gssvx(int_t, superlumt_options_t *, SuperMatrix *, int_t *, int_t *, equed_t *, R *, R *, \
                          SuperMatrix *, SuperMatrix *, SuperMatrix *, SuperMatrix *, R *, R *, R *, R *, \
                          superlu_memusage_t *, int_t *); \
  extern void p##P##gssv(int_t, SuperMatrix *, int_t *, int_t *, SuperMatrix *, SuperMatrix *, SuperMatrix *, int_t *); \
  extern void p##P##gstrf(superlumt_options_t *, SuperMatrix *, int_t *, SuperMatrix *, SuperMatrix *, Gstat_t *, int_t *); \
  extern void P##gstrs(trans_t, SuperMatrix *, SuperMatrix *, int_t *, int_t *, SuperMatrix *, Gstat_t *, int_t *); \
  extern int_t superlu_##P##QuerySpace(int_t, SuperMatrix *, SuperMatrix *, int_t, superlu_memusage_t *); \
  extern float p##P##gstrf_memory_use(const int_t, const int_t, const int_t); \
  extern int_t p##P##gstrf_WorkInit(int_t, int_t, int_t **, R **); \
  extern void p##P##gstrf_WorkFree(int_t *, R *, GlobalLU_t *);
#define DECL_MEM(P) \
  extern void *P##user_malloc(int_t, int_t); \
  extern void P##user_free(int_t, int_t); \
  extern void p##P##gstrf_verif_stack(long long v[5]);   /* hook (SLU_MT_VERIF): read-only accessor of the user stack */ \
  extern ExpHeader *P##expanders;
DECL_MAIN(s, float)
DECL_MAIN(c, float)
DECL_MAIN(z, double)
DECL_MEM(s) DECL_MEM(d) DECL_MEM(c) DECL_MEM(z)
extern void psgstrf_init(int_t, fact_t, trans_t, yes_no_t, int_t, int_t, float, yes_no_t, double, int_t *, int_t *,
                         void *, int_t, SuperMatrix *, SuperMatrix *, superlumt_options_t *, Gstat_t *);
extern void pcgstrf_init(int_t, fact_t, trans_t, yes_no_t, int_t, int_t, float, yes_no_t, double, int_t *, int_t *,
                         void *, int_t, SuperMatrix *, SuperMatrix *, superlumt_options_t *, Gstat_t *);
extern void pzgstrf_init(int_t, fact_t, trans_t, yes_no_t, int_t, int_t, double, yes_no_t, double, int_t *, int_t *,
                         void *, int_t, SuperMatrix *, SuperMatrix *, superlumt_options_t *, Gstat_t *);

typedef struct {
    char name; int rsize; int ncomp; Dtype_t dtype;
    void (*gssvx)(); void (*gssv)(); void (*gstrf)(); void (*gstrs)();
    int_t (*qspace)(); float (*memuse)(const int_t, const int_t, const int_t);
    void *(*umalloc)(int_t, int_t); void (*ufree)(int_t, int_t); void (*vstack)(long long *);
    int_t (*workinit)(); void (*workfree)();
    ExpHeader **expanders;
} prec_t;

static prec_t PREC[4];
static void init_prec(void)
{
#define SETP(i, P, RS, NC, DT) \
    PREC[i].name = #P[0]; PREC[i].rsize = RS; PREC[i].ncomp = NC; PREC[i].dtype = DT; \
    PREC[i].gssvx = (void (*)()) p##P##gssvx; PREC[i].gssv = (void (*)()) p##P##gssv; \
    PREC[i].gstrf = (void (*)()) p##P##gstrf; PREC[i].gstrs = (void (*)()) P##gstrs; \
    PREC[i].qspace = (int_t (*)()) superlu_##P##QuerySpace; PREC[i].memuse = p##P##gstrf_memory_use; \
    PREC[i].umalloc = P##user_malloc; PREC[i].ufree = P##user_free; PREC[i].vstack = p##P##gstrf_verif_stack; \
    PREC[i].workinit = (int_t (*)()) p##P##gstrf_WorkInit; PREC[i].workfree = (void (*)()) p##P##gstrf_WorkFree; \
    PREC[i].expanders = &P##expanders;
    SETP(0, s, 4, 1, SLU_S)
    SETP(1, d, 8, 1, SLU_D)
    SETP(2, c, 4, 2, SLU_C)
    SETP(3, z, 8, 2, SLU_Z)
}
static int prec_index(int c) { return c == 's' ? 0 : c == 'd' ? 1 : c == 'c' ? 2 : 3; }

/* ------------------------------------------------------------------ attribution of defect F1 (DESIGN.md section 8)
 * fixupL (SRC/util.c) compacts the row-subscript lists of L in supernode-NUMBER order and is only correct when that is
 * also their STORAGE order.  The harness is linked with -Wl,--wrap=fixupL, so the call made by p?gstrf_thread_finalize
 * lands here first; we only look (no change of behaviour) and then run the real routine.  GlobalLU_t has the same
 * layout in the four precisions (only the element type behind two pointers differs). */
extern void __real_fixupL(const int_t, const int_t *, GlobalLU_t *);
static int f1_order_seen = 0;
void __wrap_fixupL(const int_t n, const int_t *perm_r, GlobalLU_t *Glu)
{
    int_t s, nsuper = Glu->supno[n];
    f1_order_seen = 0;
    for (s = 0; s < nsuper; ++s)
        if (Glu->xlsub[Glu->xsup[s]] >= Glu->xlsub[Glu->xsup[s + 1]]) { f1_order_seen = 1; break; }
    __real_fixupL(n, perm_r, Glu);
}

/* ------------------------------------------------------------------ attribution of the user-workspace / threads defect
 * p?gstrf_WorkFree (p?memory.c:512-533), called by every thread when IT has finished, gives back the work arrays of ALL
 * threads (stack.top2 = stack.size).  A thread that starts late then gets, from p?gstrf_WorkInit, memory another thread is
 * still using.  The harness is linked with --wrap for the eight routines and only records: which iwork blocks are live,
 * and whether a new block coincides with a live one. */
#include <pthread.h>
static pthread_mutex_t ws_mu = PTHREAD_MUTEX_INITIALIZER;
#define WS_MAX 64
static struct { char *lo, *hi; } ws_live[WS_MAX];
static int ws_nlive = 0, ws_overlap_seen = 0;
static void ws_add(char *lo, long len)
{
    int k;
    if (!lo) return;
    pthread_mutex_lock(&ws_mu);
    for (k = 0; k < ws_nlive; ++k) if (lo < ws_live[k].hi && ws_live[k].lo < lo + len) ws_overlap_seen = 1;
    if (ws_nlive < WS_MAX) { ws_live[ws_nlive].lo = lo; ws_live[ws_nlive].hi = lo + len; ++ws_nlive; }
    pthread_mutex_unlock(&ws_mu);
}
static void ws_del(char *lo)
{
    int k;
    pthread_mutex_lock(&ws_mu);
    for (k = 0; k < ws_nlive; ++k) if (ws_live[k].lo == lo) { ws_live[k] = ws_live[--ws_nlive]; break; }
    pthread_mutex_unlock(&ws_mu);
}
static long ws_dsize(int_t n, int_t w, long esize)
{ long t = sp_ienv(3), b = sp_ienv(4), tv = 2L * n > (t + b) * w ? 2L * n : (t + b) * w; return ((long) n * w + tv) * esize; }
#define WRAP_WORK(P, R) \
  extern int_t __real_p##P##gstrf_WorkInit(int_t, int_t, int_t **, R **); \
  extern void __real_p##P##gstrf_WorkFree(int_t *, R *, GlobalLU_t *); \
  int_t __wrap_p##P##gstrf_WorkInit(int_t n, int_t w, int_t **ip, R **dp) \
  { int_t r = __real_p##P##gstrf_WorkInit(n, w, ip, dp); \
    if (r == 0) { ws_add((char *) *ip, (long) (2 * w + 5 + NO_MARKER) * n * (long) sizeof(int_t)); \
                  ws_add((char *) *dp, ws_dsize(n, w, (long) sizeof(R) * ((#P)[0] == 'c' || (#P)[0] == 'z' ? 2 : 1))); } return r; } \
  void __wrap_p##P##gstrf_WorkFree(int_t *iw, R *dw, GlobalLU_t *Glu) \
  { ws_del((char *) iw); ws_del((char *) dw); __real_p##P##gstrf_WorkFree(iw, dw, Glu); }
WRAP_WORK(s, float)
WRAP_WORK(d, double)
WRAP_WORK(c, float)
WRAP_WORK(z, double)

/* ------------------------------------------------------------------ sessions */
#define MAXSLOT 8
typedef struct {
    int used, p; int_t n, nnz;
    int_t *colptr, *rowind; void *vals;          /* A (NC) */
    NCformat Astore; SuperMatrix A;
    int_t *perm_c, *perm_r;
    superlumt_options_t opt;
    int own_sym;                                  /* etree/colcnt_h/part_super_h currently allocated */
    SuperMatrix L, U; int have_lu;
    void *work; int_t lwork;                      /* user workspace of the current factors (lwork>0) */
    void *R, *C; equed_t equed;
    int permc_ready;
    int wso;                                      /* a thread was handed work arrays another thread was still using */
    int f1;                                       /* storage order != supernode order seen in the factorization that made L,U */
} slot_t;
static slot_t SL[MAXSLOT];

static FILE *in, *out;

/* ------------------------------------------------------------------ token reader */
static char tok[256];
static int next_tok(void) { return fscanf(in, "%255s", tok) == 1; }
static long rd_int(void) { if (!next_tok()) { fprintf(stderr, "persist_harness: unexpected EOF\n"); exit(90); } return strtol(tok, NULL, 10); }
static double rd_real(void) { if (!next_tok()) { fprintf(stderr, "persist_harness: unexpected EOF\n"); exit(90); } return strtod(tok, NULL); }
static void rd_vals(void *dst, long count, int rsize)
{
    long i;
    for (i = 0; i < count; ++i) {
        double v = rd_real();
        if (rsize == 4) ((float *) dst)[i] = (float) v; else ((double *) dst)[i] = v;
    }
}
static void pr_vals(const char *tag, const void *src, long count, int rsize)
{
    long i;
    fprintf(out, "%s %ld", tag, count);
    for (i = 0; i < count; ++i) {
        double v = rsize == 4 ? (double) ((const float *) src)[i] : ((const double *) src)[i];
        fprintf(out, " %a", v);
    }
    fprintf(out, "\n");
}
static void pr_ints(const char *tag, const int_t *a, long n)
{
    long i;
    fprintf(out, "%s %ld", tag, n);
    for (i = 0; i < n; ++i) fprintf(out, " %ld", (long) a[i]);
    fprintf(out, "\n");
}

/* ------------------------------------------------------------------ hashing (FNV-1a 64) */
static uint64_t fnv(uint64_t h, const void *p, size_t len)
{
    const unsigned char *b = (const unsigned char *) p; size_t i;
    for (i = 0; i < len; ++i) { h ^= b[i]; h *= 1099511628211ULL; }
    return h;
}
#define FNV0 1469598103934665603ULL
static int_t imax(const int_t *a, int_t n) { int_t i, m = 0; for (i = 0; i < n; ++i) if (a[i] > m) m = a[i]; return m; }

static uint64_t hash_L(slot_t *s)
{
    SCPformat *Ls = (SCPformat *) s->L.Store; int_t n = s->n; uint64_t h = FNV0;
    int es = PREC[s->p].rsize * PREC[s->p].ncomp;
    int_t nsup = Ls->nsuper;
    h = fnv(h, &s->L.Stype, sizeof(Stype_t)); h = fnv(h, &s->L.Dtype, sizeof(Dtype_t)); h = fnv(h, &s->L.Mtype, sizeof(Mtype_t));
    h = fnv(h, &s->L.nrow, sizeof(int_t)); h = fnv(h, &s->L.ncol, sizeof(int_t));
    h = fnv(h, &Ls->nnz, sizeof(int_t)); h = fnv(h, &Ls->nsuper, sizeof(int_t));
    h = fnv(h, Ls->nzval_colbeg, n * sizeof(int_t)); h = fnv(h, Ls->nzval_colend, n * sizeof(int_t));
    h = fnv(h, Ls->rowind_colbeg, n * sizeof(int_t)); h = fnv(h, Ls->rowind_colend, n * sizeof(int_t));
    h = fnv(h, Ls->col_to_sup, (n + 1) * sizeof(int_t));
    if (nsup >= 0 && nsup < n) {
        h = fnv(h, Ls->sup_to_colbeg, (nsup + 1) * sizeof(int_t));
        h = fnv(h, Ls->sup_to_colend, (nsup + 1) * sizeof(int_t));
    }
    h = fnv(h, Ls->nzval, (size_t) imax(Ls->nzval_colend, n) * es);
    h = fnv(h, Ls->rowind, (size_t) imax(Ls->rowind_colend, n) * sizeof(int_t));
    return h;
}
static uint64_t hash_U(slot_t *s)
{
    NCPformat *Us = (NCPformat *) s->U.Store; int_t n = s->n; uint64_t h = FNV0;
    int es = PREC[s->p].rsize * PREC[s->p].ncomp;
    h = fnv(h, &s->U.Stype, sizeof(Stype_t)); h = fnv(h, &s->U.Dtype, sizeof(Dtype_t)); h = fnv(h, &s->U.Mtype, sizeof(Mtype_t));
    h = fnv(h, &s->U.nrow, sizeof(int_t)); h = fnv(h, &s->U.ncol, sizeof(int_t));
    h = fnv(h, &Us->nnz, sizeof(int_t));
    h = fnv(h, Us->colbeg, n * sizeof(int_t)); h = fnv(h, Us->colend, n * sizeof(int_t));
    h = fnv(h, Us->nzval, (size_t) imax(Us->colend, n) * es);
    h = fnv(h, Us->rowind, (size_t) imax(Us->colend, n) * sizeof(int_t));
    return h;
}
static void pr_hashes(const char *tag, slot_t *s)
{
    int es = PREC[s->p].rsize * PREC[s->p].ncomp; uint64_t h;
    fprintf(out, "%s", tag);
    h = fnv(FNV0, s->vals, (size_t) s->nnz * es); fprintf(out, " Aval=%016llx", (unsigned long long) h);
    h = fnv(FNV0, s->rowind, s->nnz * sizeof(int_t)); h = fnv(h, s->colptr, (s->n + 1) * sizeof(int_t));
    h = fnv(h, &s->Astore.nnz, sizeof(int_t)); h = fnv(h, &s->A.nrow, sizeof(int_t)); h = fnv(h, &s->A.ncol, sizeof(int_t));
    fprintf(out, " Astr=%016llx", (unsigned long long) h);
    fprintf(out, " L=%016llx U=%016llx", s->have_lu ? (unsigned long long) hash_L(s) : 0ULL,
            s->have_lu ? (unsigned long long) hash_U(s) : 0ULL);
    fprintf(out, " permr=%016llx permc=%016llx", (unsigned long long) fnv(FNV0, s->perm_r, s->n * sizeof(int_t)),
            (unsigned long long) fnv(FNV0, s->perm_c, s->n * sizeof(int_t)));
    if (s->own_sym) {
        fprintf(out, " etree=%016llx colcnt=%016llx psuper=%016llx",
                (unsigned long long) fnv(FNV0, s->opt.etree, s->n * sizeof(int_t)),
                (unsigned long long) fnv(FNV0, s->opt.colcnt_h, s->n * sizeof(int_t)),
                (unsigned long long) fnv(FNV0, s->opt.part_super_h, s->n * sizeof(int_t)));
    } else fprintf(out, " etree=0 colcnt=0 psuper=0");
    h = fnv(FNV0, s->R, (size_t) s->n * PREC[s->p].rsize); h = fnv(h, s->C, (size_t) s->n * PREC[s->p].rsize);
    h = fnv(h, &s->equed, sizeof(equed_t));
    fprintf(out, " RC=%016llx\n", (unsigned long long) h);
}

/* ------------------------------------------------------------------ factors as triplets */
static void pr_LU(slot_t *s)
{
    SCPformat *Ls = (SCPformat *) s->L.Store; NCPformat *Us = (NCPformat *) s->U.Store;
    prec_t *P = &PREC[s->p]; int nc = P->ncomp, rs = P->rsize; int_t n = s->n;
    int_t k, j, i, bad = 0; long cl = 0, cu = 0;
    int pass;
    fprintf(out, "LUhdr nnzL=%ld nsuper=%ld nnzU=%ld\n", (long) Ls->nnz, (long) Ls->nsuper, (long) Us->nnz);
    if (Ls->nsuper < 0 || Ls->nsuper >= n) { fprintf(out, "LUbad nsuper\n"); return; }
    /* pass 0: L (strictly lower, unit diagonal implied), pass 1: U (upper incl. diagonal) */
    for (pass = 0; pass < 2; ++pass) {
        fprintf(out, pass == 0 ? "LT" : "UT");
        for (k = 0; k <= Ls->nsuper; ++k) {
            int_t fsupc = Ls->sup_to_colbeg[k], lsupc = Ls->sup_to_colend[k];
            int_t istart, nsupr;
            if (fsupc < 0 || lsupc > n || fsupc >= lsupc) { bad = 1; break; }
            istart = Ls->rowind_colbeg[fsupc]; nsupr = Ls->rowind_colend[fsupc] - istart;
            for (j = fsupc; j < lsupc; ++j) {
                int_t vb = Ls->nzval_colbeg[j];
                if (Ls->nzval_colend[j] - vb != nsupr) bad = 1;
                for (i = 0; i < nsupr; ++i) {
                    int_t irow = Ls->rowind[istart + i]; double re, im = 0;
                    int lower = irow > j;
                    if (rs == 4) { re = ((float *) Ls->nzval)[(size_t) (vb + i) * nc]; if (nc == 2) im = ((float *) Ls->nzval)[(size_t) (vb + i) * nc + 1]; }
                    else { re = ((double *) Ls->nzval)[(size_t) (vb + i) * nc]; if (nc == 2) im = ((double *) Ls->nzval)[(size_t) (vb + i) * nc + 1]; }
                    if ((pass == 0) == lower) {
                        fprintf(out, " %ld %ld %a", (long) irow, (long) j, re);
                        if (nc == 2) fprintf(out, " %a", im);
                        if (pass == 0) ++cl; else ++cu;
                    }
                }
                if (pass == 1) {
                    for (i = Us->colbeg[j]; i < Us->colend[j]; ++i) {
                        double re, im = 0;
                        if (rs == 4) { re = ((float *) Us->nzval)[(size_t) i * nc]; if (nc == 2) im = ((float *) Us->nzval)[(size_t) i * nc + 1]; }
                        else { re = ((double *) Us->nzval)[(size_t) i * nc]; if (nc == 2) im = ((double *) Us->nzval)[(size_t) i * nc + 1]; }
                        fprintf(out, " %ld %ld %a", (long) Us->rowind[i], (long) j, re);
                        if (nc == 2) fprintf(out, " %a", im);
                        ++cu;
                    }
                }
            }
        }
        fprintf(out, "\n");
    }
    fprintf(out, "LUcnt L=%ld U=%ld bad=%ld\n", cl, cu, (long) bad);
    pr_ints("colsup", Ls->col_to_sup, n);
}

/* ------------------------------------------------------------------ observable persistent state */
static void pr_state(int p)
{
    prec_t *P = &PREC[p]; int k; long ndim10;
    void *h, *t; long avail; const char *hs = "raw", *ts = "raw"; long ho = 0, to = 0; int hslot = -1, tslot = -1;
    ExpHeader *e = *P->expanders;
    ndim10 = (long) P->memuse(0, 0, 0);
    /* head and tail of the user stack: read through the hook.  (They used to be probed with ?user_malloc(0, end); since the
       tail-end branch of ?user_malloc aligns its block, a zero-byte request at the tail is no longer neutral.)  A probe of 0
       bytes at the head still tells whether the allocator would refuse (StackFull(0)): NULL is reported as before. */
    {   long long v[5]; P->vstack(v);
        h = P->umalloc(0, 0 /* HEAD */);
        t = h ? (void *) ((char *) (size_t) v[4] + v[3]) : NULL;
    }
    /* largest x with x + used < size */
    avail = -1;
    if (h) {
        long lo = 0, hi = 2147483000L;
        while (lo < hi) {
            long mid = lo + (hi - lo + 1) / 2;
            void *q = P->umalloc((int_t) mid, 0);
            if (q) { P->ufree((int_t) mid, 0); lo = mid; } else hi = mid - 1;
        }
        avail = lo;
    }
    for (k = 0; k < MAXSLOT; ++k) if (SL[k].used && SL[k].work) {
        char *w = (char *) SL[k].work;
        if (h && (char *) h >= w && (char *) h <= w + SL[k].lwork) { hs = "slot"; hslot = k; ho = (char *) h - w; }
        if (t && (char *) t >= w && (char *) t <= w + SL[k].lwork) { ts = "slot"; tslot = k; to = (char *) t - w; }
    }
    if (!h) hs = "null";
    if (!t) ts = "null";
    fprintf(out, "S prec=%c exp=%d ndim=%ld head=%s:%d:%ld tail=%s:%d:%ld avail=%ld\n", P->name, e != NULL, ndim10 / (10 * (long) sizeof(int_t)),
            hs, hslot, ho, ts, tslot, to, avail);
}

/* ------------------------------------------------------------------ helpers */
static void make_dense(SuperMatrix *M, DNformat *st, int p, int_t n, int_t nrhs, void *v)
{
    M->Stype = SLU_DN; M->Dtype = PREC[p].dtype; M->Mtype = SLU_GE; M->nrow = n; M->ncol = nrhs;
    st->lda = n; st->nzval = v; M->Store = st;
}
static void set_ones(void *v, int_t n, int rsize) { int_t i; for (i = 0; i < n; ++i) if (rsize == 4) ((float *) v)[i] = 1.0f; else ((double *) v)[i] = 1.0; }

static void free_lu(slot_t *s)
{
    if (!s->have_lu) return;
    if (s->lwork == 0) { Destroy_SuperNode_SCP(&s->L); Destroy_CompCol_NCP(&s->U); }
    else { SUPERLU_FREE(s->L.Store); SUPERLU_FREE(s->U.Store); }
    s->have_lu = 0;
}
static void free_sym(slot_t *s)
{
    if (s->own_sym) { SUPERLU_FREE(s->opt.etree); SUPERLU_FREE(s->opt.colcnt_h); SUPERLU_FREE(s->opt.part_super_h); }
    s->own_sym = 0; s->opt.etree = s->opt.colcnt_h = s->opt.part_super_h = NULL;
}

static char *hb_buf = NULL; static size_t hb_buf_len = 0; static int hb_pending = 0;

/* one factor+solve (first / refact) or solve-only (FACTORED) or query call through the chosen API */
static void do_call(int opidx, const char *kind, slot_t *s, int api, int_t nprocs, int refact, int usepr, double u,
                    int fact, int_t lwork, int_t relax, int_t panel, int trans, int_t nrhs, void *rhs, int permc_spec)
{
    prec_t *P = &PREC[s->p]; int_t n = s->n, info = -999, info2 = 0; int es = P->rsize * P->ncomp;
    void *xbuf = calloc((size_t) n * nrhs + 1, es), *bbuf = calloc((size_t) n * nrhs + 1, es);
    void *ferr = calloc(nrhs + 1, 8), *berr = calloc(nrhs + 1, 8);
    double rpg_d = 0, rcond_d = 0; float rpg_f = 0, rcond_f = 0;
    superlu_memusage_t mu; SuperMatrix B, X, AC; DNformat Bst, Xst; Gstat_t Gstat;
    int is_query = (lwork == -1), is_solve = (fact == FACTORED);
    f1_order_seen = 0; ws_overlap_seen = 0; ws_nlive = 0;
    int_t use_lwork = lwork; void *use_work = NULL;
    mu.for_lu = mu.total_needed = -1; mu.expansions = -12345;
    memcpy(bbuf, rhs, (size_t) n * nrhs * es);
    make_dense(&B, &Bst, s->p, n, nrhs, bbuf); make_dense(&X, &Xst, s->p, n, nrhs, xbuf);

    if (!is_solve && !is_query && !refact) {
        /* a first factorization: fresh L/U, fresh symbolic arrays, fresh column ordering */
        free_lu(s);
        if (s->work) { free(s->work); s->work = NULL; }
        s->lwork = lwork;
        if (lwork > 0) s->work = malloc((size_t) lwork);
        if (lwork > 0 && s->work) {
            /* work[] is pure workspace: its contents on entry are not an argument of the call.  It is handed over full of small
             * integers (-1..n+1, the range of column numbers and of the markers the factorization keeps in its integer work arrays),
             * different for every call of a history, so that a routine that READS a part of it before writing it shows up as a
             * dependence on the calls made before */
            int_t *w = (int_t *) s->work; size_t k, m = (size_t) lwork / sizeof(int_t);
            for (k = 0; k < m; ++k) w[k] = (int_t) ((((unsigned) k * 2654435761u + (unsigned) opidx * 40503u + 977u) >> 9) % (unsigned) (n + 3)) - 1;
        }
        get_perm_c(permc_spec, &s->A, s->perm_c);
        s->permc_ready = 1;
        if (api != 2) {
            if (api == 0) {   /* expert driver: the caller allocates the three arrays (EXAMPLE/pdlinsolx1.c) */
                free_sym(s);
                s->opt.etree = intMalloc(n); s->opt.colcnt_h = intMalloc(n); s->opt.part_super_h = intMalloc(n);
                s->own_sym = 1;
            } else {          /* p?gstrf_init allocates them when refact == NO */
                free_sym(s);
            }
        } else free_sym(s);
        s->equed = NOEQUIL; set_ones(s->R, n, P->rsize); set_ones(s->C, n, P->rsize);
    }
    if (is_query && !refact && !s->own_sym && api == 0) {
        s->opt.etree = intMalloc(n); s->opt.colcnt_h = intMalloc(n); s->opt.part_super_h = intMalloc(n); s->own_sym = 1;
    }
    if (!is_query) { use_lwork = s->lwork; }
    use_work = (use_lwork > 0 || is_query) ? s->work : NULL;
    if (is_solve) { hb_pending = 1; hb_buf_len = 0; { FILE *sv = out; out = open_memstream(&hb_buf, &hb_buf_len); pr_hashes("HB", s); fclose(out); out = sv; } }

    if (api == 0) {
        s->opt.nprocs = nprocs; s->opt.fact = (fact_t) fact; s->opt.trans = (trans_t) trans; s->opt.refact = (yes_no_t) refact;
        s->opt.panel_size = panel; s->opt.relax = relax; s->opt.usepr = (yes_no_t) usepr; s->opt.drop_tol = 0.0;
        s->opt.diag_pivot_thresh = u; s->opt.SymmetricMode = NO; s->opt.PrintStat = NO;
        s->opt.perm_c = s->perm_c; s->opt.perm_r = s->perm_r; s->opt.work = use_work; s->opt.lwork = use_lwork;
        if (P->rsize == 4)
            P->gssvx(nprocs, &s->opt, &s->A, s->perm_c, s->perm_r, &s->equed, s->R, s->C, &s->L, &s->U, &B, &X,
                     &rpg_f, &rcond_f, ferr, berr, &mu, &info);
        else
            P->gssvx(nprocs, &s->opt, &s->A, s->perm_c, s->perm_r, &s->equed, s->R, s->C, &s->L, &s->U, &B, &X,
                     &rpg_d, &rcond_d, ferr, berr, &mu, &info);
        if (P->rsize == 4) { rpg_d = rpg_f; rcond_d = rcond_f; }
    } else if (api == 1) {
        StatAlloc(n, nprocs, panel, relax, &Gstat); StatInit(n, nprocs, &Gstat);
        if (!is_solve) {
            switch (s->p) {
            case 0: psgstrf_init(nprocs, (fact_t) fact, (trans_t) trans, (yes_no_t) refact, panel, relax, (float) u, (yes_no_t) usepr, 0.0,
                                 s->perm_c, s->perm_r, use_work, use_lwork, &s->A, &AC, &s->opt, &Gstat); break;
            case 1: pdgstrf_init(nprocs, (fact_t) fact, (trans_t) trans, (yes_no_t) refact, panel, relax, u, (yes_no_t) usepr, 0.0,
                                 s->perm_c, s->perm_r, use_work, use_lwork, &s->A, &AC, &s->opt, &Gstat); break;
            case 2: pcgstrf_init(nprocs, (fact_t) fact, (trans_t) trans, (yes_no_t) refact, panel, relax, (float) u, (yes_no_t) usepr, 0.0,
                                 s->perm_c, s->perm_r, use_work, use_lwork, &s->A, &AC, &s->opt, &Gstat); break;
            default: pzgstrf_init(nprocs, (fact_t) fact, (trans_t) trans, (yes_no_t) refact, panel, relax, u, (yes_no_t) usepr, 0.0,
                                 s->perm_c, s->perm_r, use_work, use_lwork, &s->A, &AC, &s->opt, &Gstat); break;
            }
            if (!refact) s->own_sym = 1;
            if (!is_query) {   /* a caller going through p?gstrf directly factors A as it is: no scaling is in force afterwards */
                s->equed = NOEQUIL; set_ones(s->R, n, P->rsize); set_ones(s->C, n, P->rsize);
            }
            P->gstrf(&s->opt, &AC, s->perm_r, &s->L, &s->U, &Gstat, &info);
            Destroy_CompCol_Permuted(&AC);
        } else info = 0;
        if (info == 0 && !is_query) {
            memcpy(xbuf, bbuf, (size_t) n * nrhs * es);
            P->gstrs((trans_t) trans, &s->L, &s->U, s->perm_r, s->perm_c, &X, &Gstat, &info2);
        }
        StatFree(&Gstat);
    } else {   /* simple driver, first factorization only: B is overwritten by X */
        memcpy(xbuf, bbuf, (size_t) n * nrhs * es);
        P->gssv(nprocs, &s->A, s->perm_c, s->perm_r, &s->L, &s->U, &X, &info);
    }
    if (!is_solve && !is_query) { s->f1 = f1_order_seen; s->wso = ws_overlap_seen; }
    if (!is_solve && !is_query) {
        /* L and U exist after a factorization that got past the memory set-up (also when info in 1..n) */
        if (!refact) s->have_lu = (info >= 0 && info <= n + 1);
    }

    fprintf(out, "R %d %s slot=%d prec=%c api=%d info=%ld info2=%ld usepr_after=%d equed=%d f1=%d wso=%d\n", opidx, kind, (int) (s - SL), P->name, api,
            (long) info, (long) info2, api == 2 ? 0 : (int) s->opt.usepr, (int) s->equed, s->f1, s->wso);
    if (hb_pending) { fputs(hb_buf, out); free(hb_buf); hb_buf = NULL; hb_pending = 0; }
    pr_ints("permr", s->perm_r, n);
    pr_ints("permc", s->perm_c, n);
    if (!is_query) {
        pr_vals("X", xbuf, (long) n * nrhs * P->ncomp, P->rsize);
        pr_vals("Bout", bbuf, (long) n * nrhs * P->ncomp, P->rsize);
        if (api == 0) {
            fprintf(out, "scal rpg=%a rcond=%a\n", rpg_d, rcond_d);
            pr_vals("ferr", ferr, nrhs, P->rsize); pr_vals("berr", berr, nrhs, P->rsize);
        }
    }
    if (api == 0) fprintf(out, "mem for_lu=%a total_needed=%a expansions=%ld\n", (double) mu.for_lu, (double) mu.total_needed, (long) mu.expansions);
    if (!is_solve && !is_query) {
        pr_vals("Aout", s->vals, (long) s->nnz * P->ncomp, P->rsize);
        pr_vals("Rs", s->R, n, P->rsize); pr_vals("Cs", s->C, n, P->rsize);
        if (s->have_lu && info >= 0 && info <= n + 1) pr_LU(s);
        if (s->own_sym && api != 2) { pr_ints("etree", s->opt.etree, n); pr_ints("colcnt", s->opt.colcnt_h, n); pr_ints("psuper", s->opt.part_super_h, n); }
    }
    pr_hashes(is_solve ? "HA" : "H", s);
    pr_state(s->p);
    fprintf(out, "E %d\n", opidx);
    fflush(out);
    if (api == 2) { s->own_sym = 0; s->opt.etree = s->opt.colcnt_h = s->opt.part_super_h = NULL; }  /* pxgstrf_finalize freed them */
    free(xbuf); free(bbuf); free(ferr); free(berr);
}

int main(int argc, char **argv)
{
    int opidx = 0;
    if (argc < 3) { fprintf(stderr, "usage: %s casefile resultfile\n", argv[0]); return 2; }
    in = strcmp(argv[1], "-") ? fopen(argv[1], "r") : stdin;
    out = fopen(argv[2], "w");
    if (!in || !out) { perror("persist_harness"); return 2; }
    init_prec();
    memset(SL, 0, sizeof(SL));
    while (next_tok()) {
        if (!strcmp(tok, "end")) break;
        if (!strcmp(tok, "ienv")) {
            int k; for (k = 1; k <= 8; ++k) verif_set_ienv(k, (int_t) rd_int());
        } else if (!strcmp(tok, "setienv")) {
            int k = (int) rd_int(); int_t v = (int_t) rd_int(); verif_set_ienv(k, v);
            fprintf(out, "R %d setienv\nE %d\n", opidx, opidx); ++opidx;
        } else if (!strcmp(tok, "slot")) {
            int S = (int) rd_int(); slot_t *s = &SL[S]; prec_t *P; int_t i;
            next_tok(); next_tok(); s->p = prec_index(tok[0]); P = &PREC[s->p];
            next_tok(); s->n = (int_t) rd_int(); next_tok(); s->nnz = (int_t) rd_int();
            s->used = 1;
            s->colptr = intMalloc(s->n + 1); s->rowind = intMalloc(s->nnz + 1);
            for (i = 0; i <= s->n; ++i) s->colptr[i] = (int_t) rd_int();
            for (i = 0; i < s->nnz; ++i) s->rowind[i] = (int_t) rd_int();
            s->vals = calloc((size_t) s->nnz + 1, P->rsize * P->ncomp);
            s->Astore.nnz = s->nnz; s->Astore.nzval = s->vals; s->Astore.rowind = s->rowind; s->Astore.colptr = s->colptr;
            s->A.Stype = SLU_NC; s->A.Dtype = P->dtype; s->A.Mtype = SLU_GE; s->A.nrow = s->n; s->A.ncol = s->n; s->A.Store = &s->Astore;
            s->perm_c = intMalloc(s->n); s->perm_r = intMalloc(s->n);
            for (i = 0; i < s->n; ++i) { s->perm_c[i] = i; s->perm_r[i] = i; }
            s->R = calloc(s->n + 1, 8); s->C = calloc(s->n + 1, 8); s->equed = NOEQUIL;
            set_ones(s->R, s->n, P->rsize); set_ones(s->C, s->n, P->rsize);
        } else if (!strcmp(tok, "first") || !strcmp(tok, "refact")) {
            int isfirst = !strcmp(tok, "first");
            int S = (int) rd_int(); slot_t *s = &SL[S]; prec_t *P = &PREC[s->p];
            int api = (int) rd_int(); int_t nprocs = (int_t) rd_int(); int permc = 0, usepr = 0;
            double u; int fact; int_t lwork, relax, panel, nrhs; int trans; void *rhs;
            if (isfirst) permc = (int) rd_int(); else usepr = (int) rd_int();
            u = rd_real(); fact = (int) rd_int(); lwork = (int_t) rd_int(); relax = (int_t) rd_int(); panel = (int_t) rd_int();
            trans = (int) rd_int(); nrhs = (int_t) rd_int();
            if (isfirst) usepr = (int) rd_int();
            rd_vals(s->vals, (long) s->nnz * P->ncomp, P->rsize);
            rhs = calloc((size_t) s->n * nrhs + 1, P->rsize * P->ncomp);
            rd_vals(rhs, (long) s->n * nrhs * P->ncomp, P->rsize);
            do_call(opidx, isfirst ? "first" : "refact", s, api, nprocs, !isfirst, usepr, u, fact, lwork, relax, panel, trans, nrhs, rhs, permc);
            free(rhs); ++opidx;
        } else if (!strcmp(tok, "solve")) {
            int S = (int) rd_int(); slot_t *s = &SL[S]; prec_t *P = &PREC[s->p];
            int api = (int) rd_int(); int_t nprocs = (int_t) rd_int(); int trans = (int) rd_int(); int_t nrhs = (int_t) rd_int();
            void *rhs = calloc((size_t) s->n * nrhs + 1, P->rsize * P->ncomp);
            rd_vals(rhs, (long) s->n * nrhs * P->ncomp, P->rsize);
            do_call(opidx, "solve", s, api, nprocs, (int) s->opt.refact == YES, 0, s->opt.diag_pivot_thresh, FACTORED, s->lwork,
                    s->opt.relax, s->opt.panel_size, trans, nrhs, rhs, 0);
            free(rhs); ++opidx;
        } else if (!strcmp(tok, "query")) {
            int S = (int) rd_int(); slot_t *s = &SL[S]; prec_t *P = &PREC[s->p];
            int api = (int) rd_int(); int refact = (int) rd_int(); int_t nprocs = (int_t) rd_int();
            int_t relax = (int_t) rd_int(); int_t panel = (int_t) rd_int(); int restore = (int) rd_int();
            void *rhs = calloc((size_t) s->n + 1, P->rsize * P->ncomp);
            int_t *save = intMalloc(s->n + 1); equed_t save_equed = s->equed;
            memcpy(save, s->perm_r, s->n * sizeof(int_t));
            if (!s->permc_ready) { get_perm_c(0, &s->A, s->perm_c); s->permc_ready = 1; }
            do_call(opidx, "query", s, api, nprocs, refact, 0, 1.0, DOFACT, -1, relax, panel, NOTRANS, 1, rhs, 0);
            if (restore) memcpy(s->perm_r, save, s->n * sizeof(int_t));
            s->equed = save_equed;   /* equed is an OUTPUT argument of p?gssvx (set to NOEQUIL for fact != FACTORED): the caller keeps its own copy */
            SUPERLU_FREE(save);
            free(rhs); ++opidx;
        } else if (!strcmp(tok, "qspace")) {
            int S = (int) rd_int(); slot_t *s = &SL[S]; prec_t *P = &PREC[s->p];
            int_t nprocs = (int_t) rd_int(); int_t panel = (int_t) rd_int(); superlu_memusage_t mu;
            mu.for_lu = mu.total_needed = -1; mu.expansions = -12345;
            if (s->have_lu) P->qspace(nprocs, &s->L, &s->U, panel, &mu);
            fprintf(out, "R %d qspace slot=%d prec=%c\n", opidx, S, P->name);
            fprintf(out, "mem for_lu=%a total_needed=%a expansions=%ld\n", (double) mu.for_lu, (double) mu.total_needed, (long) mu.expansions);
            pr_state(s->p);
            fprintf(out, "E %d\n", opidx); fflush(out); ++opidx;
        } else if (!strcmp(tok, "setpermr")) {
            int S = (int) rd_int(); slot_t *s = &SL[S]; int_t i;
            for (i = 0; i < s->n; ++i) s->perm_r[i] = (int_t) rd_int();
            fprintf(out, "R %d setpermr slot=%d\nE %d\n", opidx, S, opidx); ++opidx;
        } else if (!strcmp(tok, "destroy")) {
            int S = (int) rd_int(); slot_t *s = &SL[S];
            free_lu(s); free_sym(s);
            if (s->work) { free(s->work); s->work = NULL; } s->lwork = 0;
            fprintf(out, "R %d destroy slot=%d prec=%c\n", opidx, S, PREC[s->p].name);
            pr_state(s->p);
            fprintf(out, "E %d\n", opidx); fflush(out); ++opidx;
        } else {
            fprintf(stderr, "persist_harness: unknown token '%s'\n", tok); return 91;
        }
    }
    fprintf(out, "DONE %d\n", opidx);
    fclose(out);
    return 0;
}
