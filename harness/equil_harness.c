/* equil_harness.c (property C11): calls the REAL ?gsequ, ?laqgs, p?gssvx and ?lamch_ of the library built
 * from the current tree, on inputs given one case per line
 *     <id> <kind> <prec> key=value ...
 * kinds:  lamch                         -> S, P, E of ?lamch_
 *         gsequ  nrow ncol ents          -> r, c, rowcnd, colcnd, amax, info
 *         laqgs  nrow ncol ents r c rowcnd colcnd amax   -> equed, scaled A
 *         gssvx  n ents stype fact trans equed R C B nrhs -> A, R, C, equed, B, info   (in a forked child)
 * ents = i:j:re[:im],...  in column-major storage order; all reals as C99 hex floats, printed back with %a
 * (exact).  The file includes itself four times to instantiate the per-precision part. */
#ifndef EQUIL_BODY
#include <stdio.h>
#include <stdlib.h>
#include <string.h>
#include <math.h>
#include <unistd.h>
#include <sys/wait.h>
#include <fcntl.h>
#include "slu_mt_ddefs.h"
#include "slu_scomplex.h"
#include "slu_dcomplex.h"

#define MAXKV 32
static char *kv_key[MAXKV], *kv_val[MAXKV];
static int nkv;
static const char *gets_(const char *k)
{
    int i;
    for (i = 0; i < nkv; ++i) if (!strcmp(kv_key[i], k)) return kv_val[i];
    fprintf(stderr, "equil_harness: missing key %s\n", k); exit(3);
}
static long geti(const char *k) { return strtol(gets_(k), NULL, 10); }
static double getd(const char *k) { return strtod(gets_(k), NULL); }
static int count_items(const char *s) { int n = 1; if (!*s || !strcmp(s, "-")) return 0; for (; *s; ++s) if (*s == ',') n++; return n; }
static const char *item(const char *s, int k) { while (k > 0 && *s) { if (*s == ',') k--; s++; } return s; }
static void pr(double x)
{
    if (isnan(x)) printf("nan"); else if (isinf(x)) printf(x > 0 ? "inf" : "-inf"); else printf("%a", x);
}

static int xerbla_count = 0;
int xerbla_(char *srname, int *info) { xerbla_count++; return 0; }

#define CAT_(a,b) a##b
#define CAT(a,b) CAT_(a,b)
#define CAT3_(a,b,c) a##b##c
#define CAT3(a,b,c) CAT3_(a,b,c)

#define EQUIL_BODY
#define PX s
#define RT float
#define ET float
#define CPLX 0
#define DTYPE SLU_S
#define LAMCH slamch_
#include "equil_harness.c"
#undef PX
#undef RT
#undef ET
#undef CPLX
#undef DTYPE
#undef LAMCH
#define PX d
#define RT double
#define ET double
#define CPLX 0
#define DTYPE SLU_D
#define LAMCH dlamch_
#include "equil_harness.c"
#undef PX
#undef RT
#undef ET
#undef CPLX
#undef DTYPE
#undef LAMCH
#define PX c
#define RT float
#define ET complex
#define CPLX 1
#define DTYPE SLU_C
#define LAMCH slamch_
#include "equil_harness.c"
#undef PX
#undef RT
#undef ET
#undef CPLX
#undef DTYPE
#undef LAMCH
#define PX z
#define RT double
#define ET doublecomplex
#define CPLX 1
#define DTYPE SLU_Z
#define LAMCH dlamch_
#include "equil_harness.c"
#undef PX
#undef RT
#undef ET
#undef CPLX
#undef DTYPE
#undef LAMCH


int main(void)
{
    static char line[1 << 16];
    while (fgets(line, sizeof line, stdin)) {
        char *tok, *id, *kind, *pr_, *save;
        nkv = 0;
        id = strtok_r(line, " \t\n", &save); if (!id) continue;
        kind = strtok_r(NULL, " \t\n", &save); pr_ = strtok_r(NULL, " \t\n", &save);
        if (!kind || !pr_) continue;
        while ((tok = strtok_r(NULL, " \t\n", &save)) && nkv < MAXKV) {
            char *eq = strchr(tok, '='); if (!eq) continue;
            *eq = 0; kv_key[nkv] = tok; kv_val[nkv] = eq + 1; nkv++;
        }
        fflush(stdout);
        if (!strcmp(kind, "gssvx")) {
            pid_t pid = fork(); int st;
            if (pid == 0) {
                int fd = open("/dev/null", O_WRONLY);       /* the driver prints statistics to stdout: keep only our line */
                int keep = dup(1);
                alarm(30);
                dup2(fd, 1);
                switch (pr_[0]) { case 's': s_gssvx(id, keep); break; case 'd': d_gssvx(id, keep); break;
                                  case 'c': c_gssvx(id, keep); break; case 'z': z_gssvx(id, keep); break; }
                _exit(0);
            }
            waitpid(pid, &st, 0);
            if (WIFSIGNALED(st)) printf("R %s status=crash:%d\n", id, WTERMSIG(st));
            else if (WIFEXITED(st) && WEXITSTATUS(st)) printf("R %s status=exit:%d\n", id, WEXITSTATUS(st));
        } else {
            switch (pr_[0]) { case 's': s_case(id, kind); break; case 'd': d_case(id, kind); break;
                              case 'c': c_case(id, kind); break; case 'z': z_case(id, kind); break; }
        }
        fflush(stdout);
    }
    return 0;
}

#else /* =================================================================== per-precision part */
#define T(x) CAT3(PX, _, x)
#define FN(name) CAT(PX, name)
#define PFN(name) CAT3(p, PX, name)

extern double LAMCH(char *);
extern void FN(gsequ)(SuperMatrix *, RT *, RT *, RT *, RT *, RT *, int_t *);
extern void FN(laqgs)(SuperMatrix *, RT *, RT *, RT, RT, RT, equed_t *);
extern void PFN(gssvx)(int_t, superlumt_options_t *, SuperMatrix *, int_t *, int_t *, equed_t *, RT *, RT *,
                       SuperMatrix *, SuperMatrix *, SuperMatrix *, SuperMatrix *, RT *, RT *, RT *, RT *,
                       superlu_memusage_t *, int_t *);

/* ents -> compressed column arrays */
static void T(build)(SuperMatrix *A, NCformat *S, int nrow, int ncol, ET **val, int_t **rowind, int_t **colptr, int *nnz_out)
{
    const char *s = gets_("ents");
    int nnz = count_items(s), k, j;
    *val = malloc((nnz + 1) * sizeof(ET)); *rowind = malloc((nnz + 1) * sizeof(int_t));
    *colptr = calloc(ncol + 2, sizeof(int_t));
    for (k = 0; k < nnz; ++k) {
        const char *p = item(s, k); char *e;
        long i = strtol(p, &e, 10); long jj = strtol(e + 1, &e, 10);
        double re = strtod(e + 1, &e), im = 0;
        if (*e == ':') im = strtod(e + 1, &e);
        (*rowind)[k] = (int_t) i;
        if (jj >= 0 && jj < ncol) (*colptr)[jj + 1]++;
#if CPLX
        (*val)[k].r = (RT) re; (*val)[k].i = (RT) im;
#else
        (*val)[k] = (RT) re;
#endif
    }
    for (j = 0; j < ncol; ++j) (*colptr)[j + 1] += (*colptr)[j];
    S->nnz = nnz; S->nzval = *val; S->rowind = *rowind; S->colptr = *colptr;
    A->Stype = SLU_NC; A->Dtype = DTYPE; A->Mtype = SLU_GE; A->nrow = nrow; A->ncol = ncol; A->Store = S;
    *nnz_out = nnz;
}

static void T(print_vals)(const char *key, ET *v, int n)
{
    int k;
    printf(" %s=", key);
    if (n == 0) printf("-");
    for (k = 0; k < n; ++k) {
        if (k) printf(",");
#if CPLX
        pr(v[k].r); printf(":"); pr(v[k].i);
#else
        pr(v[k]);
#endif
    }
}
static void T(print_reals)(const char *key, RT *v, int n)
{
    int k;
    printf(" %s=", key);
    if (n == 0) printf("-");
    for (k = 0; k < n; ++k) { if (k) printf(","); pr(v[k]); }
}
static void T(read_reals)(const char *key, RT *v, int n, double dflt)
{
    const char *s = gets_(key); int m = count_items(s), k;
    for (k = 0; k < n; ++k) v[k] = (RT) (k < m ? strtod(item(s, k), NULL) : dflt);
}

static void T(case)(const char *id, const char *kind)
{
    if (!strcmp(kind, "lamch")) {
        printf("R %s S=", id); pr(LAMCH("S")); printf(" P="); pr(LAMCH("P")); printf(" E="); pr(LAMCH("E"));
        printf(" Smin="); pr(LAMCH("Safe minimum")); printf(" Prec="); pr(LAMCH("Precision")); printf("\n");
        return;
    }
    {
        int nrow = (int) geti("nrow"), ncol = (int) geti("ncol"), nnz;
        SuperMatrix A; NCformat S; ET *val; int_t *rowind, *colptr;
        RT *r = malloc((nrow + 1) * sizeof(RT)), *c = malloc((ncol + 1) * sizeof(RT));
        RT rowcnd, colcnd, amax; int_t info = 777; equed_t equed = (equed_t) 9;
        T(build)(&A, &S, nrow, ncol, &val, &rowind, &colptr, &nnz);
        if (!strcmp(kind, "gsequ")) {
            RT sent = (RT) getd("sentinel");
            int k;
            for (k = 0; k < nrow; ++k) r[k] = sent;
            for (k = 0; k < ncol; ++k) c[k] = sent;
            rowcnd = colcnd = amax = sent;
            FN(gsequ)(&A, r, c, &rowcnd, &colcnd, &amax, &info);
            printf("R %s info=%ld rowcnd=", id, (long) info); pr(rowcnd); printf(" colcnd="); pr(colcnd);
            printf(" amax="); pr(amax);
            T(print_reals)("r", r, nrow); T(print_reals)("c", c, ncol); T(print_vals)("a", val, nnz);
            printf(" xerbla=%d\n", xerbla_count);
        } else if (!strcmp(kind, "laqgs")) {
            T(read_reals)("r", r, nrow, 1.0); T(read_reals)("c", c, ncol, 1.0);
            rowcnd = (RT) getd("rowcnd"); colcnd = (RT) getd("colcnd"); amax = (RT) getd("amax");
            FN(laqgs)(&A, r, c, rowcnd, colcnd, amax, &equed);
            printf("R %s equed=%d", id, (int) equed);
            T(print_vals)("a", val, nnz); T(print_reals)("r", r, nrow); T(print_reals)("c", c, ncol);
            printf("\n");
        } else if (!strcmp(kind, "equil")) {       /* ?gsequ followed by ?laqgs when info = 0, as the driver does */
            RT sent = (RT) getd("sentinel");
            int k;
            for (k = 0; k < nrow; ++k) r[k] = sent;
            for (k = 0; k < ncol; ++k) c[k] = sent;
            rowcnd = colcnd = amax = sent;
            FN(gsequ)(&A, r, c, &rowcnd, &colcnd, &amax, &info);
            equed = NOEQUIL;
            if (info == 0) FN(laqgs)(&A, r, c, rowcnd, colcnd, amax, &equed);
            printf("R %s info=%ld equed=%d rowcnd=", id, (long) info, (int) equed); pr(rowcnd); printf(" colcnd="); pr(colcnd);
            printf(" amax="); pr(amax);
            T(print_reals)("r", r, nrow); T(print_reals)("c", c, ncol); T(print_vals)("a", val, nnz);
            printf("\n");
        } else printf("R %s status=badkind\n", id);
        free(r); free(c); free(val); free(rowind); free(colptr);
    }
}

static void T(gssvx)(const char *id, int outfd)
{
    int n = (int) geti("n"), nrhs = (int) geti("nrhs"), nnz, k, stype = (int) geti("stype");
    SuperMatrix A, B, X, L, U; NCformat S; DNformat Bs, Xs; ET *val; int_t *rowind, *colptr;
    RT *R = malloc((n + 1) * sizeof(RT)), *C = malloc((n + 1) * sizeof(RT));
    ET *bv = malloc((n * nrhs + 1) * sizeof(ET)), *xv = calloc(n * nrhs + 1, sizeof(ET));
    RT *ferr = malloc((nrhs + 1) * sizeof(RT)), *berr = malloc((nrhs + 1) * sizeof(RT)), rpg = 0, rcond = 0;
    int_t *perm_c = malloc((n + 1) * sizeof(int_t)), *perm_r = malloc((n + 1) * sizeof(int_t)), info = 777;
    superlumt_options_t o; superlu_memusage_t mem; equed_t equed = (equed_t) geti("equed");
    const char *bs = gets_("B");
    int ldb, ldx, padbad = 0, kk; ET *bst, *xst;

    T(build)(&A, &S, n, n, &val, &rowind, &colptr, &nnz);
    A.Stype = (Stype_t) stype;                      /* NR: the same three arrays are rowptr/colind/nzval of A */
    T(read_reals)("R", R, n, 1.0); T(read_reals)("C", C, n, 1.0);
    for (k = 0; k < n * nrhs; ++k) {
        const char *p = item(bs, k); char *e; double re = strtod(p, &e), im = 0;
        if (*e == ':') im = strtod(e + 1, &e);
#if CPLX
        bv[k].r = (RT) re; bv[k].i = (RT) im;
#else
        bv[k] = (RT) re;
#endif
    }
    /* B and X are stored with their own leading dimensions ldb, ldx >= n; padding rows hold a sentinel */
    ldb = n + (int) geti("ldbx"); ldx = n + (int) geti("ldxx");
    bst = malloc((ldb * nrhs + 1) * sizeof(ET)); xst = malloc((ldx * nrhs + 1) * sizeof(ET));
    for (k = 0; k < ldb * nrhs * (CPLX ? 2 : 1); ++k) ((RT *) bst)[k] = (RT) 781.25;
    for (k = 0; k < ldx * nrhs * (CPLX ? 2 : 1); ++k) ((RT *) xst)[k] = (RT) 781.25;
    for (k = 0; k < nrhs; ++k) { memcpy(&bst[k * ldb], &bv[k * n], n * sizeof(ET)); memcpy(&xst[k * ldx], &xv[k * n], n * sizeof(ET)); }
    Bs.lda = ldb; Bs.nzval = bst; Xs.lda = ldx; Xs.nzval = xst;
    B.Stype = SLU_DN; B.Dtype = DTYPE; B.Mtype = SLU_GE; B.nrow = n; B.ncol = nrhs; B.Store = &Bs;
    X = B; X.Store = &Xs;
    for (k = 0; k < n; ++k) { perm_c[k] = k; perm_r[k] = k; }
    memset(&o, 0, sizeof o);
    o.nprocs = 1; o.fact = (fact_t) geti("fact"); o.trans = (trans_t) geti("trans"); o.refact = NO;
    o.panel_size = sp_ienv(1); o.relax = sp_ienv(2); o.diag_pivot_thresh = 1.0; o.drop_tol = 0.0; o.ColPerm = NATURAL;
    o.usepr = NO; o.SymmetricMode = NO; o.PrintStat = NO; o.perm_c = perm_c; o.perm_r = perm_r; o.work = NULL; o.lwork = 0;
    o.etree = malloc((n + 1) * sizeof(int_t)); o.colcnt_h = malloc((n + 1) * sizeof(int_t));
    o.part_super_h = malloc((n + 1) * sizeof(int_t));
    if (o.fact == FACTORED) {                        /* factors of the matrix as given (it is taken as already scaled) */
        superlumt_options_t o2 = o; equed_t e2 = NOEQUIL; RT *R2 = malloc((n + 1) * sizeof(RT)), *C2 = malloc((n + 1) * sizeof(RT));
        ET *b2 = malloc((ldb * nrhs + 1) * sizeof(ET)); DNformat B2s = Bs; SuperMatrix B2 = B;
        memcpy(b2, bst, ldb * nrhs * sizeof(ET)); B2s.nzval = b2; B2.Store = &B2s;
        o2.fact = DOFACT; o2.trans = NOTRANS;
        PFN(gssvx)(1, &o2, &A, perm_c, perm_r, &e2, R2, C2, &L, &U, &B2, &X, &rpg, &rcond, ferr, berr, &mem, &info);
        if (info != 0 && info != n + 1) { fflush(stdout); dup2(outfd, 1); printf("R %s status=prefactor-info:%ld\n", id, (long) info); fflush(stdout); return; }
        info = 777;
    }
    PFN(gssvx)(1, &o, &A, perm_c, perm_r, &equed, R, C, &L, &U, &B, &X, &rpg, &rcond, ferr, berr, &mem, &info);
    fflush(stdout);
    dup2(outfd, 1);
    for (k = 0; k < nrhs; ++k) {
        memcpy(&bv[k * n], &bst[k * ldb], n * sizeof(ET));
        for (kk = n * (CPLX ? 2 : 1); kk < ldb * (CPLX ? 2 : 1); ++kk) if (((RT *) &bst[k * ldb])[kk] != (RT) 781.25) padbad++;
        if (o.fact != FACTORED) for (kk = n * (CPLX ? 2 : 1); kk < ldx * (CPLX ? 2 : 1); ++kk) if (((RT *) &xst[k * ldx])[kk] != (RT) 781.25) padbad++;
    }
    printf("R %s info=%ld equed=%d pad=%d", id, (long) info, (int) equed, padbad);
    T(print_vals)("a", val, nnz); T(print_reals)("r", R, n); T(print_reals)("c", C, n); T(print_vals)("b", bv, n * nrhs);
    printf(" xerbla=%d status=ok\n", xerbla_count);
    fflush(stdout);
}

#undef T
#undef FN
#undef PFN
#endif
