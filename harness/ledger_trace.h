#ifndef LEDGER_TRACE_H
#define LEDGER_TRACE_H
#include <stdio.h>
extern int ledger_trace_on;
extern long ledger_first_fail_idx, ledger_last_fail_idx;
void ledger_trace_init(void);
void ledger_trace_print_first_fail(FILE *f);
void ledger_trace_print_last_fail(FILE *f);
int ledger_trace_print_id(FILE *f, long id);
#endif
