/* C14 function-level harness: drives the REAL p?gstrf_SetupSpace / ?user_malloc / ?user_free /
 * p?gstrf_MemInit / p?gstrf_WorkInit / p?gstrf_WorkFree / superlu_?TempSpace / p?gstrf_memory_use
 * of the current tree with a line-oriented case file (stdin) and prints one canonical line per
 * operation (same lines as extract/ustack_driver.ml prints from the Coq model).
 * Every case runs in a forked child so that exit()/crash of the library is classified.
 *
 *   CASE <id>
 *   ENV <ispec> <val>                      sp_ienv parameter
 *   S <balign> <lwork>                     SetupSpace(base+balign, lwork)
 *   M <bytes> <end>   F <bytes> <end>      user_malloc / user_free   (end: 0 HEAD, 1 TAIL)
 *   I <n> <annz> <nprocs> <w> <refact> <dyn> <nzlumax> <lwork> <balign>   MemInit
 *   L                                      build L/U stores from the last Glu (for refact = YES)
 *   W <n> <w>                              WorkInit      R   WorkFree
 *   T <n> <w> <p>                          TempSpace     U <nzl> <nzu> <nzlu>  memory_use
 *   A <k>                                  fault flavour: fail the k-th next system request and all later
 *   D                                      free ?expanders (as p?gstrf_thread_finalize does)
 *   C                                      check canaries around the buffer
 *   END
 */
#include <stdio.h>
#include <stdlib.h>
#include <string.h>
#include <unistd.h>
#include <fcntl.h>
#include <signal.h>
#include <sys/wait.h>
#include "ustack_prec.h"
#ifdef VERIF_FAULT
#include "verif_malloc.h"
#endif

#define GUARD 4096
#define CAP (1 << 22)
static unsigned char *region;   /* GUARD | CAP | GUARD */
static char *workp;             /* current work pointer (base + balign) */
static long cur_lwork;
static FILE *out;

static void region_init(void)
{
    if (posix_memalign((void **) &region, 16, CAP + 2 * GUARD)) exit(3);
    memset(region, 0xA5, CAP + 2 * GUARD);
}
static int canaries_ok(void)
{
    long i;
    for (i = 0; i < GUARD; ++i) if (region[i] != 0xA5) return 0;
    /* bytes of the CAP area outside [work, work+lwork) must be untouched as well */
    if (workp) {
        unsigned char *lo = (unsigned char *) workp, *hi = lo + (cur_lwork > 0 ? cur_lwork : 0);
        unsigned char *p;
        for (p = region + GUARD; p < lo; ++p) if (*p != 0xA5) return 0;
        for (p = hi; p < region + GUARD + CAP + GUARD; ++p) if (*p != 0xA5) return 0;
    } else
        for (i = GUARD + CAP; i < CAP + 2 * GUARD; ++i) if (region[i] != 0xA5) return 0;
    return 1;
}
static void poff(const char *name, void *p, int user)
{
    if (!p) fprintf(out, " %s=NULL", name);
    else if (!user) fprintf(out, " %s=sys", name);
    else fprintf(out, " %s=%ld", name, (long) ((char *) p - workp));
}

static GlobalLU_t Glu;
static SuperMatrix Lm, Um;
static superlumt_options_t opt;
static int_t *iwork; static elt_t *dwork;
static int last_user = 0;

static void run_case(FILE *in)
{
    char line[1024], op[16];
    while (fgets(line, sizeof line, in)) {
        long a[12] = {0};
        int k = sscanf(line, "%15s %ld %ld %ld %ld %ld %ld %ld %ld %ld %ld", op, a, a+1, a+2, a+3, a+4, a+5, a+6, a+7, a+8, a+9);
        if (k < 1) continue;
        if (!strcmp(op, "END")) break;
        if (!strcmp(op, "ENV")) { verif_set_ienv((int) a[0], (int_t) a[1]); fprintf(out, "ENV ok\n"); }
        else if (!strcmp(op, "S")) {
            workp = (char *) region + GUARD + a[0]; cur_lwork = a[1];
            PG(gstrf_SetupSpace)(workp, (int_t) a[1]);
            last_user = a[1] > 0;
            fprintf(out, "S ok\n");
        } else if (!strcmp(op, "M")) {
            void *p = XF(user_malloc)((int_t) a[0], (int_t) a[1]);
            fprintf(out, "M"); poff("p", p, 1); fprintf(out, "\n");
        } else if (!strcmp(op, "F")) {
            XF(user_free)((int_t) a[0], (int_t) a[1]); fprintf(out, "F ok\n");
        } else if (!strcmp(op, "I")) {
            float r; int user;
            memset(&opt, 0, sizeof opt);
            opt.nprocs = (int_t) a[2]; opt.panel_size = (int_t) a[3]; opt.refact = a[4] ? YES : NO;
            opt.lwork = (int_t) a[7];
            workp = (char *) region + GUARD + a[8]; cur_lwork = a[7];
            opt.work = workp;
            if (!a[4]) {            /* as pdgstrf_thread_init does for refact == NO */
                Glu.dynamic_snode_bound = a[5] ? YES : NO;
                Glu.nzlumax = (int_t) a[6];
            }
            user = a[7] > 0; last_user = user;
            fflush(out);
            r = PG(gstrf_MemInit)((int_t) a[0], (int_t) a[1], &opt, &Lm, &Um, &Glu);
            fprintf(out, "I code=%lld", (long long) r);
            if (r == 0 && a[4]) fprintf(out, " refact nzlmax=%ld nzumax=%ld nzlumax=%ld", (long) Glu.nzlmax, (long) Glu.nzumax, (long) Glu.nzlumax);
            else if (r == 0) {
                poff("xsup", Glu.xsup, user); poff("xsup_end", Glu.xsup_end, user); poff("supno", Glu.supno, user);
                poff("xlsub", Glu.xlsub, user); poff("xlsub_end", Glu.xlsub_end, user);
                poff("xlusup", Glu.xlusup, user); poff("xlusup_end", Glu.xlusup_end, user);
                poff("xusub", Glu.xusub, user); poff("xusub_end", Glu.xusub_end, user);
                poff("lusup", Glu.lusup, user); poff("ucol", Glu.ucol, user);
                poff("lsub", Glu.lsub, user); poff("usub", Glu.usub, user);
                fprintf(out, " nzlmax=%ld nzumax=%ld nzlumax=%ld", (long) Glu.nzlmax, (long) Glu.nzumax, (long) Glu.nzlumax);
            }
            fprintf(out, "\n");
        } else if (!strcmp(op, "L")) {
            /* what p?gstrf_thread_finalize does with the Glu arrays (refact == NO): the stores just alias them */
            static SCPformat Ls; static NCPformat Us;
            Ls.nzval = Glu.lusup; Ls.nzval_colbeg = Glu.xlusup; Ls.nzval_colend = Glu.xlusup_end;
            Ls.rowind = Glu.lsub; Ls.rowind_colbeg = Glu.xlsub; Ls.rowind_colend = Glu.xlsub_end;
            Ls.col_to_sup = Glu.supno; Ls.sup_to_colbeg = Glu.xsup; Ls.sup_to_colend = Glu.xsup_end;
            Us.nzval = Glu.ucol; Us.rowind = Glu.usub; Us.colbeg = Glu.xusub; Us.colend = Glu.xusub_end;
            Lm.Store = &Ls; Um.Store = &Us;
            fprintf(out, "L ok\n");
        } else if (!strcmp(op, "W")) {
            int_t r;
            iwork = NULL; dwork = NULL;
            fflush(out);
            r = PG(gstrf_WorkInit)((int_t) a[0], (int_t) a[1], &iwork, &dwork);
            fprintf(out, "W ret=%ld", (long) r);
            poff("iwork", iwork, last_user); poff("dwork", dwork, last_user);
            fprintf(out, "\n");
        } else if (!strcmp(op, "R") || !strcmp(op, "RK")) {
            PG(gstrf_WorkFree)(iwork, dwork, &Glu); iwork = NULL; dwork = NULL; fprintf(out, "R ok\n");
        } else if (!strcmp(op, "T")) {
            fprintf(out, "T %ld\n", (long) SLX(TempSpace)((int_t) a[0], (int_t) a[1], (int_t) a[2]));
        } else if (!strcmp(op, "U")) {
            fprintf(out, "U %lld\n", (long long) PG(gstrf_memory_use)((int_t) a[0], (int_t) a[1], (int_t) a[2]));
        } else if (!strcmp(op, "A")) {
#ifdef VERIF_FAULT
            verif_fail_from = a[0] > 0 ? verif_alloc_count + a[0] : -1;
            fprintf(out, "A ok\n");
#else
            fprintf(out, "A unsupported\n");
#endif
        } else if (!strcmp(op, "D")) {
            if (XF(expanders)) { SUPERLU_FREE(XF(expanders)); XF(expanders) = 0; }
            fprintf(out, "D ok\n");
        } else if (!strcmp(op, "C")) {
            fprintf(out, "C %s\n", canaries_ok() ? "ok" : "bad");
        } else fprintf(out, "? %s\n", op);
        fflush(out);
    }
}

int main(int argc, char **argv)
{
    char line[1024], id[256];
    int devnull;
    out = fdopen(dup(1), "w");                 /* results; the library's own printf chatter goes to /dev/null */
    devnull = open("/dev/null", 1);
    dup2(devnull, 1); dup2(devnull, 2);
    while (fgets(line, sizeof line, stdin)) {
        pid_t pid; int st;
        if (sscanf(line, "CASE %255s", id) != 1) continue;
        fprintf(out, "CASE %s\n", id); fflush(out);
        {   /* read the case body into memory, then run it in a child */
            static char body[1 << 20]; size_t len = 0;
            while (fgets(line, sizeof line, stdin)) {
                size_t l = strlen(line);
                if (len + l < sizeof body) { memcpy(body + len, line, l); len += l; }
                if (!strncmp(line, "END", 3)) break;
            }
            body[len] = 0;
            fflush(stdout);
            pid = fork();
            if (pid == 0) {
                FILE *m = fmemopen(body, len, "r");
                alarm(getenv("VERIF_ALARM") ? atoi(getenv("VERIF_ALARM")) : 3);
                region_init();
                run_case(m);
                fflush(out);
                _exit(0);
            }
            waitpid(pid, &st, 0);
        }
        if (WIFEXITED(st)) fprintf(out, "END %s exit=%d\n", id, WEXITSTATUS(st));
        else if (WIFSIGNALED(st)) fprintf(out, "END %s signal=%d\n", id, WTERMSIG(st));
        fflush(out);
    }
    return 0;
}
