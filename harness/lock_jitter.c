/* lock_jitter.c -- schedule perturbation at every pthread_mutex_lock of the library, without touching the library:
   link with -Wl,--wrap=pthread_mutex_lock.  A thread sleeps a pseudo-random time (0 .. verif_lock_jitter_us microseconds,
   with probability 1/2) BEFORE it takes the lock.  This is a legal schedule for any correct program; it widens every
   check-then-lock window.  Off (0) unless the harness sets verif_lock_jitter_us or VERIF_LOCK_JITTER is in the environment. */
#include <pthread.h>
#include <stdlib.h>
#include <time.h>

volatile long verif_lock_jitter_us = -1;
pthread_mutex_t *volatile verif_nojitter_mutex = 0;      /* the harness's own log mutex is left alone */
int __real_pthread_mutex_lock(pthread_mutex_t *m);

int __wrap_pthread_mutex_lock(pthread_mutex_t *m)
{
    static __thread unsigned long rng;
    long mx = verif_lock_jitter_us;
    if (mx < 0) { const char *e = getenv("VERIF_LOCK_JITTER"); mx = e ? atol(e) : 0; verif_lock_jitter_us = mx; }
    if (mx > 0 && m != verif_nojitter_mutex) {
        if (!rng) rng = (unsigned long) (size_t) &rng * 2654435761UL + 12345UL;
        rng = rng * 6364136223846793005UL + 1442695040888963407UL;
        if ((rng >> 40) & 1) {
            long us = (long) ((rng >> 20) % (unsigned long) (mx + 1));
            struct timespec ts = {0, us * 1000};
            if (us == 0) sched_yield(); else nanosleep(&ts, NULL);
        }
    }
    return __real_pthread_mutex_lock(m);
}

