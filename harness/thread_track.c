/* thread_track.c -- exact thread accounting and thread-creation faults without touching the library:
   link with -Wl,--wrap=pthread_create. */
#include <pthread.h>
#include <stdlib.h>

/*    Every thread the library creates runs through a trampoline that keeps verif_threads_live (started and not yet returned
   from its start routine) exact -- no polling of /proc.  verif_create_fail_at = k > 0 makes the k-th creation since the last
   reset fail with EAGAIN (resource exhaustion), the fault C04 and C17 inject. */
#include <errno.h>
volatile long verif_threads_live = 0, verif_threads_created = 0, verif_create_calls = 0, verif_create_fail_at = 0, verif_create_failed = 0;
int __real_pthread_create(pthread_t *t, const pthread_attr_t *a, void *(*fn)(void *), void *arg);
struct verif_tramp { void *(*fn)(void *); void *arg; };
static void *verif_trampoline(void *p)
{
    struct verif_tramp tr = *(struct verif_tramp *) p;
    void *r;
    free(p);
    r = tr.fn(tr.arg);
    __sync_fetch_and_sub(&verif_threads_live, 1);
    return r;
}
int __wrap_pthread_create(pthread_t *t, const pthread_attr_t *a, void *(*fn)(void *), void *arg)
{
    long k = __sync_add_and_fetch(&verif_create_calls, 1);
    struct verif_tramp *tr;
    int rc;
    if (verif_create_fail_at > 0 && k == verif_create_fail_at) { verif_create_failed = 1; return EAGAIN; }
    tr = (struct verif_tramp *) malloc(sizeof *tr);
    if (!tr) return EAGAIN;
    tr->fn = fn; tr->arg = arg;
    __sync_fetch_and_add(&verif_threads_live, 1);
    rc = __real_pthread_create(t, a, verif_trampoline, tr);
    if (rc) { __sync_fetch_and_sub(&verif_threads_live, 1); free(tr); } else __sync_fetch_and_add(&verif_threads_created, 1);
    return rc;
}
