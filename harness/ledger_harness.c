/* C17 harness: records the real allocation / thread / descriptor history of documented call sequences
 * (fault flavour: every SUPERLU_MALLOC / SUPERLU_FREE goes through harness/verif_malloc.c, whose ledger FILE*
 * is an in-memory stream here), computes the set of blocks reachable from what each call hands back
 * (exactly the pointers the documented destroy routines free), performs the documented destroy, and prints
 * the whole trace for the extracted check_balanced (extract/ledger_driver.ml).
 *
 * Case file: ustack_mat.h, plus  SEQ step,step,...   REPEAT k
 * Steps:  gssv  gssvx  gssvxf (gssvx then fact=FACTORED with the same L,U)  gssvxq (lwork=-1)  gssvxu (user workspace)
 *         gssvxs (user workspace far too small)  gstrf (StatAlloc..p?gstrf_init..p?gstrf..?gstrs..pxgstrf_finalize..StatFree)
 *         gstrfr (the same followed by a refactorization)  errn (nprocs = 0)  errx (p?gssvx, lwork = -5)  sing (singular matrix)
 * Trace lines:  A id size | F id | X id size (refused) | T+ | T- | O | C | B step | E step info | R ids.. | D | Z
 *               LIVE iter bytes blocks | SITE id size frames | TASKS n | FDS n
 */
#include <unistd.h>
#include <fcntl.h>
#include <dirent.h>
#include <pthread.h>
#include <sys/wait.h>
#include "ustack_mat.h"
#include "verif_malloc.h"
#include "ledger_trace.h"

static FILE *out;
static char *lbuf; static size_t llen;

/* ---- thread events */
extern int __real_pthread_create(pthread_t *, const pthread_attr_t *, void *(*)(void *), void *);
extern int __real_pthread_join(pthread_t, void **);
int __wrap_pthread_create(pthread_t *t, const pthread_attr_t *a, void *(*f)(void *), void *arg)
{
    int r = __real_pthread_create(t, a, f, arg);
    if (r == 0 && verif_ledger) fprintf(verif_ledger, "T+\n");
    return r;
}
int __wrap_pthread_join(pthread_t t, void **st)
{
    int r = __real_pthread_join(t, st);
    if (r == 0 && verif_ledger) fprintf(verif_ledger, "T-\n");
    return r;
}

static int count_dir(const char *d)
{
    DIR *D = opendir(d); struct dirent *e; int n = 0;
    if (!D) return -1;
    while ((e = readdir(D))) if (e->d_name[0] != '.') ++n;
    closedir(D);
    return n - 1;          /* the descriptor of opendir itself */
}
static int ntasks(void) { return count_dir("/proc/self/task") + 1; }
static int nfds(void) { return count_dir("/proc/self/fd"); }

static void mark(const char *fmt, long a, long b) { fprintf(verif_ledger, fmt, a, b); }

/* ---- reachable blocks */
static void add_id(long *ids, int *k, void *p) { long id; if (!p) return; id = verif_block_id(p); if (id > 0) ids[(*k)++] = id; }
static int lu_ids(SuperMatrix *L, SuperMatrix *U, int user, long *ids)
{
    int k = 0;
    SCPformat *Ls = (SCPformat *) L->Store; NCPformat *Us = (NCPformat *) U->Store;
    if (Ls) {
        add_id(ids, &k, Ls);
        if (!user) {    /* what Destroy_SuperNode_SCP frees */
            add_id(ids, &k, Ls->rowind); add_id(ids, &k, Ls->rowind_colbeg); add_id(ids, &k, Ls->rowind_colend);
            add_id(ids, &k, Ls->nzval); add_id(ids, &k, Ls->nzval_colbeg); add_id(ids, &k, Ls->nzval_colend);
            add_id(ids, &k, Ls->col_to_sup); add_id(ids, &k, Ls->sup_to_colbeg); add_id(ids, &k, Ls->sup_to_colend);
        }
    }
    if (Us) {
        add_id(ids, &k, Us);
        if (!user) {    /* what Destroy_CompCol_NCP frees */
            add_id(ids, &k, Us->nzval); add_id(ids, &k, Us->rowind); add_id(ids, &k, Us->colbeg); add_id(ids, &k, Us->colend);
        }
    }
    return k;
}
static void print_ret(long *ids, int k)
{
    int i; fprintf(verif_ledger, "R");
    for (i = 0; i < k; ++i) fprintf(verif_ledger, " %ld", ids[i]);
    fprintf(verif_ledger, "\n");
}

#if VPREC == 0 || VPREC == 2
typedef float real_t;
#else
typedef double real_t;
#endif

typedef struct {
    vcase_t *c; int n, nrhs;
    SuperMatrix A, B, X, L, U;
    elt_t *b, *x;
    int_t *perm_c, *perm_r;
    void *R, *C, *ferr, *berr;
    superlumt_options_t opt;
} ctx_t;

/* caller-owned data of one step: everything comes from plain malloc except the Store structs the documented
   ?Create_* routines allocate (they are live before the call and are destroyed by the caller afterwards) */
static void setup(ctx_t *k, vcase_t *c, int singular)
{
    int n = c->n, nrhs = c->nrhs, i;
    elt_t *a = (elt_t *) malloc(sizeof(elt_t) * (c->nnz + 1));
    int_t *asub = (int_t *) malloc(sizeof(int_t) * (c->nnz + 1)), *xa = (int_t *) malloc(sizeof(int_t) * (n + 1));
    memset(k, 0, sizeof *k);
    k->c = c; k->n = n; k->nrhs = nrhs;
    for (i = 0; i < c->nnz; ++i) { ELT_SET(a[i], c->re[i], c->im[i]); asub[i] = c->rowind[i]; }
    for (i = 0; i <= n; ++i) xa[i] = c->colptr[i];
    if (singular && n >= 2) {      /* column 1 := 2 * column 0 on the same pattern is not possible in general: zero the values of the last column */
        for (i = xa[n - 1]; i < xa[n]; ++i) ELT_SET(a[i], 0.0, 0.0);
    }
    XF(Create_CompCol_Matrix)(&k->A, n, n, c->nnz, a, asub, xa, c->nr_format ? SLU_NR : SLU_NC, SLU_DT, SLU_GE);
    k->b = (elt_t *) malloc(sizeof(elt_t) * (n * nrhs + 1)); k->x = (elt_t *) malloc(sizeof(elt_t) * (n * nrhs + 1));
    make_rhs(c, k->b, nrhs); memcpy(k->x, k->b, sizeof(elt_t) * n * nrhs);
    XF(Create_Dense_Matrix)(&k->B, n, nrhs, k->b, n, SLU_DN, SLU_DT, SLU_GE);
    XF(Create_Dense_Matrix)(&k->X, n, nrhs, k->x, n, SLU_DN, SLU_DT, SLU_GE);
    k->perm_c = (int_t *) malloc(sizeof(int_t) * (n + 1)); k->perm_r = (int_t *) malloc(sizeof(int_t) * (n + 1));
    k->R = malloc(16 * (n + 1)); k->C = malloc(16 * (n + 1)); k->ferr = malloc(16 * (nrhs + 1)); k->berr = malloc(16 * (nrhs + 1));
    /* get_perm_c is a documented call of its own: it hands nothing back */
    fprintf(verif_ledger, "B get_perm_c\n");
    get_perm_c(c->permc, &k->A, k->perm_c);
    fprintf(verif_ledger, "E get_perm_c 0\nR\nD\nZ\n");
    memset(&k->opt, 0, sizeof k->opt);
    k->opt.nprocs = c->nprocs; k->opt.fact = c->fact ? EQUILIBRATE : DOFACT; k->opt.trans = NOTRANS; k->opt.refact = NO;
    k->opt.panel_size = sp_ienv(1); k->opt.relax = sp_ienv(2); k->opt.usepr = NO; k->opt.diag_pivot_thresh = 1.0;
    k->opt.perm_c = k->perm_c; k->opt.perm_r = k->perm_r;
    k->opt.etree = (int_t *) malloc(sizeof(int_t) * (n + 1));
    k->opt.colcnt_h = (int_t *) malloc(sizeof(int_t) * (n + 1));
    k->opt.part_super_h = (int_t *) malloc(sizeof(int_t) * (n + 1));
    {   /* a caller that holds (empty) factors: keeps the reads of p?gssvx after an early failure in bounds (C14 finding F4) */
        static SCPformat ls; static NCPformat us;
        ls.nzval_colend = (int_t *) calloc(n + 1, sizeof(int_t)); ls.rowind_colend = (int_t *) calloc(n + 1, sizeof(int_t));
        us.colend = (int_t *) calloc(n + 1, sizeof(int_t));
        k->L.Store = &ls; k->U.Store = &us; k->L.ncol = k->U.ncol = k->L.nrow = k->U.nrow = n;
    }
}
static void teardown(ctx_t *k)
{
    Destroy_SuperMatrix_Store(&k->A); Destroy_SuperMatrix_Store(&k->B); Destroy_SuperMatrix_Store(&k->X);
}

static void do_gssvx(ctx_t *k, int_t *info)
{
    superlu_memusage_t mu; equed_t equed = NOEQUIL; real_t rpg, rcond;
    PG(gssvx)(k->opt.nprocs, &k->opt, &k->A, k->perm_c, k->perm_r, &equed, k->R, k->C, &k->L, &k->U, &k->B, &k->X,
              &rpg, &rcond, k->ferr, k->berr, &mu, info);
}

static void run_step(vcase_t *c, const char *step)
{
    ctx_t k; int_t info = -999, info2 = 0; long ids[64]; int nid = 0, user = 0, built = 0;
    int t0, f0, t1, f1, i;
    static char *work;
    setup(&k, c, !strcmp(step, "sing"));
    t0 = ntasks(); f0 = nfds();
    fprintf(verif_ledger, "B %s\n", step);
    if (c->fail_from > 0) verif_fail_from = verif_alloc_count + c->fail_from;
    if (!strcmp(step, "gssv") || !strcmp(step, "sing")) {
        PG(gssv)(c->nprocs, &k.A, k.perm_c, k.perm_r, &k.L, &k.U, &k.B, &info);
        built = info >= 0;
    } else if (!strcmp(step, "errn")) {
        PG(gssv)(0, &k.A, k.perm_c, k.perm_r, &k.L, &k.U, &k.B, &info);
    } else if (!strcmp(step, "trsv0")) {
        /* sp_?trsv on an empty (0 x 0) system: the quick return of SRC/?sp_blas2.c */
        SuperMatrix L0, U0; static SCPformat ls0; static NCPformat us0; elt_t x0[1]; int_t inf0 = 0;
        memset(&L0, 0, sizeof L0); memset(&U0, 0, sizeof U0);
        ls0.nsuper = -1; L0.Store = &ls0; U0.Store = &us0;
        VCAT3(sp_, PC, trsv)("L", "N", "U", &L0, &U0, x0, &inf0);
        info = inf0;
    } else if (!strcmp(step, "errx")) {
        k.opt.lwork = -5; do_gssvx(&k, &info);
    } else if (!strcmp(step, "gssvx")) {
        do_gssvx(&k, &info); built = info >= 0;
    } else if (!strcmp(step, "gssvxf")) {
        do_gssvx(&k, &info); built = info >= 0;
        if (info == 0) {
            fprintf(verif_ledger, "E %s %ld\n", step, (long) info);
            nid = lu_ids(&k.L, &k.U, 0, ids); print_ret(ids, nid);
            fprintf(verif_ledger, "D\nK\n");                 /* L and U are kept for the next call */
            fprintf(verif_ledger, "B gssvx:factored\n");
            k.opt.fact = FACTORED;
            do_gssvx(&k, &info);
        }
    } else if (!strcmp(step, "gssvxq")) {
        k.opt.lwork = -1; do_gssvx(&k, &info);
    } else if (!strcmp(step, "gssvxu") || !strcmp(step, "gssvxs")) {
        long lw = !strcmp(step, "gssvxu") ? (4L << 20) : 300;
        if (!work) work = (char *) malloc(4L << 20);
        k.opt.work = work; k.opt.lwork = (int_t) lw; user = 1;
        do_gssvx(&k, &info); built = (info == 0) || (!strcmp(step, "gssvxu") && info > 0);
        /* info > n does not tell the caller whether L and U were built (MemInit failure: no; WorkInit failure in a thread: yes):
           they are taken as handed back exactly when their Store is a library block */
        if (!strcmp(step, "gssvxs")) built = info > 0 && k.L.Store && verif_block_id(k.L.Store) > 0 && k.U.Store && verif_block_id(k.U.Store) > 0;
    } else if (!strcmp(step, "gstrf") || !strcmp(step, "gstrfr")) {
        Gstat_t Gstat; SuperMatrix AC; int rounds = !strcmp(step, "gstrfr") ? 2 : 1, r;
        StatAlloc(k.n, c->nprocs, k.opt.panel_size, k.opt.relax, &Gstat);
        for (r = 0; r < rounds; ++r) {
            StatInit(k.n, c->nprocs, &Gstat);
            PG(gstrf_init)(c->nprocs, DOFACT, NOTRANS, r ? YES : NO, k.opt.panel_size, k.opt.relax, 1.0, NO, 0.0,
                           k.perm_c, k.perm_r, NULL, 0, &k.A, &AC, &k.opt, &Gstat);
            PG(gstrf)(&k.opt, &AC, k.perm_r, &k.L, &k.U, &Gstat, &info);
            if (info == 0) XF(gstrs)(NOTRANS, &k.L, &k.U, k.perm_r, k.perm_c, &k.B, &Gstat, &info2);
            if (r + 1 < rounds) Destroy_CompCol_Permuted(&AC);        /* as EXAMPLE/pdrepeat.c between factorizations */
        }
        pxgstrf_finalize(&k.opt, &AC);
        StatFree(&Gstat);
        built = info >= 0;
    }
    verif_fail_from = -1;
    fprintf(verif_ledger, "E %s %ld\n", step, (long) info);
    if (c->fail_from > 0 && info > k.n + 1 && strcmp(step, "gssvxu")) built = 0;     /* allocation failure before L/U were built ... */
    if (c->fail_from > 0 && info > k.n + 1 && k.L.Store && verif_block_id(k.L.Store) > 0 && k.U.Store && verif_block_id(k.U.Store) > 0) built = 1; /* ... unless a thread failed after MemInit */
    nid = built ? lu_ids(&k.L, &k.U, user, ids) : 0;
    print_ret(ids, nid);
    t1 = ntasks(); f1 = nfds();
    /* pthread_join returns when the thread has terminated; its /proc entry may linger for a moment */
    for (i = 0; i < 50 && t1 != t0; ++i) { usleep(2000); t1 = ntasks(); }
    for (i = f0; i < f1; ++i) fprintf(verif_ledger, "O\n");
    for (i = f1; i < f0; ++i) fprintf(verif_ledger, "C\n");
    fprintf(verif_ledger, "TASKS %d %d\n", t0, t1);
    /* the documented destroy of what was handed back */
    fprintf(verif_ledger, "D\n");
    if (built) {
        if (user) { Destroy_SuperMatrix_Store(&k.L); Destroy_SuperMatrix_Store(&k.U); }
        else { Destroy_SuperNode_SCP(&k.L); Destroy_CompCol_NCP(&k.U); }
    }
    fprintf(verif_ledger, "Z\n");
    teardown(&k);
}

static void run_case(vcase_t *c)
{
    int it; char seq[256], *tok, *save;
    apply_env(c);
    {
        FILE *mainl = open_memstream(&lbuf, &llen), *nullf = fopen("/dev/null", "w");
        verif_ledger = mainl;
        ledger_trace_init();
        for (it = 0; it < c->repeat; ++it) {
            /* the trace of the first iteration is enough: later ones only measure growth */
            verif_ledger = it == 0 ? mainl : nullf;
            ledger_trace_on = (it == 0);
            strncpy(seq, c->seq, sizeof seq - 1); seq[sizeof seq - 1] = 0;
            for (tok = strtok_r(seq, ",", &save); tok; tok = strtok_r(NULL, ",", &save)) run_step(c, tok);
            fprintf(out, "LIVE %s %d %ld %ld\n", c->id, it, verif_live_bytes, verif_live_blocks);
        }
        fflush(mainl);
        verif_ledger = NULL;
    }
    /* print the trace of the first iteration and the sites of the blocks that are still live */
    {
        FILE *m; char line[256]; static char livemap[1 << 20], want[1 << 20]; long id; size_t sz;
        m = fmemopen(lbuf, llen, "r");
        memset(livemap, 0, sizeof livemap); memset(want, 0, sizeof want);
        fprintf(out, "TRACE %s\n", c->id);
        while (m && fgets(line, sizeof line, m)) {
            fputs(line, out);
            if (sscanf(line, "A %ld %zu", &id, &sz) == 2 && id > 0 && id < (long) sizeof livemap) livemap[id] = 1;
            else if (sscanf(line, "F %ld", &id) == 1 && id > 0 && id < (long) sizeof livemap) livemap[id] = 0;
            else if (line[0] == 'Z' || line[0] == 'K')        /* whatever is live after a destroy is a candidate leak: its site is wanted */
                for (id = 1; id < (long) sizeof livemap; ++id) if (livemap[id]) want[id] = 1;
        }
        for (id = 1; id < (long) sizeof livemap; ++id)
            if (livemap[id] || want[id]) { fprintf(out, "SITE %ld", id); if (!ledger_trace_print_id(out, id)) fprintf(out, " frames="); fprintf(out, "\n"); }
        fprintf(out, "ENDTRACE %s\n", c->id);
    }
    fflush(out);
}

int main(int argc, char **argv)
{
    vcase_t c; int devnull, tmo = getenv("VERIF_ALARM") ? atoi(getenv("VERIF_ALARM")) : 60;
    out = fdopen(dup(1), "w");
    devnull = open("/dev/null", O_WRONLY);
    dup2(devnull, 1);
    while (read_case(stdin, &c)) {
        pid_t pid; int st;
        fflush(out);
        pid = fork();
        if (pid == 0) {
            dup2(devnull, 2);
            alarm(tmo);
            run_case(&c);
            fflush(out);
            _exit(0);
        }
        waitpid(pid, &st, 0);
        if (WIFEXITED(st)) fprintf(out, "END %s status=exit:%d\n", c.id, WEXITSTATUS(st));
        else fprintf(out, "END %s status=signal:%d\n", c.id, WTERMSIG(st));
        fflush(out);
        free(c.colptr); free(c.rowind); free(c.re); free(c.im);
    }
    return 0;
}
