/* C14: p?gstrf_MemXpand (growing lusup / ucol / lsub / usub in the middle of a factorization) must PRESERVE what the arrays hold, in
 * both workspace modes, keep them inside the caller's buffer and pairwise disjoint, and leave the guard zones alone.  No driver
 * reaches this routine on the current tree (storage exhaustion goes through XPAND_HINT / abort), but it is an entry point of
 * p?memory.c; it is exercised directly.  Usage: memxpand_harness <n> <annz> <lwork|0> <balign> ; prints one line per step, "OK" last.
 * Compile with -DVPREC=0..3. */
#include <stdio.h>
#include <stdlib.h>
#include <string.h>
#include "ustack_prec.h"

extern float PG(gstrf_MemInit)(int_t, int_t, superlumt_options_t *, SuperMatrix *, SuperMatrix *, GlobalLU_t *);
extern int_t PG(gstrf_MemXpand)(int_t, int_t, MemType, int_t *, GlobalLU_t *);
extern void verif_set_ienv(int, int_t);

#define GUARD 4096
static unsigned char *region; static char *workp; static long lwork;
static GlobalLU_t Glu; static SuperMatrix Lm, Um; static superlumt_options_t opt;

static void fill(void *p, long bytes, unsigned seed) { long i; unsigned char *q = p; for (i = 0; i < bytes; ++i) q[i] = (unsigned char) (seed + 31 * i + (i >> 8)); }
static long diffs(const void *p, long bytes, unsigned seed) { long i, d = 0; const unsigned char *q = p; for (i = 0; i < bytes; ++i) d += q[i] != (unsigned char) (seed + 31 * i + (i >> 8)); return d; }

static int check_all(const char *when, long nlu, long nu, long nl)
{
    int bad = 0; long d;
    struct { const char *name; void *p; long bytes; unsigned seed; } a[4] = {
        {"lusup", Glu.lusup, nlu * (long) sizeof(elt_t), 11}, {"ucol", Glu.ucol, nu * (long) sizeof(elt_t), 23},
        {"lsub", Glu.lsub, nl * (long) sizeof(int_t), 37}, {"usub", Glu.usub, nu * (long) sizeof(int_t), 53} };
    int i, j;
    for (i = 0; i < 4; ++i) {
        d = diffs(a[i].p, a[i].bytes, a[i].seed);
        if (d) { printf("FAIL %s: %ld of the %ld old bytes of %s are changed\n", when, d, a[i].bytes, a[i].name); bad = 1; }
        if (lwork > 0 && ((char *) a[i].p < workp || (char *) a[i].p + a[i].bytes > workp + lwork)) { printf("FAIL %s: %s lies outside work[]\n", when, a[i].name); bad = 1; }
        for (j = 0; j < i; ++j)
            if ((char *) a[i].p < (char *) a[j].p + a[j].bytes && (char *) a[j].p < (char *) a[i].p + a[i].bytes) { printf("FAIL %s: %s overlaps %s\n", when, a[i].name, a[j].name); bad = 1; }
    }
    if (lwork > 0) { long k; for (k = 0; k < GUARD; ++k) if (region[k] != 0xA5 || region[GUARD + (workp - (char *) region - GUARD) + lwork + k] != 0xA5) { if (workp + lwork + k < (char *) region + 2 * GUARD + (1 << 22)) { printf("FAIL %s: guard zone written\n", when); bad = 1; break; } } }
    return bad;
}

int main(int argc, char **argv)
{
    long n = argc > 1 ? atol(argv[1]) : 20, annz = argc > 2 ? atol(argv[2]) : 60, balign = argc > 4 ? atol(argv[4]) : 0;
    long nlu, nu, nl; int_t maxlen; int bad = 0; float r;
    lwork = argc > 3 ? atol(argv[3]) : 0;
    region = malloc(2 * GUARD + (1 << 22) + 64); memset(region, 0xA5, 2 * GUARD + (1 << 22) + 64);
    workp = (char *) region + GUARD + balign;
    if (lwork > (1 << 22) - 64) lwork = (1 << 22) - 64;
    verif_set_ienv(6, 4 * n); verif_set_ienv(7, -2); verif_set_ienv(8, -2);      /* small first estimates: room to grow several times */
    memset(&opt, 0, sizeof opt); opt.nprocs = 1; opt.panel_size = 2; opt.refact = NO; opt.lwork = (int_t) lwork; opt.work = lwork > 0 ? workp : NULL;
    Glu.dynamic_snode_bound = NO; Glu.nzlumax = (int_t) (4 * n);
    r = PG(gstrf_MemInit)((int_t) n, (int_t) annz, &opt, &Lm, &Um, &Glu);
    printf("MemInit code=%lld\n", (long long) r);
    if (r != 0) { printf("SKIP\n"); return 0; }
    nlu = Glu.nzlumax; nu = Glu.nzumax; nl = Glu.nzlmax;
    fill(Glu.lusup, nlu * sizeof(elt_t), 11); fill(Glu.ucol, nu * sizeof(elt_t), 23); fill(Glu.lsub, nl * sizeof(int_t), 37); fill(Glu.usub, nu * sizeof(int_t), 53);
    bad |= check_all("after the fill", nlu, nu, nl);
    maxlen = Glu.nzlumax;
    if (PG(gstrf_MemXpand)(0, (int_t) nlu, LUSUP, &maxlen, &Glu) == 0) { printf("LUSUP grown to %ld\n", (long) maxlen); bad |= check_all("after growing LUSUP", nlu, nu, nl); } else printf("LUSUP refused\n");
    maxlen = Glu.nzumax;
    if (PG(gstrf_MemXpand)(0, (int_t) nu, UCOL, &maxlen, &Glu) == 0) {
        int_t m2 = (int_t) nu; printf("UCOL grown to %ld\n", (long) maxlen); bad |= check_all("after growing UCOL", nlu, nu, nl);
        if (PG(gstrf_MemXpand)(0, (int_t) nu, USUB, &m2, &Glu) == 0) { printf("USUB grown to %ld\n", (long) m2); bad |= check_all("after growing USUB", nlu, nu, nl); } else printf("USUB refused\n");
    } else printf("UCOL refused\n");
    maxlen = Glu.nzlmax;
    if (PG(gstrf_MemXpand)(0, (int_t) nl, LSUB, &maxlen, &Glu) == 0) { printf("LSUB grown to %ld\n", (long) maxlen); bad |= check_all("after growing LSUB", nlu, nu, nl); } else printf("LSUB refused\n");
    printf(bad ? "BAD\n" : "OK\n");
    return bad;
}
