/* General driver harness (one binary per precision: compile with -DPREC_D / _S / _C / _Z).
 * Reads cases from stdin (key/value lines, a case ends with the line "RUN"), runs the real drivers of
 * the library built from the current /repo tree, prints one JSON line per case.
 * With hooks on it installs the event callback: per-column release counters, scheduler decisions,
 * supernode-number / lsub-allocation order, LUSUP slot monitor, seeded schedule perturbation. */
#define _GNU_SOURCE
#include <stdio.h>
#include <stdlib.h>
#include <string.h>
#include <unistd.h>
#include <signal.h>
#include <dirent.h>
#include <pthread.h>
#include <sched.h>
#include <time.h>
#if defined(PREC_S)
#include "slu_mt_sdefs.h"
#define PRE s
#define PRESTR "s"
#define REAL float
#define NCOMP 1
#define ELT float
#define DTYPE SLU_S
#elif defined(PREC_C)
#include "slu_mt_cdefs.h"
#define PRE c
#define PRESTR "c"
#define REAL float
#define NCOMP 2
#define ELT complex
#define DTYPE SLU_C
#elif defined(PREC_Z)
#include "slu_mt_zdefs.h"
#define PRE z
#define PRESTR "z"
#define REAL double
#define NCOMP 2
#define ELT doublecomplex
#define DTYPE SLU_Z
#else
#include "slu_mt_ddefs.h"
#define PRE d
#define PRESTR "d"
#define REAL double
#define NCOMP 1
#define ELT double
#define DTYPE SLU_D
#endif

extern void verif_set_ienv(int ispec, int_t v);

typedef struct {
    long id; char driver[16]; int stype_nr;
    long m, n, nnz, nrhs, nprocs; int colperm; long ienv[8];
    double thresh; int usepr, symmetric, fact, trans; long ldb, ldx, createfail;
    long pseed; double pprob; long pmaxus;      /* perturbation */
    long stall_p, stall_k, stall_us;            /* worker stall_p sleeps stall_us microseconds at each of its first stall_k pivot searches */
    int trace, dump_lu, destroy; unsigned timeout;
    long *colptr, *rowind, *permc, *permr; double *vals, *rhs, *rhs2; int trans2; void *permc_used; long *etree_out;
} case_t;

static int ints_equal(const int_t *a, const long *b, long k) { long i; for (i = 0; i < k; ++i) if ((long) a[i] != b[i]) return 0; return 1; }
static void print_ints(const char *key, const int_t *v, long k)
{ long i; printf("\"%s\":[", key); for (i = 0; i < k; ++i) printf("%s%ld", i ? "," : "", (long) v[i]); printf("]"); }

static int count_threads(void)
{
    DIR *d = opendir("/proc/self/task"); struct dirent *e; int k = 0;
    if (!d) return -1;
    while ((e = readdir(d))) if (e->d_name[0] != '.') ++k;
    closedir(d); return k;
}

/* ---------------------------------------------------------------- event callback */
#define MAXEV 400000
typedef struct { int ev; long pnum, a, b, c; } evrec_t;
static evrec_t *evbuf; static volatile long nev; static pthread_mutex_t evmu = PTHREAD_MUTEX_INITIALIZER;
static long *rel_count, *done_count, cb_n; static long slot_overrun, slot_overrun_col, nsuper_events, lsub_events, order_inversions;
static long last_nsuper_of_lsub; static long thread_begin, thread_end, sched_calls, sched_nonempty;
static long max_qtail; static case_t *cur_case; static int cb_on;
static __thread unsigned long tl_rng; static __thread int tl_init; static __thread long tl_last_nsuper = -1;
static long *lsub_start; /* per supernode number: start of its subscript region */
static long *piv_count;  /* per column: pivot searches finished */
static long *init_map; static long init_map_n = -1, init_nzlumax = -1, init_nextlu = -1; static int init_dynamic = 0;   /* snapshot of Glu->map_in_sup */
static long *dyn_end;   /* dynamic mode: end of the slot of the H-supernode led by column j */
static long slot_overrun_by, lusup_allocs, max_lusup_end;

static void maybe_delay(long pnum, int site)
{
    case_t *c = cur_case; double u;
    if (!c || c->pprob <= 0) return;
    if (!tl_init) { tl_rng = (unsigned long) (c->pseed * 7919 + pnum * 104729 + 12345); tl_init = 1; }
    tl_rng = tl_rng * 6364136223846793005UL + 1442695040888963407UL;
    u = (double) ((tl_rng >> 33) & 0xffffff) / (double) 0x1000000;
    if (u < c->pprob || (site == 11 /* SLU_VEV_NSUPER: the NewNsuper -> Glu_alloc(LSUB) window */ && u < 0.35)) {
        long mx = (site == 11 && c->pmaxus < 300) ? 300 : c->pmaxus;
        long us = (long) ((tl_rng >> 20) % (unsigned long) (mx + 1));
        if (us == 0) sched_yield(); else { struct timespec ts = {0, us * 1000}; nanosleep(&ts, NULL); }
    }
    (void) site;
}

/* pivot log (trace & 2): one record per p?gstrf_pivotL call */
typedef struct { long j, usepr, old, diag, ncand, piv, usepr_out, pn; double thresh; long *rows; REAL *vals; } pivrec_t;
static pivrec_t *pivlog; static long npiv, cappiv;
#define MAXSNAP 4000
static long *snaps[MAXSNAP]; static long nsnap;
static long stask[MAXSNAP]; static long nstask;
#define MAXBUMP 20000
static long bumplog[2][MAXBUMP][3]; static long nbump[2];
static __thread pivrec_t tl_piv;

#ifdef SLU_MT_VERIF
static void verif_cb(int ev, long pnum, long a, long b, long c, const void *p)
{
    if (!cb_on) return;
    switch (ev) {
    case SLU_VEV_PIVOT_IN:
        if (cur_case && cur_case->stall_k > 0 && pnum == cur_case->stall_p) {
            /* a long stall of ONE worker while it holds a busy panel (a descheduled thread): whoever waits for its columns
               has to keep waiting, however long it takes */
            static __thread long tl_stall_case = -1, tl_stalls = 0;
            if (tl_stall_case != cur_case->id) { tl_stall_case = cur_case->id; tl_stalls = 0; }
            if (tl_stalls < cur_case->stall_k) {
                struct timespec ts = { cur_case->stall_us / 1000000, (cur_case->stall_us % 1000000) * 1000 };
                tl_stalls++; nanosleep(&ts, NULL);
            }
        }
        if (cur_case && (cur_case->trace & 2)) {
            const void * const *vrec = (const void * const *) p;
            const int_t *lsub_ptr = (const int_t *) vrec[0]; const ELT *col = (const ELT *) vrec[1]; const int_t *vn = (const int_t *) vrec[2];
            long k, nc = vn[1] - vn[0];
            tl_piv.j = a; tl_piv.usepr = vn[2]; tl_piv.old = vn[3]; tl_piv.diag = vn[4]; tl_piv.ncand = nc;
            tl_piv.rows = (long *) malloc((nc + 1) * sizeof(long)); tl_piv.vals = (REAL *) malloc((nc + 1) * NCOMP * sizeof(REAL));
            for (k = 0; k < nc; ++k) { tl_piv.rows[k] = lsub_ptr[vn[0] + k]; memcpy(&tl_piv.vals[k * NCOMP], &col[vn[0] + k], sizeof(ELT)); }
        }
        break;
    case SLU_VEV_PIVOT_OUT:
        if (a >= 0 && a < cb_n && piv_count) __sync_fetch_and_add(&piv_count[a], 1);
        if (cur_case && (cur_case->trace & 2) && tl_piv.rows) {
            tl_piv.piv = b; tl_piv.usepr_out = c; tl_piv.pn = pnum; tl_piv.thresh = p ? (double) *(const REAL *) p : -1.0;
            pthread_mutex_lock(&evmu);
            if (npiv == cappiv) { cappiv = cappiv ? 2 * cappiv : 1024; pivlog = (pivrec_t *) realloc(pivlog, cappiv * sizeof(pivrec_t)); }
            pivlog[npiv++] = tl_piv;
            pthread_mutex_unlock(&evmu);
            tl_piv.rows = NULL; tl_piv.vals = NULL;
        }
        break;
    case SLU_VEV_RELEASE: if (a >= 0 && a < cb_n) __sync_fetch_and_add(&rel_count[a], 1); break;
    case SLU_VEV_DONE:    if (a >= 0 && a < cb_n) __sync_fetch_and_add(&done_count[a], 1); break;
    case SLU_VEV_THREAD_BEGIN:
        pthread_mutex_lock(&evmu);
        thread_begin++;
        if (init_map_n < 0 && p) {   /* first worker: nobody has allocated yet */
            const pxgstrf_shared_t *sh = (const pxgstrf_shared_t *) p; long k;
            init_map_n = cb_n; init_dynamic = (int) sh->Glu->dynamic_snode_bound; init_nzlumax = sh->Glu->nzlumax; init_nextlu = sh->Glu->nextlu;
            for (k = 0; k <= cb_n; ++k) init_map[k] = sh->Glu->map_in_sup[k];
        }
        pthread_mutex_unlock(&evmu);
        break;
    case SLU_VEV_THREAD_END:   __sync_fetch_and_add(&thread_end, 1); break;
    case SLU_VEV_SCHED: {
        const pxgstrf_shared_t *sh = (const pxgstrf_shared_t *) p;
        sched_calls++; if (a >= 0) sched_nonempty++;
        if (sh && sh->taskq.tail > max_qtail) max_qtail = sh->taskq.tail;
        /* raised inside the scheduler lock: the counter of untaken panels as it stands after this hand-out, in lock order */
        if (sh && a >= 0 && nstask < MAXSNAP) stask[nstask++] = (long) sh->tasks_remain;
        break; }
    case SLU_VEV_NSUPER: __sync_fetch_and_add(&nsuper_events, 1); tl_last_nsuper = b; break;
    case SLU_VEV_LSUB: __sync_fetch_and_add(&lsub_events, 1);
        if (tl_last_nsuper >= 0 && tl_last_nsuper <= cb_n) lsub_start[tl_last_nsuper] = b;
        break;
    case SLU_VEV_ALLOC: {
        const long *q = (const long *) p;
        if ((a == UCOL || a == USUB || a == LSUB) && q) {
            /* locked bump allocators (the event is raised inside the lock, so this log is in lock order) */
            int w = (a == LSUB);
            pthread_mutex_lock(&evmu);
            if (nbump[w] < MAXBUMP) { bumplog[w][nbump[w]][0] = q[0]; bumplog[w][nbump[w]][1] = c; bumplog[w][nbump[w]][2] = q[1]; }
            nbump[w]++;
            pthread_mutex_unlock(&evmu);
            maybe_delay(pnum, ev);      /* holding the allocator lock longer is a legal schedule */
        }
        if (a == 100 && q) {           /* DynamicSetMap: slot [q0, q0+c) for the H-supernode led by column b */
            if (b >= 0 && b <= cb_n) dyn_end[b] = q[0] + c;
            if (q[0] + c > q[1]) { pthread_mutex_lock(&evmu); slot_overrun++; slot_overrun_col = b; slot_overrun_by = q[0] + c - q[1]; pthread_mutex_unlock(&evmu); }
        } else if (a == LUSUP && q && init_map_n >= 0) {   /* {prev_next, fsupc}: c entries inside the slot of fsupc */
            long fs = q[1], end = -1, k;
            if (fs >= 0 && fs <= cb_n) {
                if (!init_dynamic) {
                    /* static image: the slot ends where the next slot leader's slot began */
                    for (k = fs + 1; k <= cb_n; ++k) if (init_map[k] >= 0 && (k == cb_n || init_map[k] >= init_map[fs])) { end = init_map[k]; break; }
                } else if (dyn_end[fs] >= 0) end = dyn_end[fs];
                /* dynamic scheme, relaxed supernode preset by ?PresetMap: only the global bound is checked */
            }
            pthread_mutex_lock(&evmu);
            lusup_allocs++;
            if (q[0] + c > max_lusup_end) max_lusup_end = q[0] + c;
            if (end >= 0 && q[0] + c > end) { slot_overrun++; slot_overrun_col = b; if (q[0] + c - end > slot_overrun_by) slot_overrun_by = q[0] + c - end; }
            if (q[0] + c > init_nzlumax) { slot_overrun++; slot_overrun_col = b; }
            pthread_mutex_unlock(&evmu);
        }
        break; }
    default: break;
    }
    if (cur_case && (cur_case->trace & 1) && (ev != SLU_VEV_ALLOC) && (ev != SLU_VEV_PIVOT_IN) && (ev != SLU_VEV_PIVOT_OUT)) {
        pthread_mutex_lock(&evmu);
        if (nev < MAXEV) { evbuf[nev].ev = ev; evbuf[nev].pnum = pnum; evbuf[nev].a = a; evbuf[nev].b = b; evbuf[nev].c = c; nev++; }
        pthread_mutex_unlock(&evmu);
    }
    /* targeted perturbation: a pipelined panel (busy descendants bcol..jcol-1) delays its symbolic step until the busy
       descendants have made SOME progress (one or two more columns pivoted), at most 3 ms: the window in which a column
       of a busy supernode is already pivoted while the supernode is not yet final */
    if (ev == SLU_VEV_LBUSY && cur_case && (cur_case->trace & 1) && p && a >= 0 && a <= cb_n) {
        /* the worker's busy snapshot: the columns k < jcol with lbusy[k] == jcol */
        const int_t *lb = (const int_t *) p; long k, cnt = 0;
        pthread_mutex_lock(&evmu);
        if (nsnap < MAXSNAP) {
            long *rec = (long *) malloc((a + 4) * sizeof(long));
            rec[0] = pnum; rec[1] = a; rec[2] = b;
            for (k = 0; k < a; ++k) if (lb[k] == a) rec[4 + cnt++] = k;
            rec[3] = cnt; snaps[nsnap++] = rec;
        }
        pthread_mutex_unlock(&evmu);
    }
    if (ev == SLU_VEV_LBUSY && cur_case && cur_case->pprob > 0 && b >= 0 && b < a && a <= cb_n) {
        long k, base = 0, now, want, spins = 0;
        if (!tl_init) maybe_delay(pnum, ev);
        tl_rng = tl_rng * 6364136223846793005UL + 1442695040888963407UL;
        if (((tl_rng >> 33) & 0xff) < 180) {
            for (k = b; k < a; ++k) base += piv_count[k];
            want = base + 1 + (long) ((tl_rng >> 41) & 1);
            do { struct timespec ts = {0, 20000}; nanosleep(&ts, NULL); now = 0; for (k = b; k < a; ++k) now += piv_count[k]; }
            while (now < want && ++spins < 150);
        }
        return;
    }
    /* schedule perturbation: outside any library lock except for SCHED (inside the scheduler lock: skip) */
    if (ev != SLU_VEV_SCHED && ev != SLU_VEV_ALLOC) maybe_delay(pnum, ev);
}
#endif

extern volatile long verif_lock_jitter_us;      /* lock_jitter.c */
extern pthread_mutex_t *volatile verif_nojitter_mutex;
static void cb_reset(case_t *c)
{
    verif_lock_jitter_us = (c->pprob > 0 && c->pmaxus > 0) ? (c->pmaxus < 200 ? c->pmaxus : 200) : 0;
    verif_nojitter_mutex = &evmu;
    long i;
    cur_case = c; cb_n = c->n;
    free(rel_count); free(done_count); free(lsub_start);
    rel_count = (long *) calloc(c->n + 1, sizeof(long)); done_count = (long *) calloc(c->n + 1, sizeof(long));
    free(piv_count); piv_count = (long *) calloc(c->n + 1, sizeof(long));
    lsub_start = (long *) malloc((c->n + 2) * sizeof(long)); for (i = 0; i <= c->n; ++i) lsub_start[i] = -1;
    free(init_map); free(dyn_end); init_map = (long *) calloc(c->n + 2, sizeof(long)); dyn_end = (long *) malloc((c->n + 2) * sizeof(long));
    for (i = 0; i <= c->n; ++i) dyn_end[i] = -1;
    init_map_n = -1; init_nzlumax = -1; slot_overrun_by = 0; lusup_allocs = 0; max_lusup_end = 0;
    if (!evbuf) evbuf = (evrec_t *) malloc(MAXEV * sizeof(evrec_t));
    nev = 0; slot_overrun = 0; slot_overrun_col = -1; nsuper_events = lsub_events = order_inversions = 0;
    thread_begin = thread_end = sched_calls = sched_nonempty = 0; max_qtail = 0; last_nsuper_of_lsub = -1; nbump[0] = nbump[1] = 0;
    for (i = 0; i < nsnap; ++i) free(snaps[i]); nsnap = 0; nstask = 0;
    for (i = 0; i < npiv; ++i) { free(pivlog[i].rows); free(pivlog[i].vals); } npiv = 0;
    tl_init = 0; (void) i;
#ifdef SLU_MT_VERIF
    slu_mt_verif_cb = verif_cb;
#endif
    cb_on = 1;
}
static void cb_stop(void) { cb_on = 0; }
static void cb_print(case_t *c)
{
    long i, bad_rel = 0, bad_rel_col = -1;
#ifdef SLU_MT_VERIF
    printf("\"hooks\":1,");
#else
    printf("\"hooks\":0,");
#endif
    for (i = 0; i < c->n; ++i) if (rel_count[i] != 1) { bad_rel++; if (bad_rel_col < 0) bad_rel_col = i; }
    order_inversions = 0;
    { long last = -1; for (i = 0; i <= c->n; ++i) if (lsub_start[i] >= 0) { if (lsub_start[i] < last) order_inversions++; last = lsub_start[i]; } }
    printf("\"lsub_order_inversions\":%ld,\"slot_overrun_by\":%ld,\"lusup_allocs\":%ld,\"max_lusup_end\":%ld,\"nzlumax\":%ld,\"nextlu0\":%ld,\"dynamic_snode\":%d,",
           order_inversions, slot_overrun_by, lusup_allocs, max_lusup_end, init_nzlumax, init_nextlu, init_dynamic);
    if (c->trace & 4) { printf("\"map_in_sup\":["); for (i = 0; i <= c->n && init_map_n >= 0; ++i) printf("%s%ld", i ? "," : "", init_map[i]); printf("],"); }
    printf("\"release_not_once\":%ld,\"release_bad_col\":%ld,\"thread_begin\":%ld,\"thread_end\":%ld,\"sched_calls\":%ld,\"sched_nonempty\":%ld,\"max_qtail\":%ld,\"slot_overrun\":%ld,\"slot_overrun_col\":%ld,\"nsuper_events\":%ld,\"lsub_events\":%ld,",
           bad_rel, bad_rel_col, thread_begin, thread_end, sched_calls, sched_nonempty, max_qtail, slot_overrun, slot_overrun_col, nsuper_events, lsub_events);
    printf("\"sched_tasks\":["); for (i = 0; i < nstask; ++i) printf("%s%ld", i ? "," : "", stask[i]); printf("],");
    {   int w; long k2;
        for (w = 0; w < 2; ++w) {
            printf("\"%s\":[", w ? "bump_l" : "bump_u");
            for (k2 = 0; k2 < nbump[w] && k2 < MAXBUMP; ++k2) printf("%s[%ld,%ld,%ld]", k2 ? "," : "", bumplog[w][k2][0], bumplog[w][k2][1], bumplog[w][k2][2]);
            printf("],");
        }
    }
    if (c->trace & 2) {
        long k;
        printf("\"pivots\":[");
        for (i = 0; i < npiv; ++i) {
            pivrec_t *r = &pivlog[i];
            printf("%s{\"pn\":%ld,\"j\":%ld,\"usepr\":%ld,\"old\":%ld,\"diag\":%ld,\"piv\":%ld,\"usepr_out\":%ld,\"thresh\":\"%a\",\"rows\":[", i ? "," : "",
                   r->pn, r->j, r->usepr, r->old, r->diag, r->piv, r->usepr_out, r->thresh);
            for (k = 0; k < r->ncand; ++k) printf("%s%ld", k ? "," : "", r->rows[k]);
            printf("],\"vals\":[");
            for (k = 0; k < r->ncand * NCOMP; ++k) printf("%s\"%a\"", k ? "," : "", (double) r->vals[k]);
            printf("]}");
        }
        printf("],");
    }
    if (c->trace & 1) {
        long k2;
        printf("\"lbusy\":[");
        for (i = 0; i < nsnap; ++i) {
            printf("%s[%ld,%ld,%ld,[", i ? "," : "", snaps[i][0], snaps[i][1], snaps[i][2]);
            for (k2 = 0; k2 < snaps[i][3]; ++k2) printf("%s%ld", k2 ? "," : "", snaps[i][4 + k2]);
            printf("]]");
        }
        printf("],");
    }
    if (c->trace & 1) {
        printf("\"events\":[");
        for (i = 0; i < nev; ++i) printf("%s[%d,%ld,%ld,%ld,%ld]", i ? "," : "", evbuf[i].ev, evbuf[i].pnum, evbuf[i].a, evbuf[i].b, evbuf[i].c);
        printf("],");
    }
}

#include "drv_body.inc"

static void on_alarm(int sig) { (void) sig; printf("\n@@TIMEOUT\n"); fflush(stdout); _exit(96); }

static long *read_longs(char *p, long k) { long *v = (long *) malloc((k + 1) * sizeof(long)), i; char *e; for (i = 0; i < k; ++i) { v[i] = strtol(p, &e, 10); p = e; } return v; }
static double *read_doubles(char *p, long k) { double *v = (double *) malloc((k + 1) * sizeof(double)); long i; char *e; for (i = 0; i < k; ++i) { v[i] = strtod(p, &e); p = e; } return v; }

/* the library stops through exit() (SUPERLU_ABORT): hand the allocation log of the interrupted case to the checker */
static void on_exit_log(void)
{
    int w; long k2;
    if (!cb_on || !cur_case) return;
    cb_on = 0;
    printf("\n@@ABORTLOG %ld {", cur_case->id);
    for (w = 0; w < 2; ++w) {
        printf("\"%s\":[", w ? "abort_bump_l" : "abort_bump_u");
        for (k2 = 0; k2 < nbump[w] && k2 < MAXBUMP; ++k2) printf("%s[%ld,%ld,%ld]", k2 ? "," : "", bumplog[w][k2][0], bumplog[w][k2][1], bumplog[w][k2][2]);
        printf("]%s", w ? "" : ",");
    }
    printf("}\n"); fflush(stdout);
}

int main(void)
{
    static char *line; size_t cap = 0; ssize_t len;
    case_t c; long defienv[8] = {20, 6, 200, 200, 100, -50, -50, -30};
    signal(SIGALRM, on_alarm);
    atexit(on_exit_log);
    memset(&c, 0, sizeof c);
#define RESET() do { free(c.colptr); free(c.rowind); free(c.permc); free(c.permr); free(c.vals); free(c.rhs); free(c.rhs2); memset(&c, 0, sizeof c); \
        strcpy(c.driver, "gssv"); c.nprocs = 1; c.colperm = 0; memcpy(c.ienv, defienv, sizeof defienv); c.thresh = 1.0; c.timeout = 120; c.dump_lu = 1; c.destroy = 1; c.fact = 0; c.trans = 0; } while (0)
    RESET();
    while ((len = getline(&line, &cap, stdin)) > 0) {
        char key[64]; int off = 0;
        if (sscanf(line, "%63s%n", key, &off) < 1) continue;
        char *rest = line + off;
        if (!strcmp(key, "id")) c.id = atol(rest);
        else if (!strcmp(key, "driver")) sscanf(rest, "%15s", c.driver);
        else if (!strcmp(key, "stype")) c.stype_nr = (strstr(rest, "NR") != NULL);
        else if (!strcmp(key, "dims")) sscanf(rest, "%ld %ld %ld %ld", &c.m, &c.n, &c.nnz, &c.nrhs);
        else if (!strcmp(key, "colptr")) c.colptr = read_longs(rest, (c.stype_nr ? c.m : c.n) + 1);
        else if (!strcmp(key, "rowind")) c.rowind = read_longs(rest, c.nnz);
        else if (!strcmp(key, "vals")) c.vals = read_doubles(rest, c.nnz * NCOMP);
        else if (!strcmp(key, "rhs")) c.rhs = read_doubles(rest, c.m * c.nrhs * NCOMP);
        else if (!strcmp(key, "rhs2")) c.rhs2 = read_doubles(rest, c.m * c.nrhs * NCOMP);
        else if (!strcmp(key, "trans2")) c.trans2 = atoi(rest);
        else if (!strcmp(key, "nprocs")) c.nprocs = atol(rest);
        else if (!strcmp(key, "colperm")) c.colperm = atoi(rest);
        else if (!strcmp(key, "permc")) c.permc = read_longs(rest, c.n);
        else if (!strcmp(key, "permr")) c.permr = read_longs(rest, c.m);
        else if (!strcmp(key, "ienv")) sscanf(rest, "%ld %ld %ld %ld %ld %ld %ld %ld", c.ienv, c.ienv+1, c.ienv+2, c.ienv+3, c.ienv+4, c.ienv+5, c.ienv+6, c.ienv+7);
        else if (!strcmp(key, "thresh")) c.thresh = strtod(rest, NULL);
        else if (!strcmp(key, "usepr")) c.usepr = atoi(rest);
        else if (!strcmp(key, "symmetric")) c.symmetric = atoi(rest);
        else if (!strcmp(key, "ldb")) c.ldb = atol(rest);
        else if (!strcmp(key, "ldx")) c.ldx = atol(rest);
        else if (!strcmp(key, "createfail")) c.createfail = atol(rest);
        else if (!strcmp(key, "fact")) c.fact = atoi(rest);
        else if (!strcmp(key, "trans")) c.trans = atoi(rest);
        else if (!strcmp(key, "perturb")) sscanf(rest, "%ld %lf %ld", &c.pseed, &c.pprob, &c.pmaxus);
        else if (!strcmp(key, "stall")) sscanf(rest, "%ld %ld %ld", &c.stall_p, &c.stall_k, &c.stall_us);
        else if (!strcmp(key, "trace")) c.trace = atoi(rest);
        else if (!strcmp(key, "dumplu")) c.dump_lu = atoi(rest);
        else if (!strcmp(key, "timeout")) c.timeout = (unsigned) atoi(rest);
        else if (!strcmp(key, "RUN")) {
            /* the library prints statistics on stdout (PrintStat): bracket our JSON line */
            CAT2(run_case_,PRE)(&c);
            RESET();
        }
    }
    return 0;
}
