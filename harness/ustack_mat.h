/* Shared by the C14 / C17 driver-level harnesses: case parsing and matrix set-up (precision generic). */
#ifndef USTACK_MAT_H
#define USTACK_MAT_H
#include <stdio.h>
#include <stdlib.h>
#include <string.h>
#include <math.h>
#include "ustack_prec.h"

typedef struct {
    char id[128];
    char call[16];          /* gssvx | gssv | gstrf */
    int nprocs, fact, permc, balign, nrhs, refact_second, nr_format, usepr;
    long lwork;
    long fail_from;         /* fault flavours: fail request k (counted from the start of the driver call) and later */
    int n, nnz;
    int *colptr, *rowind;
    double *re, *im;
    int env[9]; int env_set[9];
    int poison_lu;          /* 1: L.Store/U.Store = NULL on entry (what an uninitialised caller has) */
    int repeat;
    int delay;              /* 1: legal but unlucky thread timing through the observation hook (threads >= 2 start late, thread 1 is slow) */
    char seq[256];          /* C17: sequence of calls */
} vcase_t;

/* reads one case (lines until END); returns 0 at EOF */
static int read_case(FILE *in, vcase_t *c)
{
    char line[1 << 16], key[64];
    int started = 0, i;
    memset(c, 0, sizeof *c);
    c->nprocs = 1; c->fact = 1; c->permc = 1; c->nrhs = 1; strcpy(c->call, "gssvx"); c->repeat = 1;
    while (fgets(line, sizeof line, in)) {
        if (sscanf(line, "%63s", key) != 1) continue;
        if (!strcmp(key, "CASE")) { sscanf(line, "%*s %127s", c->id); started = 1; }
        else if (!started) continue;
        else if (!strcmp(key, "END")) return 1;
        else if (!strcmp(key, "CALL")) sscanf(line, "%*s %15s", c->call);
        else if (!strcmp(key, "P")) sscanf(line, "%*s %d", &c->nprocs);
        else if (!strcmp(key, "LWORK")) sscanf(line, "%*s %ld", &c->lwork);
        else if (!strcmp(key, "BALIGN")) sscanf(line, "%*s %d", &c->balign);
        else if (!strcmp(key, "FACT")) sscanf(line, "%*s %d", &c->fact);
        else if (!strcmp(key, "PERMC")) sscanf(line, "%*s %d", &c->permc);
        else if (!strcmp(key, "NRHS")) sscanf(line, "%*s %d", &c->nrhs);
        else if (!strcmp(key, "NR")) sscanf(line, "%*s %d", &c->nr_format);
        else if (!strcmp(key, "FAIL")) sscanf(line, "%*s %ld", &c->fail_from);
        else if (!strcmp(key, "POISON")) sscanf(line, "%*s %d", &c->poison_lu);
        else if (!strcmp(key, "REPEAT")) sscanf(line, "%*s %d", &c->repeat);
        else if (!strcmp(key, "DELAY")) sscanf(line, "%*s %d", &c->delay);
        else if (!strcmp(key, "SEQ")) sscanf(line, "%*s %255s", c->seq);
        else if (!strcmp(key, "ENV")) { int k, v; if (sscanf(line, "%*s %d %d", &k, &v) == 2 && k >= 1 && k <= 8) { c->env[k] = v; c->env_set[k] = 1; } }
        else if (!strcmp(key, "MAT")) {
            char *p, *e;
            sscanf(line, "%*s %d %d", &c->n, &c->nnz);
            c->colptr = (int *) malloc(sizeof(int) * (c->n + 1));
            c->rowind = (int *) malloc(sizeof(int) * (c->nnz + 1));
            c->re = (double *) malloc(sizeof(double) * (c->nnz + 1));
            c->im = (double *) malloc(sizeof(double) * (c->nnz + 1));
            if (!fgets(line, sizeof line, in)) return 0;
            for (p = line, i = 0; i <= c->n; ++i) { c->colptr[i] = (int) strtol(p, &e, 10); p = e; }
            if (!fgets(line, sizeof line, in)) return 0;
            for (p = line, i = 0; i < c->nnz; ++i) { c->rowind[i] = (int) strtol(p, &e, 10); p = e; }
            if (!fgets(line, sizeof line, in)) return 0;
            for (p = line, i = 0; i < c->nnz; ++i) { c->re[i] = strtod(p, &e); p = e; c->im[i] = 0.25 * c->re[i] + 0.125 * (i % 3); }
        }
    }
    return 0;
}

static void apply_env(vcase_t *c)
{
    int k;
    for (k = 1; k <= 8; ++k) if (c->env_set[k]) verif_set_ienv(k, (int_t) c->env[k]);
}

/* library-owned copies (SUPERLU_MALLOC) of the CSC arrays, as the EXAMPLE programs do */
static void make_A(vcase_t *c, SuperMatrix *A, elt_t **a_out, int_t **asub_out, int_t **xa_out)
{
    int i;
    elt_t *a = (elt_t *) SUPERLU_MALLOC(sizeof(elt_t) * (c->nnz + 1));
    int_t *asub = (int_t *) SUPERLU_MALLOC(sizeof(int_t) * (c->nnz + 1));
    int_t *xa = (int_t *) SUPERLU_MALLOC(sizeof(int_t) * (c->n + 1));
    for (i = 0; i < c->nnz; ++i) { ELT_SET(a[i], c->re[i], c->im[i]); asub[i] = c->rowind[i]; }
    for (i = 0; i <= c->n; ++i) xa[i] = c->colptr[i];
    XF(Create_CompCol_Matrix)(A, c->n, c->n, c->nnz, a, asub, xa, c->nr_format ? SLU_NR : SLU_NC, SLU_DT, SLU_GE);
    if (a_out) *a_out = a; if (asub_out) *asub_out = asub; if (xa_out) *xa_out = xa;
}

/* b = A * xtrue with xtrue_j = 1 + j/n (real), computed in double */
static void make_rhs(vcase_t *c, elt_t *b, int nrhs)
{
    int j, k, r;
    double *br = (double *) calloc(c->n, sizeof(double)), *bi = (double *) calloc(c->n, sizeof(double));
    for (j = 0; j < c->n; ++j) {
        double x = 1.0 + (double) j / c->n;
        for (k = c->colptr[j]; k < c->colptr[j + 1]; ++k) {
            int row = c->rowind[k], col = j;
            if (c->nr_format) { row = j; col = c->rowind[k]; x = 1.0 + (double) col / c->n; }
            br[row] += c->re[k] * x;
#if VPREC >= 2
            bi[row] += c->im[k] * x;
#endif
        }
    }
    for (r = 0; r < nrhs; ++r) for (j = 0; j < c->n; ++j) ELT_SET(b[j + r * c->n], br[j], bi[j]);
    free(br); free(bi);
}

static double sol_relerr(vcase_t *c, elt_t *x)
{
    int j; double e = 0;
    for (j = 0; j < c->n; ++j) {
        double xt = 1.0 + (double) j / c->n;
        double d = hypot(ELT_RE(x[j]) - xt, ELT_IM(x[j]));
        if (!(d <= e)) e = d;         /* NaN propagates */
    }
    return e;
}
#endif
