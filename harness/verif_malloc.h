#ifndef VERIF_MALLOC_H
#define VERIF_MALLOC_H
#include <stddef.h>
#include <stdio.h>
#include <setjmp.h>
extern long verif_alloc_count, verif_fail_from, verif_fail_only, verif_live_blocks, verif_live_bytes, verif_peak_bytes;
extern int verif_abort_armed;
extern jmp_buf verif_abort_jmp;
extern char verif_abort_msg[512];
extern FILE *verif_ledger;
void *verif_malloc(size_t size);
void verif_free(void *p);
void verif_abort(char *msg);
long verif_block_id(void *p);
#endif
