/* reader_harness.c -- C side of the C20 correspondence.
 *
 * usage: reader_harness <casefile> [timeout_seconds]
 * casefile lines:
 *     read <hb|rb|mt> <s|d|c|z> <path>
 *         The real reader (?readhb / ?readrb / ?readmt) takes no FILE* argument: it reads
 *         `stdin` (and ?readhb/?readrb fclose it).  Each case therefore runs in a forked
 *         child whose descriptor 0 is the case file; the child's descriptor 1 is pointed to
 *         /dev/null while the reader runs (the readers print the title) and the result goes
 *         to the original stdout:
 *            OK m n nnz|colptr[0..n]|rowind[0..cnt)|value bit patterns (hex), cnt = nnz (hb, rb) or colptr[n] (mt)
 *     pif <s|d|c|z> <100 byte values>    ?ParseIntFormat (global symbol of ?readhb.c) on that buffer
 *     pff <s|d|c|z> <100 byte values>    ?ParseFloatFormat
 *            FMT num size
 * After every case the parent prints   END ok|exit <code>|signal <n>|timeout
 */
#include <stdio.h>
#include <stdlib.h>
#include <string.h>
#include <unistd.h>
#include <fcntl.h>
#include <signal.h>
#include <sys/types.h>
#include <sys/wait.h>
#include "slu_mt_ddefs.h"

/* precision-specific types without dragging the four headers (they clash) */
typedef struct { float r, i; } vcomplex;
typedef struct { double r, i; } vdoublecomplex;

extern void sreadhb(int_t *, int_t *, int_t *, float **, int_t **, int_t **);
extern void creadhb(int_t *, int_t *, int_t *, vcomplex **, int_t **, int_t **);
extern void zreadhb(int_t *, int_t *, int_t *, vdoublecomplex **, int_t **, int_t **);
extern void sreadrb(int_t *, int_t *, int_t *, float **, int_t **, int_t **);
extern void dreadrb(int_t *, int_t *, int_t *, double **, int_t **, int_t **);
extern void creadrb(int_t *, int_t *, int_t *, vcomplex **, int_t **, int_t **);
extern void zreadrb(int_t *, int_t *, int_t *, vdoublecomplex **, int_t **, int_t **);
extern void sreadmt(int_t *, int_t *, int_t *, float **, int_t **, int_t **);
extern void creadmt(int_t *, int_t *, int_t *, vcomplex **, int_t **, int_t **);
extern void zreadmt(int_t *, int_t *, int_t *, vdoublecomplex **, int_t **, int_t **);

extern int_t sParseIntFormat(char *, int_t *, int_t *);
extern int_t dParseIntFormat(char *, int_t *, int_t *);
extern int_t cParseIntFormat(char *, int_t *, int_t *);
extern int_t zParseIntFormat(char *, int_t *, int_t *);
extern int_t sParseFloatFormat(char *, int_t *, int_t *);
extern int_t dParseFloatFormat(char *, int_t *, int_t *);
extern int_t cParseFloatFormat(char *, int_t *, int_t *);
extern int_t zParseFloatFormat(char *, int_t *, int_t *);

typedef void (*reader_fn)(int_t *, int_t *, int_t *, void **, int_t **, int_t **);

static reader_fn pick(const char *fmt, char prec)
{
    if (!strcmp(fmt, "hb"))
        return prec == 's' ? (reader_fn) sreadhb : prec == 'd' ? (reader_fn) dreadhb
             : prec == 'c' ? (reader_fn) creadhb : (reader_fn) zreadhb;
    if (!strcmp(fmt, "rb"))
        return prec == 's' ? (reader_fn) sreadrb : prec == 'd' ? (reader_fn) dreadrb
             : prec == 'c' ? (reader_fn) creadrb : (reader_fn) zreadrb;
    return prec == 's' ? (reader_fn) sreadmt : prec == 'd' ? (reader_fn) dreadmt
         : prec == 'c' ? (reader_fn) creadmt : (reader_fn) zreadmt;
}

static void child_read(const char *fmt, char prec, const char *path, int tmo)
{
    int_t m = -777, n = -777, nnz = -777, *asub = NULL, *xa = NULL;
    void *a = NULL;
    long i, cnt, reals;
    int fd, saved, nul;
    FILE *out;

    fd = open(path, O_RDONLY);
    if (fd < 0) _exit(97);
    dup2(fd, 0); close(fd);
    fflush(stdout);
    saved = dup(1);
    out = fdopen(saved, "w");
    nul = open("/dev/null", O_WRONLY);
    dup2(nul, 1); close(nul);
    alarm(tmo);

    pick(fmt, prec)(&m, &n, &nnz, &a, &asub, &xa);

    alarm(0);
    fflush(stdout);
    cnt = strcmp(fmt, "mt") ? (long) nnz : (long) xa[n];
    fprintf(out, "OK %d %d %d|", (int) m, (int) n, (int) nnz);
    for (i = 0; i <= n; i++) fprintf(out, "%s%d", i ? " " : "", (int) xa[i]);
    fprintf(out, "|");
    for (i = 0; i < cnt; i++) fprintf(out, "%s%d", i ? " " : "", (int) asub[i]);
    fprintf(out, "|");
    reals = (prec == 'c' || prec == 'z') ? 2 * cnt : cnt;
    if (prec == 's' || prec == 'c') {
        unsigned int *u = (unsigned int *) a;
        for (i = 0; i < reals; i++) fprintf(out, "%s%08x", i ? " " : "", u[i]);
    } else {
        unsigned long long *u = (unsigned long long *) a;
        for (i = 0; i < reals; i++) fprintf(out, "%s%016llx", i ? " " : "", u[i]);
    }
    fprintf(out, "\n");
    fflush(out);
    _exit(0);
}

static void child_fmt(int isfloat, char prec, char *rest)
{
    char buf[100];
    int_t num = -777, size = -777;
    int i;
    char *tok = strtok(rest, " \n");
    for (i = 0; i < 100; i++) {
        buf[i] = tok ? (char) atoi(tok) : ' ';
        if (tok) tok = strtok(NULL, " \n");
    }
    alarm(5);
    if (!isfloat) {
        (prec == 's' ? sParseIntFormat : prec == 'd' ? dParseIntFormat
         : prec == 'c' ? cParseIntFormat : zParseIntFormat)(buf, &num, &size);
    } else {
        (prec == 's' ? sParseFloatFormat : prec == 'd' ? dParseFloatFormat
         : prec == 'c' ? cParseFloatFormat : zParseFloatFormat)(buf, &num, &size);
    }
    printf("FMT %d %d\n", (int) num, (int) size);
    fflush(stdout);
    _exit(0);
}

int main(int argc, char **argv)
{
    FILE *cf;
    char *line = NULL;
    size_t cap = 0;
    int tmo = argc > 2 ? atoi(argv[2]) : 10;

    char **lines = NULL;
    size_t nlines = 0, li;

    if (argc < 2 || !(cf = fopen(argv[1], "r"))) { fprintf(stderr, "usage: %s casefile [timeout]\n", argv[0]); return 2; }
    /* read the whole case list first and close the file: a child that leaves through exit()
       would otherwise reposition the shared descriptor and the parent would see lines twice */
    while (getline(&line, &cap, cf) > 0) {
        lines = (char **) realloc(lines, (nlines + 1) * sizeof(char *));
        lines[nlines++] = strdup(line);
    }
    fclose(cf);
    for (li = 0; li < nlines; li++) {
        line = lines[li];
        char cmd[16], fmt[16], prec[16], path[4096];
        pid_t pid;
        int st, off = 0;
        if (sscanf(line, "%15s", cmd) != 1) continue;
        fflush(stdout);
        if (!strcmp(cmd, "read")) {
            if (sscanf(line, "%*s %15s %15s %4095s", fmt, prec, path) != 3) { printf("END bad\n"); continue; }
            pid = fork();
            if (pid == 0) child_read(fmt, prec[0], path, tmo);
        } else if (!strcmp(cmd, "pif") || !strcmp(cmd, "pff")) {
            if (sscanf(line, "%*s %15s %n", prec, &off) != 1) { printf("END bad\n"); continue; }
            pid = fork();
            if (pid == 0) child_fmt(!strcmp(cmd, "pff"), prec[0], line + off);
        } else { printf("END bad\n"); continue; }
        if (pid < 0) { printf("END forkfail\n"); continue; }
        waitpid(pid, &st, 0);
        if (WIFSIGNALED(st)) {
            if (WTERMSIG(st) == SIGALRM) printf("END timeout\n");
            else printf("END signal %d\n", WTERMSIG(st));
        } else if (WEXITSTATUS(st) != 0) printf("END exit %d\n", WEXITSTATUS(st));
        else printf("END ok\n");
        fflush(stdout);
    }
    return 0;
}
