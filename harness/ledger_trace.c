/* Call-site recording for the fault flavours (C14 fault enumeration, C17 ledger).
 * Linked with  -Wl,--wrap=verif_malloc : every library request goes through __wrap_verif_malloc,
 * which records the return addresses of the request (backtrace) next to the ordinal that
 * harness/verif_malloc.c gives it.  Addresses are resolved by the check with addr2line (-no-pie link). */
#include <stdio.h>
#include <stdlib.h>
#include <string.h>
#include <execinfo.h>
#include <pthread.h>
#include "verif_malloc.h"
#include "ledger_trace.h"

#define LT_MAX 200000
#define LT_DEPTH 7
typedef struct { long id; size_t size; int failed; int nfr; void *fr[LT_DEPTH]; } lt_rec_t;
static lt_rec_t *lt_tab; static long lt_n; int ledger_trace_on = 0;
static pthread_mutex_t lt_mu = PTHREAD_MUTEX_INITIALIZER;
long ledger_first_fail_idx = -1, ledger_last_fail_idx = -1;

extern void *__real_verif_malloc(size_t size);

void ledger_trace_init(void)
{
    void *tmp[4];
    backtrace(tmp, 4);                       /* forces the lazy initialisation (may call malloc) now */
    if (!lt_tab) lt_tab = (lt_rec_t *) calloc(LT_MAX, sizeof(lt_rec_t));
    lt_n = 0; ledger_first_fail_idx = -1; ledger_last_fail_idx = -1; ledger_trace_on = 1;
}

void *__wrap_verif_malloc(size_t size)
{
    void *p = __real_verif_malloc(size);
    if (ledger_trace_on && lt_tab) {
        void *fr[LT_DEPTH + 1]; int n, i; lt_rec_t *r;
        n = backtrace(fr, LT_DEPTH + 1);
        pthread_mutex_lock(&lt_mu);
        if (lt_n < LT_MAX) {
            r = &lt_tab[lt_n];
            r->id = p ? verif_block_id(p) : 0; r->size = size; r->failed = p ? 0 : 1;
            r->nfr = n > 1 ? n - 1 : 0;
            for (i = 1; i < n; ++i) r->fr[i - 1] = fr[i];      /* skip the wrapper itself */
            if (!p && ledger_first_fail_idx < 0) ledger_first_fail_idx = lt_n;
            if (!p) ledger_last_fail_idx = lt_n;
            ++lt_n;
        }
        pthread_mutex_unlock(&lt_mu);
    }
    return p;
}

static void lt_print(FILE *f, lt_rec_t *r)
{
    int i;
    fprintf(f, " size=%zu frames=", r->size);
    for (i = 0; i < r->nfr; ++i) fprintf(f, "%s%p", i ? "," : "", r->fr[i]);
}

/* prints " size=.. frames=a,b,c" for the first failed request (or nothing) */
void ledger_trace_print_first_fail(FILE *f)
{
    if (ledger_first_fail_idx >= 0) lt_print(f, &lt_tab[ledger_first_fail_idx]);
}

/* the most recent failed request (the one whose NULL is most likely dereferenced when the process dies) */
void ledger_trace_print_last_fail(FILE *f)
{
    if (ledger_last_fail_idx >= 0) lt_print(f, &lt_tab[ledger_last_fail_idx]);
}

/* prints the record of block id (granted requests only) */
int ledger_trace_print_id(FILE *f, long id)
{
    long i;
    for (i = lt_n - 1; i >= 0; --i) if (!lt_tab[i].failed && lt_tab[i].id == id) { lt_print(f, &lt_tab[i]); return 1; }
    return 0;
}

/* The library mixes plain malloc()/free() with SUPERLU_MALLOC/SUPERLU_FREE (sp_colorder.c:89 malloc ->
 * SUPERLU_FREE in Destroy_CompCol_Permuted; intMalloc -> free() in qrnzcnt.c, cholnzcnt.c, p?memory.c:962),
 * so an interposed allocator that keeps a header cannot run a driver at all (finding C14-user-malloc-mixed).
 * The fault flavours used by C14/C17 are therefore compiled with  -Dmalloc=ledger_plain_malloc
 * -Dfree=ledger_plain_free  (compiler flags only): plain calls inside the library become ledger calls. */
void *ledger_plain_malloc(size_t size) { return verif_malloc(size); }   /* resolved to __wrap_verif_malloc by --wrap */
void ledger_plain_free(void *p) { verif_free(p); }
