/* Lock-step harness for the REAL pxgstrf_relax_snode / ParallelInit / pxgstrf_scheduler
 * (linked from the library built from the current /repo tree).
 * stdin commands (produced by extract/sched_driver.ml):
 *   INIT n psz relax e0..e(n-1)   -> "RS f:s ..." and the canonical state line
 *   CALL cur                      -> "R jcol bcol G 1" and the state line
 *   DONE p                        -> STATE(p) = DONE, state line
 *   SNAP / RESTORE                -> push / pop a copy of the whole scheduler state
 */
#include <stdio.h>
#include <stdlib.h>
#include <string.h>
#include "slu_mt_ddefs.h"

static int_t n, *etree;
static pxgstrf_shared_t sh;
static Gstat_t Gstat;
static superlumt_options_t opts;
static pxgstrf_relax_t *rlx;
static GlobalLU_t Glu;

typedef struct snap {
    int_t tasks, splits, head, tail, count;
    int_t *q, *spin, *fb; pan_status_t *ps;
    struct snap *next;
} snap_t;
static snap_t *stack = NULL;

static void print_state(void)
{
    int_t i;
    printf("T %ld H %ld %ld %ld SP %ld | ty", (long) sh.tasks_remain, (long) sh.taskq.head, (long) sh.taskq.tail,
           (long) sh.taskq.count, (long) sh.num_splits);
    for (i = 0; i < n; ++i) printf(" %d", (int) sh.pan_status[i].type);
    printf(" | st");
    for (i = 0; i < n; ++i) if (sh.pan_status[i].size >= 1) printf(" %d", (int) sh.pan_status[i].state);
    printf(" %d | sz", (int) sh.pan_status[n].state);
    for (i = 0; i <= n; ++i) printf(" %ld", (long) sh.pan_status[i].size);
    printf(" | uk");
    for (i = 0; i < n; ++i) if (sh.pan_status[i].size >= 1) printf(" %ld", (long) sh.pan_status[i].ukids);
    printf(" %ld | fb", (long) sh.pan_status[n].ukids);
    for (i = 0; i < n; ++i) if (sh.pan_status[i].size >= 1) printf(" %ld", (long) sh.fb_cols[i]);
    printf(" | q");
    for (i = 0; i < sh.taskq.tail && i < n + 8; ++i) printf(" %ld", (long) sh.taskq.queue[i]);
    printf(" | spin");
    for (i = 0; i < n; ++i) printf(" %ld", (long) sh.spin_locks[i]);
    printf("\n");
    fflush(stdout);
}

static void do_init(char *args)
{
    int_t psz, relax, i, w; char *p = args; long v; int k;
    sscanf(p, "%ld%n", &v, &k); n = v; p += k;
    sscanf(p, "%ld%n", &v, &k); psz = v; p += k;
    sscanf(p, "%ld%n", &v, &k); relax = v; p += k;
    etree = (int_t *) malloc((n + 1) * sizeof(int_t));
    for (i = 0; i < n; ++i) { sscanf(p, "%ld%n", &v, &k); etree[i] = v; p += k; }
    memset(&sh, 0, sizeof sh); memset(&Gstat, 0, sizeof Gstat); memset(&opts, 0, sizeof opts);
    w = (psz > relax ? psz : relax) + 2;
    Gstat.panel_histo = (int_t *) calloc(w + n + 2, sizeof(int_t));
    sh.Gstat = &Gstat; sh.Glu = &Glu;
    opts.etree = etree; opts.panel_size = psz; opts.relax = relax; opts.nprocs = 2;
    rlx = (pxgstrf_relax_t *) calloc(n + 2, sizeof(pxgstrf_relax_t));
    pxgstrf_relax_snode(n, &opts, rlx);
    printf("RS");
    for (i = 1; i <= rlx[0].size; ++i) printf(" %ld:%ld", (long) rlx[i].fcol, (long) rlx[i].size);
    printf("\n");
    ParallelInit(n, rlx, &opts, &sh);
    /* the C code leaves these malloc'ed cells undefined; give them the model's neutral value so that
       later prints are deterministic (they are never read before being written) */
    sh.pan_status[n].type = 0;
    print_state();
}

int main(void)
{
    static char line[1 << 20];
    while (fgets(line, sizeof line, stdin)) {
        if (!strncmp(line, "INIT ", 5)) do_init(line + 5);
        else if (!strncmp(line, "CALL ", 5)) {
            int_t cur = atol(line + 5), bcol = 0;
            pxgstrf_scheduler(0, n, etree, &cur, &bcol, &sh);
            printf("R %ld %ld G 1\n", (long) cur, (long) (cur >= 0 ? bcol : 0));
            print_state();
        } else if (!strncmp(line, "DONE ", 5)) {
            int_t p = atol(line + 5);
            sh.pan_status[p].state = DONE;
            print_state();
        } else if (!strncmp(line, "SNAP", 4)) {
            snap_t *s = (snap_t *) malloc(sizeof *s);
            s->tasks = sh.tasks_remain; s->splits = sh.num_splits;
            s->head = sh.taskq.head; s->tail = sh.taskq.tail; s->count = sh.taskq.count;
            s->q = malloc((n + 1) * sizeof(int_t)); memcpy(s->q, sh.taskq.queue, n * sizeof(int_t));
            s->spin = malloc((n + 1) * sizeof(int_t)); memcpy(s->spin, (void *) sh.spin_locks, n * sizeof(int_t));
            s->fb = malloc((n + 1) * sizeof(int_t)); memcpy(s->fb, sh.fb_cols, (n + 1) * sizeof(int_t));
            s->ps = malloc((n + 1) * sizeof(pan_status_t)); memcpy(s->ps, sh.pan_status, (n + 1) * sizeof(pan_status_t));
            s->next = stack; stack = s;
        } else if (!strncmp(line, "RESTORE", 7)) {
            snap_t *s = stack; stack = s->next;
            sh.tasks_remain = s->tasks; sh.num_splits = s->splits;
            sh.taskq.head = s->head; sh.taskq.tail = s->tail; sh.taskq.count = s->count;
            memcpy(sh.taskq.queue, s->q, n * sizeof(int_t)); memcpy((void *) sh.spin_locks, s->spin, n * sizeof(int_t));
            memcpy(sh.fb_cols, s->fb, (n + 1) * sizeof(int_t)); memcpy(sh.pan_status, s->ps, (n + 1) * sizeof(pan_status_t));
            free(s->q); free(s->spin); free(s->fb); free(s->ps); free(s);
        }
    }
    return 0;
}
