/* C14 driver-level harness: runs p?gssvx / p?gssv / p?gstrf(+?gstrs) of the current tree
 *  - with a guarded user workspace (canaries on both sides; red zones in the asan flavour),
 *  - under the failing allocator of the fault flavours (request k and all later ones fail),
 * each case in a forked child with a timeout, so that crash / hang / exit are classified.
 * Case file: see ustack_mat.h.  Output per case:
 *   PROBE <id> n= annz= nzlumax= w= relax= maxsuper= rowblk=       (inputs of the model's MemInit)
 *   REF <id> info= relerr=                                          (system-space reference run)
 *   RES <id> info= canary= inbuf= relerr= xmatch= total_needed= nalloc= failed= [site: size= frames=]
 *   END <id> status=exit:<code>|signal:<sig> diag="<first line the library wrote to stderr>"
 */
#include <unistd.h>
#include <fcntl.h>
#include <signal.h>
#include <sys/wait.h>
#include "ustack_mat.h"
#ifdef VERIF_FAULT
#include "verif_malloc.h"
#include "ledger_trace.h"
#endif

#define GUARD (1L << 20)
static FILE *out;

extern void pxgstrf_relax_snode(const int_t, superlumt_options_t *, pxgstrf_relax_t *);

#ifdef SLU_MT_VERIF
/* Timing only (observation hook of the tree): a legal schedule is made likely.
 * The thread that takes the LAST panel becomes slow (15 ms per column); the threads with pnum >= 2 enter
 * p?gstrf_thread only after some other thread has left its main loop (and has run p?gstrf_WorkFree). */
static volatile long dl_last_holder = -1, dl_ended = 0;
/* invariant of the two-ended user stack (UstackModel: used = top1 + (size - top2), top1 <= top2, used < size), observed
   inside the lock after every reservation of every thread */
static volatile long us_bad = 0, us_events = 0, us_rec[5];
static int dl_on = 0;
static void delay_cb(int ev, long pnum, long a, long b, long c, const void *p)
{
    const pxgstrf_shared_t *sh = (const pxgstrf_shared_t *) p;
    if (ev == SLU_VEV_USTACK) {
        const long *q = (const long *) p;
        ++us_events;
        if (q && !us_bad && (q[2] > q[3] || q[1] != q[2] + (q[0] - q[3]) || q[1] > q[0] || q[2] < 0 || q[3] < 0)) {
            us_bad = 1; us_rec[0] = q[0]; us_rec[1] = q[1]; us_rec[2] = q[2]; us_rec[3] = q[3]; us_rec[4] = a;
        }
        return;
    }
    if (!dl_on) return;
    if (ev == SLU_VEV_SCHED) { if (a != EMPTY && sh && sh->tasks_remain == 0 && dl_last_holder < 0) dl_last_holder = pnum; }
    else if (ev == SLU_VEV_RELEASE) { if (pnum == dl_last_holder) usleep(15000); }
    else if (ev == SLU_VEV_THREAD_END) { if (pnum != dl_last_holder) dl_ended = 1; }
    else if (ev == SLU_VEV_THREAD_BEGIN && pnum >= 2) {
        int i;
        for (i = 0; i < 300 && !dl_ended; ++i) usleep(1000);
        usleep(3000);          /* THREAD_END is raised just before p?gstrf_WorkFree */
    }
}
#endif

static int in_buf(void *p, char *w, long lw) { return p && (char *) p >= w && (char *) p < w + lw; }

static void run_case(vcase_t *c)
{
    SuperMatrix A, L, U, B, X, AC;
    superlumt_options_t opt;
    superlu_memusage_t mu;
    Gstat_t Gstat;
    int_t info = -999, info2 = 0, *perm_c, *perm_r, panel, relax, n = c->n;
    elt_t *b, *x, *xref = NULL;
    void *R, *C, *ferr, *berr;
    equed_t equed = NOEQUIL;
    unsigned char *region = NULL; char *work = NULL;
    int nrhs = c->nrhs, i, user = c->lwork > 0, ref_ok = 0;
    long start_count = 0;
    double relerr = -1; int xmatch = -1;
    /* real-valued scalars of p?gssvx: float for s,c; double for d,z */
#if VPREC == 0 || VPREC == 2
    float rpg, rcond;
#else
    double rpg, rcond;
#endif

    apply_env(c);
    panel = sp_ienv(1); relax = sp_ienv(2);
    make_A(c, &A, NULL, NULL, NULL);
    b = (elt_t *) malloc(sizeof(elt_t) * (n * nrhs + 1)); x = (elt_t *) malloc(sizeof(elt_t) * (n * nrhs + 1));
    make_rhs(c, b, nrhs);
    memcpy(x, b, sizeof(elt_t) * n * nrhs);
    XF(Create_Dense_Matrix)(&B, n, nrhs, b, n, SLU_DN, SLU_DT, SLU_GE);
    XF(Create_Dense_Matrix)(&X, n, nrhs, x, n, SLU_DN, SLU_DT, SLU_GE);
    perm_c = (int_t *) malloc(sizeof(int_t) * (n + 1)); perm_r = (int_t *) malloc(sizeof(int_t) * (n + 1));
    R = malloc(16 * (n + 1)); C = malloc(16 * (n + 1)); ferr = malloc(16 * (nrhs + 1)); berr = malloc(16 * (nrhs + 1));
    get_perm_c(c->permc, &A, perm_c);

    memset(&opt, 0, sizeof opt);
    opt.nprocs = c->nprocs; opt.fact = c->fact ? EQUILIBRATE : DOFACT; opt.trans = NOTRANS; opt.refact = NO;
    opt.panel_size = panel; opt.relax = relax; opt.usepr = NO; opt.drop_tol = 0.0; opt.diag_pivot_thresh = 1.0;
    opt.SymmetricMode = NO; opt.PrintStat = NO; opt.perm_c = perm_c; opt.perm_r = perm_r;
    opt.work = NULL; opt.lwork = 0;
    opt.etree = (int_t *) malloc(sizeof(int_t) * (n + 1));
    opt.colcnt_h = (int_t *) malloc(sizeof(int_t) * (n + 1));
    opt.part_super_h = (int_t *) malloc(sizeof(int_t) * (n + 1));

    /* ---- inputs of p?gstrf_MemInit, computed with the library's own routines ---- */
    if (!c->nr_format) {
        superlumt_options_t o2 = opt; GlobalLU_t glu; pxgstrf_relax_t *rl; int_t nzlumax;
        o2.etree = (int_t *) malloc(sizeof(int_t) * (n + 1));
        o2.colcnt_h = (int_t *) malloc(sizeof(int_t) * (n + 1));
        o2.part_super_h = (int_t *) malloc(sizeof(int_t) * (n + 1));
        memset(&glu, 0, sizeof glu);
        sp_colorder(&A, perm_c, &o2, &AC);
        rl = (pxgstrf_relax_t *) malloc(sizeof(pxgstrf_relax_t) * (n + 2));
        pxgstrf_relax_snode(n, &o2, rl);
        nzlumax = XF(PresetMap)(n, &AC, rl, &o2, &glu);
        fprintf(out, "PROBE %s n=%d annz=%d nzlumax=%ld dyn=%d w=%ld relax=%ld maxsuper=%ld rowblk=%ld f6=%ld f7=%ld f8=%ld\n",
                c->id, (int) n, c->nnz, (long) nzlumax, (int) glu.dynamic_snode_bound, (long) panel, (long) relax,
                (long) sp_ienv(3), (long) sp_ienv(4), (long) sp_ienv(6), (long) sp_ienv(7), (long) sp_ienv(8));
        fflush(out);
        Destroy_CompCol_Permuted(&AC);
    }

    /* ---- reference run in system space (only when this case does not inject failures) ---- */
    if (c->fail_from == 0 && c->lwork != 0 && !strcmp(c->call, "gssvx")) {
        SuperMatrix A2, L2, U2; elt_t *b2 = (elt_t *) malloc(sizeof(elt_t) * (n * nrhs + 1));
        superlumt_options_t o3 = opt; int_t inf3 = -999;
        int_t *pr3 = (int_t *) malloc(sizeof(int_t) * (n + 1));
        make_A(c, &A2, NULL, NULL, NULL);
        memcpy(b2, b, sizeof(elt_t) * n * nrhs);
        xref = (elt_t *) malloc(sizeof(elt_t) * (n * nrhs + 1));
        {
            SuperMatrix B2, X2; equed_t eq3 = NOEQUIL;
            XF(Create_Dense_Matrix)(&B2, n, nrhs, b2, n, SLU_DN, SLU_DT, SLU_GE);
            XF(Create_Dense_Matrix)(&X2, n, nrhs, xref, n, SLU_DN, SLU_DT, SLU_GE);
            o3.perm_r = pr3; o3.lwork = 0; o3.work = NULL;
            o3.etree = (int_t *) malloc(sizeof(int_t) * (n + 1));
            o3.colcnt_h = (int_t *) malloc(sizeof(int_t) * (n + 1));
            o3.part_super_h = (int_t *) malloc(sizeof(int_t) * (n + 1));
            PG(gssvx)(c->nprocs, &o3, &A2, perm_c, pr3, &eq3, R, C, &L2, &U2, &B2, &X2, &rpg, &rcond, ferr, berr, &mu, &inf3);
            fprintf(out, "REF %s info=%ld relerr=%.3e\n", c->id, (long) inf3, sol_relerr(c, xref));
            fflush(out);
            ref_ok = (inf3 == 0);
        }
    }

    /* ---- the workspace ---- */
    if (user) {
#ifdef VERIF_ASAN
        region = (unsigned char *) malloc(c->lwork + c->balign);     /* red zones on both sides */
        work = (char *) region + c->balign;
#else
        if (posix_memalign((void **) &region, 16, 2 * GUARD + c->lwork + c->balign + 16)) exit(3);
        memset(region, 0xA5, 2 * GUARD + c->lwork + c->balign + 16);
        work = (char *) region + GUARD + c->balign;
#endif
    }
    opt.work = work; opt.lwork = (int_t) c->lwork;
    memset(&L, 0, sizeof L); memset(&U, 0, sizeof U);       /* Store = NULL: what a caller that never factored has */
    if (!c->poison_lu) {   /* a caller that holds (empty) factors: the reads of p?gssvx after a failure stay in bounds */
        static SCPformat ls; static NCPformat us;
        ls.nzval_colend = (int_t *) calloc(n + 1, sizeof(int_t)); ls.rowind_colend = (int_t *) calloc(n + 1, sizeof(int_t));
        us.colend = (int_t *) calloc(n + 1, sizeof(int_t));
        L.Store = &ls; U.Store = &us; L.ncol = n; U.ncol = n; L.nrow = n; U.nrow = n;
    }
    mu.for_lu = mu.total_needed = -1; mu.expansions = -1;

#ifdef SLU_MT_VERIF
    dl_last_holder = -1; dl_ended = 0; us_bad = 0; us_events = 0;
    dl_on = c->delay ? 1 : 0;
    slu_mt_verif_cb = delay_cb;
#endif
#ifdef VERIF_FAULT
    ledger_trace_init();
    start_count = verif_alloc_count;
    if (c->fail_from > 0) verif_fail_from = verif_alloc_count + c->fail_from;
#endif
    if (!strcmp(c->call, "gssvx")) {
        PG(gssvx)(c->nprocs, &opt, &A, perm_c, perm_r, &equed, R, C, &L, &U, &B, &X, &rpg, &rcond, ferr, berr, &mu, &info);
    } else if (!strcmp(c->call, "gssv")) {
        PG(gssv)(c->nprocs, &A, perm_c, perm_r, &L, &U, &B, &info);
        memcpy(x, b, sizeof(elt_t) * n * nrhs);
    } else {        /* gstrf: p?gstrf_init + p?gstrf + ?gstrs + pxgstrf_finalize, as EXAMPLE/p?repeat.c */
        StatAlloc(n, c->nprocs, panel, relax, &Gstat);
        StatInit(n, c->nprocs, &Gstat);
        PG(gstrf_init)(c->nprocs, DOFACT, NOTRANS, NO, panel, relax, 1.0, NO, 0.0, perm_c, perm_r,
                       work, (int_t) c->lwork, &A, &AC, &opt, &Gstat);
        PG(gstrf)(&opt, &AC, perm_r, &L, &U, &Gstat, &info);
        if (info == 0) { XF(gstrs)(NOTRANS, &L, &U, perm_r, perm_c, &B, &Gstat, &info2); memcpy(x, b, sizeof(elt_t) * n * nrhs); }
        pxgstrf_finalize(&opt, &AC);
        StatFree(&Gstat);
    }
#ifdef VERIF_FAULT
    verif_fail_from = -1;
#endif

    fprintf(out, "RES %s info=%ld", c->id, (long) info);
#ifdef SLU_MT_VERIF
    if (us_bad) fprintf(out, " ustack=bad:size=%ld,used=%ld,top1=%ld,top2=%ld,after_request_of=%ld", us_rec[0], us_rec[1], us_rec[2], us_rec[3], us_rec[4]);
    else fprintf(out, " ustack=ok:%ld", us_events);
#endif
    if (user) {
#ifdef VERIF_ASAN
        fprintf(out, " canary=na");
#else
        long k, bad = 0, tot = 2 * GUARD + c->lwork + c->balign + 16;
        for (k = 0; k < GUARD + c->balign; ++k) if (region[k] != 0xA5) { ++bad; }
        for (k = GUARD + c->balign + c->lwork; k < tot; ++k) if (region[k] != 0xA5) { ++bad; }
        fprintf(out, " canary=%s", bad ? "bad" : "ok");
        if (bad) fprintf(out, " canary_bytes=%ld", bad);
#endif
    } else fprintf(out, " canary=na");
    if (user && info == 0 && c->lwork > 0 && L.Store && U.Store) {
        SCPformat *Ls = (SCPformat *) L.Store; NCPformat *Us = (NCPformat *) U.Store;
        void *ps[13] = { Ls->nzval, Ls->nzval_colbeg, Ls->nzval_colend, Ls->rowind, Ls->rowind_colbeg, Ls->rowind_colend,
                         Ls->col_to_sup, Ls->sup_to_colbeg, Ls->sup_to_colend, Us->nzval, Us->rowind, Us->colbeg, Us->colend };
        int okb = 1;
        for (i = 0; i < 13; ++i) if (!in_buf(ps[i], work, c->lwork)) okb = 0;
        fprintf(out, " inbuf=%s lusup=%ld ucol=%ld lsub=%ld usub=%ld", okb ? "ok" : "bad",
                (long) ((char *) Ls->nzval - work), (long) ((char *) Us->nzval - work),
                (long) ((char *) Ls->rowind - work), (long) ((char *) Us->rowind - work));
    } else fprintf(out, " inbuf=na");
    if (info == 0 && c->lwork != -1) {
        relerr = sol_relerr(c, x);
        if (xref && ref_ok) xmatch = !memcmp(x, xref, sizeof(elt_t) * n * nrhs);
    }
    fprintf(out, " relerr=%.3e xmatch=%d total_needed=%.0f", relerr, xmatch, (double) mu.total_needed);
#ifdef VERIF_FAULT
    fprintf(out, " nalloc=%ld failed=%d", verif_alloc_count - start_count, ledger_first_fail_idx >= 0);
    if (ledger_first_fail_idx >= 0) { fprintf(out, " site:"); ledger_trace_print_first_fail(out); }
#endif
    fprintf(out, "\n");
    fflush(out);
}

#ifdef VERIF_FAULT
/* when the child dies (exit / signal) the first failing site is still wanted: written from an atexit hook
   and from the fatal-signal handler */
static char cur_id[128];
static void dump_site(void)
{
    static volatile int done = 0;
    if (ledger_first_fail_idx >= 0 && !__sync_lock_test_and_set(&done, 1)) {
        char *buf = NULL; size_t len = 0; FILE *m = open_memstream(&buf, &len);
        fprintf(m, "\nSITE %s nalloc=%ld", cur_id, verif_alloc_count); ledger_trace_print_first_fail(m);
        fprintf(m, " last:"); ledger_trace_print_last_fail(m); fprintf(m, "\n");
        fclose(m);
        fflush(out);
        if (write(fileno(out), buf, len) < 0) {}
        ledger_first_fail_idx = -1;
    }
}
static void on_fatal(int sig) { dump_site(); signal(sig, SIG_DFL); raise(sig); }
#endif

int main(int argc, char **argv)
{
    vcase_t c; int devnull, tmo = getenv("VERIF_ALARM") ? atoi(getenv("VERIF_ALARM")) : 10;
    out = fdopen(dup(1), "w");
    devnull = open("/dev/null", O_WRONLY);
    dup2(devnull, 1);
    while (read_case(stdin, &c)) {
        int pfd[2]; pid_t pid; int st; char diag[400]; ssize_t len; char *nl;
        if (pipe(pfd)) return 3;
        fflush(out);
        pid = fork();
        if (pid == 0) {
            close(pfd[0]); dup2(pfd[1], 2);
            alarm(tmo);
#ifdef VERIF_FAULT
            strncpy(cur_id, c.id, sizeof cur_id - 1);
            atexit(dump_site);
            signal(SIGSEGV, on_fatal); signal(SIGBUS, on_fatal); signal(SIGFPE, on_fatal); signal(SIGALRM, on_fatal);
            signal(SIGABRT, on_fatal);
#endif
            run_case(&c);
            fflush(out);
#ifdef VERIF_FAULT
            ledger_first_fail_idx = -1;
#endif
            exit(0);
        }
        close(pfd[1]);
        len = 0; diag[0] = 0;
        { ssize_t r; char buf[4096]; while ((r = read(pfd[0], buf, sizeof buf)) > 0) { if (len < (ssize_t) sizeof diag - 1) { ssize_t k = r; if (k > (ssize_t) sizeof diag - 1 - len) k = sizeof diag - 1 - len; memcpy(diag + len, buf, k); len += k; diag[len] = 0; } } }
        close(pfd[0]);
        waitpid(pid, &st, 0);
        for (nl = diag; *nl; ++nl) if (*nl == '\n' || *nl == '"') *nl = ' ';
        if (WIFEXITED(st)) fprintf(out, "END %s status=exit:%d diag=\"%.200s\"\n", c.id, WEXITSTATUS(st), diag);
        else fprintf(out, "END %s status=signal:%d diag=\"%.200s\"\n", c.id, WTERMSIG(st), diag);
        fflush(out);
        free(c.colptr); free(c.rowind); free(c.re); free(c.im);
    }
    return 0;
}
