/* Replacement for SRC/sp_ienv.c (exactly as TESTING/ and EXAMPLE/ replace it): tuning parameters
 * become run-time settable.  Defaults = the PTHREAD defaults of SRC/sp_ienv.c.
 * Env override: VERIF_IENV="w,relax,maxsuper,rowblk,colblk,fill_lusup,fill_ucol,fill_lsub" */
#include <stdlib.h>
#include <stdio.h>
#include "slu_mt_ddefs.h"
static int_t verif_ienv_val[9] = {0, 20, 6, 200, 200, 100, -50, -50, -30};
static int verif_ienv_init = 0;
void verif_set_ienv(int ispec, int_t v) { verif_ienv_init = 1; if (ispec >= 1 && ispec <= 8) verif_ienv_val[ispec] = v; }
int_t sp_ienv(int_t ispec)
{
    if (!verif_ienv_init) {
        char *e = getenv("VERIF_IENV");
        verif_ienv_init = 1;
        if (e) { long v[8]; int k = sscanf(e, "%ld,%ld,%ld,%ld,%ld,%ld,%ld,%ld", v, v+1, v+2, v+3, v+4, v+5, v+6, v+7);
                 for (int i = 0; i < k; ++i) verif_ienv_val[i+1] = (int_t) v[i]; }
    }
    if (ispec >= 1 && ispec <= 8) return verif_ienv_val[ispec];
    { int i = 1; extern int xerbla_(char *, int *); xerbla_("sp_ienv", &i); }
    return 0;
}
