/* cleaf_harness.c -- the leaf routines of the complex condition estimator called directly (C12):
 *   i?max1_ (index of the element whose real part has the largest absolute value, first one on ties, 1-based)
 *   ??sum1_ (sum of the moduli)
 * compile with -DVP_PREC=2 (c: icmax1_, scsum1_) or 3 (z: izmax1_, dzsum1_).
 * stdin : one case per line:  n  re0 im0 re1 im1 ...   (C99 hex floats)
 * stdout: one line per case:  <index> <sum as %a>
 * The vector is placed at the END of a malloc'ed block so that a read past it is seen by ASan builds. */
#include <stdio.h>
#include <stdlib.h>
#if VP_PREC == 2
#include "slu_mt_cdefs.h"
typedef float real_t; typedef complex val_t;
extern int icmax1_(int *, complex *, int *);
extern double scsum1_(int *, complex *, int *);   /* f2c convention: REAL functions return double */
#define IMAX icmax1_
#define SUM1 scsum1_
#else
#include "slu_mt_zdefs.h"
typedef double real_t; typedef doublecomplex val_t;
extern int izmax1_(int *, doublecomplex *, int *);
extern double dzsum1_(int *, doublecomplex *, int *);
#define IMAX izmax1_
#define SUM1 dzsum1_
#endif

int main(void)
{
    long n;
    while (scanf("%ld", &n) == 1) {
        val_t *v = (val_t *) malloc(sizeof(val_t) * (n > 0 ? n : 1));
        for (long i = 0; i < n; ++i) { double re, im; if (scanf("%la %la", &re, &im) != 2) return 2; v[i].r = (real_t) re; v[i].i = (real_t) im; }
        int nn = (int) n, one = 1;
        int idx = IMAX(&nn, v, &one);
        double s = (double) SUM1(&nn, v, &one);
        printf("%d %a\n", idx, s);
        free(v);
    }
    return 0;
}
