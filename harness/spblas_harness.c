/* spblas_harness.c -- C side of the C19 correspondence (sparse BLAS kernels and format utilities).
 * Compiled once per precision (-DPREC_D default, -DPREC_S, -DPREC_C, -DPREC_Z) and linked with the
 * library built from the CURRENT /repo tree.  Reads a line/token oriented case file on stdin and
 * prints one line "R <id> <status> <n> <hex64>*" per case: every scalar is printed as the bit pattern
 * of its (exact) conversion to double (two per complex scalar).  Integers are printed in decimal.
 *
 * status: ok | abort (the library called exit through SUPERLU_ABORT) | crash<sig> | xerbla<info>
 * Each library call runs in a forked child whose outputs live in shared memory, so that an abort
 * leaves the partially updated output observable and does not kill the harness.
 *
 * xerbla_ is defined here (SRC/xerbla.c only prints): it records the reported argument number.
 */
#define _GNU_SOURCE
#include <stdio.h>
#include <stdlib.h>
#include <string.h>
#include <stdint.h>
#include <unistd.h>
#include <fcntl.h>
#include <sys/mman.h>
#include <sys/wait.h>

#if defined(PREC_S)
#include "slu_mt_sdefs.h"
typedef float scal_t;
#define NCOMP 1
#define RE(p) (*(p))
#define IM(p) (*(p))
#define SLU_DT SLU_S
#define SP_GEMV sp_sgemv
#define SP_GEMM sp_sgemm
#define SP_TRSV sp_strsv
#define LANGS slangs
#define LSOLVE slsolve
#define USOLVE susolve
#define MATVEC smatvec
#define CR2CC sCompRow_to_CompCol
#define COPYCC sCopy_CompCol_Matrix
#define COPYDN sCopy_Dense_Matrix
#define CREATE_CC sCreate_CompCol_Matrix
#define CREATE_NCP sCreate_CompCol_Permuted
#define CREATE_SCP sCreate_SuperNode_Permuted
#define CREATE_DN sCreate_Dense_Matrix
#define PGSSV psgssv
typedef float norm_t;
#elif defined(PREC_C)
#include "slu_mt_cdefs.h"
typedef complex scal_t;
#define NCOMP 2
#define SLU_DT SLU_C
#define SP_GEMV sp_cgemv
#define SP_GEMM sp_cgemm
#define SP_TRSV sp_ctrsv
#define LANGS clangs
#define LSOLVE clsolve
#define USOLVE cusolve
#define MATVEC cmatvec
#define CR2CC cCompRow_to_CompCol
#define COPYCC cCopy_CompCol_Matrix
#define COPYDN cCopy_Dense_Matrix
#define CREATE_CC cCreate_CompCol_Matrix
#define CREATE_NCP cCreate_CompCol_Permuted
#define CREATE_SCP cCreate_SuperNode_Permuted
#define CREATE_DN cCreate_Dense_Matrix
#define PGSSV pcgssv
typedef float norm_t;
#elif defined(PREC_Z)
#include "slu_mt_zdefs.h"
typedef doublecomplex scal_t;
#define NCOMP 2
#define SLU_DT SLU_Z
#define SP_GEMV sp_zgemv
#define SP_GEMM sp_zgemm
#define SP_TRSV sp_ztrsv
#define LANGS zlangs
#define LSOLVE zlsolve
#define USOLVE zusolve
#define MATVEC zmatvec
#define CR2CC zCompRow_to_CompCol
#define COPYCC zCopy_CompCol_Matrix
#define COPYDN zCopy_Dense_Matrix
#define CREATE_CC zCreate_CompCol_Matrix
#define CREATE_NCP zCreate_CompCol_Permuted
#define CREATE_SCP zCreate_SuperNode_Permuted
#define CREATE_DN zCreate_Dense_Matrix
#define PGSSV pzgssv
typedef double norm_t;
#else
#include "slu_mt_ddefs.h"
typedef double scal_t;
#define NCOMP 1
#define SLU_DT SLU_D
#define SP_GEMV sp_dgemv
#define SP_GEMM sp_dgemm
#define SP_TRSV sp_dtrsv
#define LANGS dlangs
#define LSOLVE dlsolve
#define USOLVE dusolve
#define MATVEC dmatvec
#define CR2CC dCompRow_to_CompCol
#define COPYCC dCopy_CompCol_Matrix
#define COPYDN dCopy_Dense_Matrix
#define CREATE_CC dCreate_CompCol_Matrix
#define CREATE_NCP dCreate_CompCol_Permuted
#define CREATE_SCP dCreate_SuperNode_Permuted
#define CREATE_DN dCreate_Dense_Matrix
#define PGSSV pdgssv
typedef double norm_t;
#endif

extern void LSOLVE(int_t, int_t, scal_t *, scal_t *);
extern void USOLVE(int_t, int_t, scal_t *, scal_t *);
extern void MATVEC(int_t, int_t, int_t, scal_t *, scal_t *, scal_t *);
extern norm_t LANGS(char *, SuperMatrix *);
extern void verif_set_ienv(int ispec, int_t v);

/* ---------------------------------------------------------------- shared state (survives abort) */
struct shared { volatile int xerbla_info; volatile int xerbla_cnt; volatile double val; volatile int_t ival[8]; };
static struct shared *SH;
static void *shm(size_t n)
{
    void *p = mmap(NULL, n ? n : 1, PROT_READ | PROT_WRITE, MAP_SHARED | MAP_ANONYMOUS, -1, 0);
    if (p == MAP_FAILED) { perror("mmap"); exit(3); }
    return p;
}
int xerbla_(char *srname, int *info) { if (!SH->xerbla_cnt) SH->xerbla_info = *info; SH->xerbla_cnt++; return 0; }

static int forked(void (*fn)(void))
{
    int st; pid_t pid;
    fflush(stdout);
    SH->xerbla_info = 0; SH->xerbla_cnt = 0;
    pid = fork();
    if (pid < 0) { perror("fork"); exit(3); }
    if (pid == 0) {
        int fd = open("/dev/null", O_WRONLY);
        dup2(fd, 1); dup2(fd, 2);
        fn();
        _exit(0);
    }
    waitpid(pid, &st, 0);
    if (WIFEXITED(st)) return WEXITSTATUS(st);
    return 1000 + WTERMSIG(st);
}
static void pr_status(const char *id, int st)
{
    if (st == 0 && SH->xerbla_cnt) printf("R %s xerbla%d", id, SH->xerbla_info);
    else if (st == 0) printf("R %s ok", id);
    else if (st == 255) printf("R %s abort", id);
    else printf("R %s crash%d", id, st);
}

/* ---------------------------------------------------------------- token input */
static long rd_long(void) { long v; if (scanf("%ld", &v) != 1) { fprintf(stderr, "bad int\n"); exit(2); } return v; }
static double rd_dbl(void) { char b[128]; if (scanf("%127s", b) != 1) { fprintf(stderr, "bad dbl\n"); exit(2); } return strtod(b, NULL); }
static void rd_word(char *b) { if (scanf("%63s", b) != 1) { fprintf(stderr, "bad word\n"); exit(2); } }
static scal_t rd_scal(void)
{
    scal_t s;
#if NCOMP == 1
    s = (scal_t) rd_dbl();
#else
    s.r = rd_dbl(); s.i = rd_dbl();
#endif
    return s;
}
static scal_t *rd_vec(long n, int shared)
{
    scal_t *v = shared ? shm((n + 1) * sizeof(scal_t)) : malloc((n + 1) * sizeof(scal_t));
    for (long i = 0; i < n; ++i) v[i] = rd_scal();
    return v;
}
static int_t *rd_ivec(long n, int shared)
{
    int_t *v = shared ? shm((n + 1) * sizeof(int_t)) : malloc((n + 1) * sizeof(int_t));
    for (long i = 0; i < n; ++i) v[i] = (int_t) rd_long();
    return v;
}
static void pr_d(double d) { uint64_t u; memcpy(&u, &d, 8); printf(" %016llx", (unsigned long long) u); }
static void pr_vec(const scal_t *v, long n)
{
    printf(" %ld", n);
    for (long i = 0; i < n; ++i) {
#if NCOMP == 1
        pr_d((double) v[i]);
#else
        pr_d((double) v[i].r); pr_d((double) v[i].i);
#endif
    }
}
static void pr_ivec(const int_t *v, long n)
{
    printf(" %ld", n);
    for (long i = 0; i < n; ++i) printf(" %ld", (long) v[i]);
}

/* ---------------------------------------------------------------- sparse matrix input
 * fmt NC : colptr[n+1];   fmt NCP: colbeg[n] colend[n] (Stype SLU_NCP, NCPformat store) */
static void rd_sparse(SuperMatrix *A)
{
    char fmt[64];
    long m, n, nnz, lenv;
    rd_word(fmt);
    m = rd_long(); n = rd_long(); nnz = rd_long(); lenv = rd_long();
    if (!strcmp(fmt, "NC")) {
        int_t *colptr = rd_ivec(n + 1, 0);
        int_t *rowind = rd_ivec(lenv, 0);
        scal_t *val = rd_vec(lenv, 0);
        CREATE_CC(A, m, n, nnz, val, rowind, colptr, SLU_NC, SLU_DT, SLU_GE);
    } else {
        int_t *colbeg = rd_ivec(n, 0);
        int_t *colend = rd_ivec(n, 0);
        int_t *rowind = rd_ivec(lenv, 0);
        scal_t *val = rd_vec(lenv, 0);
        CREATE_NCP(A, m, n, nnz, val, rowind, colbeg, colend, SLU_NCP, SLU_DT, SLU_GE);
    }
}

/* ---------------------------------------------------------------- commands */
static char g_tr[64], g_uplo[64], g_diag[64], g_norm[64];
static scal_t g_alpha, g_beta, *g_x, *g_y, *g_M;
static long g_xo, g_yo, g_incx, g_incy, g_n, g_ldb, g_ldc, g_ldm, g_nrow, g_ncol, g_mo, g_ro, g_vo;
static SuperMatrix g_A, g_L, g_U, g_B;
static int_t g_info;

static void do_gemv(void) { SP_GEMV(g_tr, g_alpha, &g_A, g_x + g_xo, g_incx, g_beta, g_y + g_yo, g_incy); }
static void do_gemm(void) { SP_GEMM(g_tr, g_A.nrow, g_n, g_A.ncol, g_alpha, &g_A, g_x, g_ldb, g_beta, g_y, g_ldc); }
static void do_lsolve(void) { LSOLVE(g_ldm, g_ncol, g_M + g_mo, g_y + g_ro); }
static void do_usolve(void) { USOLVE(g_ldm, g_ncol, g_M + g_mo, g_y + g_ro); }
static void do_matvec(void) { MATVEC(g_ldm, g_nrow, g_ncol, g_M + g_mo, g_x + g_vo, g_y + g_ro); }
static void do_langs(void) { SH->val = (double) LANGS(g_norm, &g_A); }
static void do_trsv(void) { int_t info = 0; SP_TRSV(g_uplo, g_tr, g_diag, &g_L, &g_U, g_y, &info); SH->ival[0] = info; }

static scal_t *c_at; static int_t *c_rowind, *c_colptr;   /* cr2cc outputs, copied to shared memory */
static long c_m, c_n, c_nnz; static scal_t *c_a; static int_t *c_colind, *c_rowptr;
static scal_t *s_at; static int_t *s_rowind, *s_colptr;
static void do_cr2cc(void)
{
    CR2CC(c_m, c_n, c_nnz, c_a, c_colind, c_rowptr, &c_at, &c_rowind, &c_colptr);
    memcpy(s_at, c_at, c_nnz * sizeof(scal_t));
    memcpy(s_rowind, c_rowind, c_nnz * sizeof(int_t));
    memcpy(s_colptr, c_colptr, (c_n + 1) * sizeof(int_t));
}
static SuperMatrix g_Bm;
static void do_copy(void) { COPYCC(&g_A, &g_Bm); SH->ival[0] = g_Bm.nrow; SH->ival[1] = g_Bm.ncol;
                            SH->ival[2] = ((NCformat *) g_Bm.Store)->nnz; SH->ival[3] = g_Bm.Stype;
                            SH->ival[4] = g_Bm.Dtype; SH->ival[5] = g_Bm.Mtype; }

static long g_dm, g_dn, g_dldx, g_dldy;
static void do_dncopy(void) { COPYDN(g_dm, g_dn, g_x, g_dldx, g_y, g_dldy); }

int main(void)
{
    char cmd[64], id[64];
    SH = shm(sizeof *SH);
    setvbuf(stdout, NULL, _IOFBF, 1 << 20);
    while (scanf("%63s", cmd) == 1) {
        rd_word(id);
        if (!strcmp(cmd, "gemv")) {
            /* gemv id trans alpha beta xo incx yo incy <sparse> lenx x.. leny y.. */
            long lx, ly; int st;
            rd_word(g_tr); g_alpha = rd_scal(); g_beta = rd_scal();
            g_xo = rd_long(); g_incx = rd_long(); g_yo = rd_long(); g_incy = rd_long();
            rd_sparse(&g_A);
            lx = rd_long(); g_x = rd_vec(lx, 0);
            ly = rd_long(); g_y = rd_vec(ly, 1);
            st = forked(do_gemv);
            pr_status(id, st); pr_vec(g_y, ly); printf("\n");
        } else if (!strcmp(cmd, "gemm")) {
            /* gemm id trans n alpha beta ldb ldc <sparse> lenb b.. lenc c.. */
            long lb, lc; int st;
            rd_word(g_tr); g_n = rd_long(); g_alpha = rd_scal(); g_beta = rd_scal();
            g_ldb = rd_long(); g_ldc = rd_long();
            rd_sparse(&g_A);
            lb = rd_long(); g_x = rd_vec(lb, 0);
            lc = rd_long(); g_y = rd_vec(lc, 1);
            st = forked(do_gemm);
            pr_status(id, st); pr_vec(g_y, lc); printf("\n");
        } else if (!strcmp(cmd, "lsolve") || !strcmp(cmd, "usolve")) {
            /* lsolve id ldm ncol mo ro lenM M.. lenr rhs.. */
            long lm, lr; int st;
            g_ldm = rd_long(); g_ncol = rd_long(); g_mo = rd_long(); g_ro = rd_long();
            lm = rd_long(); g_M = rd_vec(lm, 0);
            lr = rd_long(); g_y = rd_vec(lr, 1);
            st = forked(cmd[0] == 'l' ? do_lsolve : do_usolve);
            pr_status(id, st); pr_vec(g_y, lr); printf("\n");
        } else if (!strcmp(cmd, "matvec")) {
            /* matvec id ldm nrow ncol mo vo xo lenM M.. lenv vec.. lenx Mxvec.. */
            long lm, lv, lr; int st;
            g_ldm = rd_long(); g_nrow = rd_long(); g_ncol = rd_long(); g_mo = rd_long(); g_vo = rd_long(); g_ro = rd_long();
            lm = rd_long(); g_M = rd_vec(lm, 0);
            lv = rd_long(); g_x = rd_vec(lv, 0);
            lr = rd_long(); g_y = rd_vec(lr, 1);
            st = forked(do_matvec);
            pr_status(id, st); pr_vec(g_y, lr); printf("\n");
        } else if (!strcmp(cmd, "langs")) {
            /* langs id norm <sparse> */
            int st;
            rd_word(g_norm); rd_sparse(&g_A);
            SH->val = 0.0;
            st = forked(do_langs);
            pr_status(id, st); printf(" 1"); pr_d(SH->val); printf("\n");
        } else if (!strcmp(cmd, "cr2cc")) {
            /* cr2cc id m n nnz a[nnz] colind[nnz] rowptr[m+1] */
            int st;
            c_m = rd_long(); c_n = rd_long(); c_nnz = rd_long();
            c_a = rd_vec(c_nnz, 0); c_colind = rd_ivec(c_nnz, 0); c_rowptr = rd_ivec(c_m + 1, 0);
            s_at = shm((c_nnz + 1) * sizeof(scal_t)); s_rowind = shm((c_nnz + 1) * sizeof(int_t));
            s_colptr = shm((c_n + 2) * sizeof(int_t));
            st = forked(do_cr2cc);
            pr_status(id, st); pr_vec(s_at, c_nnz); pr_ivec(s_rowind, c_nnz); pr_ivec(s_colptr, c_n + 1); printf("\n");
        } else if (!strcmp(cmd, "copy")) {
            /* copy id <sparse NC A>  lenBval lenBcol Bval.. Browind.. Bcolptr..   (B pre-filled) */
            int st; long lbv, lbc; scal_t *bv; int_t *bri, *bcp;
            rd_sparse(&g_A);
            lbv = rd_long(); lbc = rd_long();
            bv = rd_vec(lbv, 1); bri = rd_ivec(lbv, 1); bcp = rd_ivec(lbc, 1);
            CREATE_CC(&g_Bm, -7, -7, -7, bv, bri, bcp, SLU_NR, (SLU_DT + 1) % 4, SLU_TRU);
            { NCformat *s = shm(sizeof(NCformat)); *s = *(NCformat *) g_Bm.Store; g_Bm.Store = s; }
            st = forked(do_copy);
            pr_status(id, st);
            printf(" %ld %ld %ld %ld %ld %ld", (long) SH->ival[0], (long) SH->ival[1], (long) SH->ival[2],
                   (long) SH->ival[3], (long) SH->ival[4], (long) SH->ival[5]);
            pr_vec(bv, lbv); pr_ivec(bri, lbv); pr_ivec(bcp, lbc); printf("\n");
        } else if (!strcmp(cmd, "dncopy")) {
            /* dncopy id M N ldx ldy lenX X.. lenY Y..  (Y pre-filled)  ->  R id st lenY Y.. */
            int st; long lx, ly;
            g_dm = rd_long(); g_dn = rd_long(); g_dldx = rd_long(); g_dldy = rd_long();
            lx = rd_long(); g_x = rd_vec(lx, 0);
            ly = rd_long(); g_y = rd_vec(ly, 1);
            st = forked(do_dncopy);
            pr_status(id, st); pr_vec(g_y, ly); printf("\n");
        } else if (!strcmp(cmd, "factor")) {
            /* factor id nprocs permc panel relax maxsuper n nnz colptr[n+1] rowind[nnz] val[nnz]
               -> R id ok info n nsuper | Lval | nzbeg nzend | rowind | ribeg riend | col2sup supbeg supend |
                  Uval | urowind ucolbeg ucolend | perm_r perm_c                                        */
            long nprocs = rd_long(), permc = rd_long(), panel = rd_long(), relax = rd_long(), maxsup = rd_long();
            long n = rd_long(), nnz = rd_long();
            int_t *colptr = rd_ivec(n + 1, 0), *rowind = rd_ivec(nnz, 0);
            scal_t *val = rd_vec(nnz, 0);
            scal_t *rhs = calloc(n + 1, sizeof(scal_t));
            int_t *perm_r = malloc((n + 1) * sizeof(int_t)), *perm_c = malloc((n + 1) * sizeof(int_t));
            SuperMatrix A, L, U, B; int_t info = 0;
            verif_set_ienv(1, panel); verif_set_ienv(2, relax); verif_set_ienv(3, maxsup);
            CREATE_CC(&A, n, n, nnz, val, rowind, colptr, SLU_NC, SLU_DT, SLU_GE);
            CREATE_DN(&B, n, 1, rhs, n, SLU_DN, SLU_DT, SLU_GE);
            fflush(stdout);
            { int so = dup(1), fd = open("/dev/null", O_WRONLY); dup2(fd, 1);
              get_perm_c(permc, &A, perm_c);
              PGSSV(nprocs, &A, perm_c, perm_r, &L, &U, &B, &info);
              fflush(stdout); dup2(so, 1); close(so); close(fd); }
            printf("R %s ok %ld %ld", id, (long) info, n);
            if (info == 0) {
                SCPformat *Ls = L.Store; NCPformat *Us = U.Store;
                long ns = Ls->nsuper, lenv = 0, lenr = 0, lenu = 0, j;
                for (j = 0; j < n; ++j) { if (Ls->nzval_colend[j] > lenv) lenv = Ls->nzval_colend[j];
                                          if (Us->colend[j] > lenu) lenu = Us->colend[j]; }
                for (j = 0; j <= ns; ++j) { long f = Ls->sup_to_colbeg[j]; if (Ls->rowind_colend[f] > lenr) lenr = Ls->rowind_colend[f]; }
                printf(" %ld", ns);
                pr_vec(Ls->nzval, lenv); pr_ivec(Ls->nzval_colbeg, n); pr_ivec(Ls->nzval_colend, n);
                pr_ivec(Ls->rowind, lenr);
                /* rowind_colbeg/colend are only meaningful at the first column of a supernode */
                { int_t *b = calloc(n + 1, sizeof(int_t)), *e = calloc(n + 1, sizeof(int_t));
                  for (j = 0; j <= ns; ++j) { long f = Ls->sup_to_colbeg[j]; b[f] = Ls->rowind_colbeg[f]; e[f] = Ls->rowind_colend[f]; }
                  pr_ivec(b, n); pr_ivec(e, n); }
                pr_ivec(Ls->col_to_sup, n + 1); pr_ivec(Ls->sup_to_colbeg, ns + 1); pr_ivec(Ls->sup_to_colend, ns + 1);
                pr_vec(Us->nzval, lenu); pr_ivec(Us->rowind, lenu); pr_ivec(Us->colbeg, n); pr_ivec(Us->colend, n);
                pr_ivec(perm_r, n); pr_ivec(perm_c, n);
            }
            printf("\n");
        } else if (!strcmp(cmd, "trsv")) {
            /* trsv id uplo trans diag n nsuper lenLval Lval.. nzbeg[n] nzend[n] lenri rowind.. ribeg[n] riend[n]
                    col2sup[n+1] supbeg[nsuper+1] supend[nsuper+1] lenU Uval.. urowind.. ucolbeg[n] ucolend[n] lenx x.. */
            long n, ns, lenv, lenr, lenu, lx; int st;
            scal_t *Lval, *Uval; int_t *nzb, *nze, *ri, *rb, *re, *c2s, *sb, *se, *uri, *ucb, *uce;
            rd_word(g_uplo); rd_word(g_tr); rd_word(g_diag);
            n = rd_long(); ns = rd_long();
            lenv = rd_long(); Lval = rd_vec(lenv, 0); nzb = rd_ivec(n, 0); nze = rd_ivec(n, 0);
            lenr = rd_long(); ri = rd_ivec(lenr, 0); rb = rd_ivec(n, 0); re = rd_ivec(n, 0);
            c2s = rd_ivec(n + 1, 0); sb = rd_ivec(ns + 1, 0); se = rd_ivec(ns + 1, 0);
            lenu = rd_long(); Uval = rd_vec(lenu, 0); uri = rd_ivec(lenu, 0); ucb = rd_ivec(n, 0); uce = rd_ivec(n, 0);
            lx = rd_long(); g_y = rd_vec(lx, 1);
            c2s[n] = ns;
            CREATE_SCP(&g_L, n, n, lenv, Lval, nzb, nze, ri, rb, re, c2s, sb, se, SLU_SCP, SLU_DT, SLU_TRLU);
            CREATE_NCP(&g_U, n, n, lenu, Uval, uri, ucb, uce, SLU_NCP, SLU_DT, SLU_TRU);
            SH->ival[0] = 0;
            st = forked(do_trsv);
            pr_status(id, st); printf(" %ld", (long) ((SCPformat *) g_L.Store)->nsuper); pr_vec(g_y, lx); printf("\n");
        } else {
            fprintf(stderr, "unknown command %s\n", cmd);
            return 2;
        }
    }
    fflush(stdout);
    return 0;
}
