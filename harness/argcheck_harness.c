/* argcheck_harness.c (property C15): calls the REAL p?gssv, p?gssvx, ?gstrs, ?gsrfs, ?gscon, ?gsequ,
 * sp_?trsv, sp_?gemv (? = s,d,c,z) of the library built from the current tree with arguments
 * described by one line per case
 *     <id> <routine> <prec> key=value ...
 * (the same lines the extracted model reads) and prints per case
 *     R <id> info=<i> xn=<#xerbla calls> x0=<name>:<pos> own=<#calls with the routine's own name>
 *            chg=<changed regions|-> equed=<e> optperm=<0|1> dalloc=<n> dlive=<n> status=<ok|abort|crash:sig>
 * - xerbla_ is defined here (the archive member xerbla.o is then never pulled in) and records
 *   routine name + position;
 * - every case runs in a forked child, so a crash/abort/hang of one case is an observation,
 *   not the end of the run, and no case sees state left by another one;
 * - regions = every byte reachable from the arguments (headers, stores, arrays), hashed before/after;
 * - heap balance from harness/verif_malloc.c (library flavour `fault`).
 * The file includes itself four times to instantiate the per-precision part. */
#ifndef ARGCHECK_BODY
#include <stdio.h>
#include <stdlib.h>
#include <string.h>
#include <math.h>
#include <unistd.h>
#include <signal.h>
#include <sys/wait.h>
#include "slu_mt_ddefs.h"
#include "slu_scomplex.h"
#include "slu_dcomplex.h"
#include "verif_malloc.h"

/* ------------------------------------------------------------------ xerbla_ capture */
#define XE_MAX 4
static int xe_count = 0, xe_pos[XE_MAX];
static char xe_name[XE_MAX][32];
int xerbla_(char *srname, int *info)
{
    if (xe_count < XE_MAX) {
        int k;
        strncpy(xe_name[xe_count], srname, 31); xe_name[xe_count][31] = 0;
        for (k = 0; xe_name[xe_count][k]; ++k) if (xe_name[xe_count][k] == ' ') xe_name[xe_count][k] = '~';
        xe_pos[xe_count] = *info;
    }
    xe_count++;
    return 0;
}

/* ------------------------------------------------------------------ case record */
#define MAXKV 96
static char *kv_key[MAXKV], *kv_val[MAXKV];
static int nkv;
static const char *gets_(const char *k)
{
    int i;
    for (i = 0; i < nkv; ++i) if (!strcmp(kv_key[i], k)) return kv_val[i];
    fprintf(stderr, "argcheck_harness: missing key %s\n", k); exit(3);
}
static int has_(const char *k) { int i; for (i = 0; i < nkv; ++i) if (!strcmp(kv_key[i], k)) return 1; return 0; }
static long geti(const char *k) { return strtol(gets_(k), NULL, 10); }
static long getm(const char *m, const char *f) { char b[32]; snprintf(b, sizeof b, "%s.%s", m, f); return geti(b); }
static int hasm(const char *m, const char *f) { char b[32]; snprintf(b, sizeof b, "%s.%s", m, f); return has_(b); }

static double tok_int(const char *s, const char *e)   /* "123", "-5", "2^k", "-2^k" */
{
    char b[64]; size_t n = (size_t)(e - s); double sg = 1.0; const char *p;
    if (n >= sizeof b) n = sizeof b - 1;
    memcpy(b, s, n); b[n] = 0; p = b;
    if (*p == '-') { sg = -1.0; ++p; }
    if (p[0] == '2' && p[1] == '^') return sg * ldexp(1.0, atoi(p + 2));
    return sg * strtod(p, NULL);
}
/* k-th element of "a/b,c,2^k,..." */
static double list_get(const char *s, int k, double dflt)
{
    const char *p = s, *e, *sl;
    int i = 0;
    if (!strcmp(s, "-")) return dflt;
    while (*p) {
        e = strchr(p, ','); if (!e) e = p + strlen(p);
        if (i == k) {
            sl = memchr(p, '/', (size_t)(e - p));
            if (sl) return tok_int(p, sl) / tok_int(sl + 1, e);
            return tok_int(p, e);
        }
        if (!*e) break;
        p = e + 1; ++i;
    }
    return dflt;
}

static void apply_mat(SuperMatrix *M, const char *m)
{
    M->Stype = (Stype_t) getm(m, "st"); M->Dtype = (Dtype_t) getm(m, "dt"); M->Mtype = (Mtype_t) getm(m, "mt");
    M->nrow = (int_t) getm(m, "nr"); M->ncol = (int_t) getm(m, "nc");
}

/* ------------------------------------------------------------------ regions */
#define MAXCH 64
static struct { const char *name; const void *p; size_t len; } chunk[MAXCH];
static int nchunk;
static void reg(const char *name, const void *p, size_t len)
{
    if (nchunk < MAXCH && p && len) { chunk[nchunk].name = name; chunk[nchunk].p = p; chunk[nchunk].len = len; nchunk++; }
}
static unsigned long long hash_region(const char *name)
{
    unsigned long long h = 1469598103934665603ULL; int i; size_t k;
    for (i = 0; i < nchunk; ++i) if (!strcmp(chunk[i].name, name)) {
        const unsigned char *b = chunk[i].p;
        for (k = 0; k < chunk[i].len; ++k) { h ^= b[k]; h *= 1099511628211ULL; }
        h ^= 0xff; h *= 1099511628211ULL;
    }
    return h;
}
static const char *REGIONS[] = {"A", "B", "X", "L", "U", "perm_c", "perm_r", "R", "C", "x", "y", "opt", "equed", "out", "Gstat"};
#define NREG ((int)(sizeof(REGIONS)/sizeof(REGIONS[0])))
static unsigned long long hbefore[NREG];
static long alloc0, live0;
static void snap_before(void)
{
    int i; for (i = 0; i < NREG; ++i) hbefore[i] = hash_region(REGIONS[i]);
    xe_count = 0; alloc0 = verif_alloc_count; live0 = verif_live_blocks;
}
static void report(const char *id, const char *own, long info, long equed, int optperm, const char *status)
{
    int i, first = 1, nown = 0;
    long dalloc = verif_alloc_count - alloc0, dlive = verif_live_blocks - live0;
    for (i = 0; i < xe_count && i < XE_MAX; ++i) if (!strcmp(xe_name[i], own)) nown++;
    printf("R %s info=%ld xn=%d x0=%s:%d own=%d chg=", id, info, xe_count,
           xe_count ? xe_name[0] : "-", xe_count ? xe_pos[0] : 0, nown);
    for (i = 0; i < NREG; ++i) if (hash_region(REGIONS[i]) != hbefore[i]) { printf("%s%s", first ? "" : ",", REGIONS[i]); first = 0; }
    if (first) printf("-");
    printf(" equed=%ld optperm=%d dalloc=%ld dlive=%ld status=%s\n", equed, optperm, dalloc, dlive, status);
    fflush(stdout);
}

static void reg_nc(const char *name, SuperMatrix *M, size_t esz, int n)      /* NC / NR store */
{
    NCformat *s = M->Store;
    reg(name, M, sizeof *M); reg(name, s, sizeof *s);
    reg(name, s->colptr, (size_t)(n + 1) * sizeof(int_t));
    reg(name, s->rowind, (size_t) s->colptr[n] * sizeof(int_t));
    reg(name, s->nzval, (size_t) s->colptr[n] * esz);
}
static void reg_dn(const char *name, SuperMatrix *M, size_t esz, int ldphys, int ncphys)
{
    DNformat *s = M->Store;
    reg(name, M, sizeof *M); reg(name, s, sizeof *s); reg(name, s->nzval, (size_t) ldphys * ncphys * esz);
}
static void reg_scp(const char *name, SuperMatrix *M, size_t esz, int n)     /* valid L factor */
{
    SCPformat *s = M->Store; int j; int_t mv = 0, mr = 0;
    reg(name, M, sizeof *M); reg(name, s, sizeof *s);
    for (j = 0; j < n; ++j) { if (s->nzval_colend[j] > mv) mv = s->nzval_colend[j]; if (s->rowind_colend[j] > mr) mr = s->rowind_colend[j]; }
    reg(name, s->nzval, (size_t) mv * esz); reg(name, s->rowind, (size_t) mr * sizeof(int_t));
    reg(name, s->nzval_colbeg, n * sizeof(int_t)); reg(name, s->nzval_colend, n * sizeof(int_t));
    reg(name, s->rowind_colbeg, n * sizeof(int_t)); reg(name, s->rowind_colend, n * sizeof(int_t));
    reg(name, s->col_to_sup, n * sizeof(int_t));
    reg(name, s->sup_to_colbeg, (size_t)(s->nsuper + 1) * sizeof(int_t));
    reg(name, s->sup_to_colend, (size_t)(s->nsuper + 1) * sizeof(int_t));
}
static void reg_ncp(const char *name, SuperMatrix *M, size_t esz, int n)     /* valid U factor */
{
    NCPformat *s = M->Store; int j; int_t mv = 0;
    reg(name, M, sizeof *M); reg(name, s, sizeof *s);
    for (j = 0; j < n; ++j) if (s->colend[j] > mv) mv = s->colend[j];
    reg(name, s->nzval, (size_t) mv * esz); reg(name, s->rowind, (size_t) mv * sizeof(int_t));
    reg(name, s->colbeg, n * sizeof(int_t)); reg(name, s->colend, n * sizeof(int_t));
}

#define NP 3      /* physical order of the prepared system */
#define NRHS 2    /* physical number of right-hand sides */
#define CAT_(a,b) a##b
#define CAT(a,b) CAT_(a,b)
#define CAT3_(a,b,c) a##b##c
#define CAT3(a,b,c) CAT3_(a,b,c)
#define STR_(x) #x
#define CAT_STR(x) STR_(x)

#define ARGCHECK_BODY
/* ---- s ---- */
#define PX s
#define RT float
#define ET float
#define CPLX 0
#define DTYPE SLU_S
#include "argcheck_harness.c"
#undef PX
#undef RT
#undef ET
#undef CPLX
#undef DTYPE
/* ---- d ---- */
#define PX d
#define RT double
#define ET double
#define CPLX 0
#define DTYPE SLU_D
#include "argcheck_harness.c"
#undef PX
#undef RT
#undef ET
#undef CPLX
#undef DTYPE
/* ---- c ---- */
#define PX c
#define RT float
#define ET complex
#define CPLX 1
#define DTYPE SLU_C
#include "argcheck_harness.c"
#undef PX
#undef RT
#undef ET
#undef CPLX
#undef DTYPE
/* ---- z ---- */
#define PX z
#define RT double
#define ET doublecomplex
#define CPLX 1
#define DTYPE SLU_Z
#include "argcheck_harness.c"
#undef PX
#undef RT
#undef ET
#undef CPLX
#undef DTYPE

int main(int argc, char **argv)
{
    static char line[8192];
    int nofork = (argc > 1 && !strcmp(argv[1], "--nofork"));
    if (s_setup() || d_setup() || c_setup() || z_setup()) { printf("SETUP-FAILED\n"); return 2; }
    printf("SETUP-OK\n"); fflush(stdout);
    while (fgets(line, sizeof line, stdin)) {
        char *tok, *id, *rt, *pr, *save;
        pid_t pid; int st;
        nkv = 0;
        id = strtok_r(line, " \t\n", &save); if (!id) continue;
        rt = strtok_r(NULL, " \t\n", &save); pr = strtok_r(NULL, " \t\n", &save);
        if (!rt || !pr) continue;
        while ((tok = strtok_r(NULL, " \t\n", &save)) && nkv < MAXKV) {
            char *eq = strchr(tok, '='); if (!eq) continue;
            *eq = 0; kv_key[nkv] = tok; kv_val[nkv] = eq + 1; nkv++;
        }
        fflush(stdout);
        pid = nofork ? 0 : fork();
        if (pid == 0) {
            alarm(20);
            nchunk = 0;
            switch (pr[0]) {
            case 's': s_run(id, rt); break;
            case 'd': d_run(id, rt); break;
            case 'c': c_run(id, rt); break;
            case 'z': z_run(id, rt); break;
            default: printf("R %s status=badprec\n", id);
            }
            fflush(stdout);
            if (!nofork) _exit(0);
        } else if (pid > 0) {
            waitpid(pid, &st, 0);
            if (WIFSIGNALED(st)) { printf("R %s status=crash:%d\n", id, WTERMSIG(st)); fflush(stdout); }
            else if (WIFEXITED(st) && WEXITSTATUS(st) != 0) { printf("R %s status=exit:%d\n", id, WEXITSTATUS(st)); fflush(stdout); }
        } else { printf("R %s status=forkfail\n", id); }
    }
    return 0;
}

#else  /* =================================================================== per-precision part */
#define T(x) CAT3(PX, _, x)
#define FN(name) CAT(PX, name)            /* dgstrs */
#define PFN(name) CAT3(p, PX, name)       /* pdgssv */
#define SPFN(name) CAT3(sp_, PX, name)    /* sp_dtrsv */

#if CPLX
#define ESET(e, v) ((e).r = (RT)(v), (e).i = 0)
#else
#define ESET(e, v) ((e) = (RT)(v))
#endif

extern void PFN(gssv)(int_t, SuperMatrix *, int_t *, int_t *, SuperMatrix *, SuperMatrix *, SuperMatrix *, int_t *);
extern void PFN(gssvx)(int_t, superlumt_options_t *, SuperMatrix *, int_t *, int_t *, equed_t *, RT *, RT *,
                       SuperMatrix *, SuperMatrix *, SuperMatrix *, SuperMatrix *, RT *, RT *, RT *, RT *,
                       superlu_memusage_t *, int_t *);
extern void FN(gstrs)(trans_t, SuperMatrix *, SuperMatrix *, int_t *, int_t *, SuperMatrix *, Gstat_t *, int_t *);
extern void FN(gsrfs)(trans_t, SuperMatrix *, SuperMatrix *, SuperMatrix *, int_t *, int_t *, equed_t, RT *, RT *,
                      SuperMatrix *, SuperMatrix *, RT *, RT *, Gstat_t *, int_t *);
extern void FN(gscon)(char *, SuperMatrix *, SuperMatrix *, RT, RT *, int_t *);
extern void FN(gsequ)(SuperMatrix *, RT *, RT *, RT *, RT *, RT *, int_t *);
extern int_t SPFN(trsv)(char *, char *, char *, SuperMatrix *, SuperMatrix *, ET *, int_t *);
extern int_t SPFN(gemv)(char *, ET, SuperMatrix *, ET *, int_t, ET, ET *, int_t);

static struct {
    SuperMatrix A, B, X, L, U;
    NCformat As; DNformat Bs, Xs;
    ET aval[7]; int_t arow[7], acol[NP + 1];
    ET bval[NP * NRHS], xval[NP * NRHS];
    int_t perm_c[NP], perm_r[NP], etree[NP], colcnt_h[NP], part_super_h[NP];
    RT R[NP], C[NP], ferr[NRHS], berr[NRHS], rpg, rcond;
    superlumt_options_t opt; Gstat_t Gstat; equed_t equed; superlu_memusage_t mem;
} T(b);

static int T(setup)(void)
{
    static const double av[7] = {4, 1, 1, 5, 1, 2, 6};
    static const int ar[7] = {0, 1, 0, 1, 2, 1, 2}, ac[NP + 1] = {0, 2, 5, 7};
    int i; int_t info = 0;
    superlumt_options_t *o = &T(b).opt;
    for (i = 0; i < 7; ++i) { ESET(T(b).aval[i], av[i]); T(b).arow[i] = ar[i]; }
    for (i = 0; i <= NP; ++i) T(b).acol[i] = ac[i];
    T(b).As.nnz = 7; T(b).As.nzval = T(b).aval; T(b).As.rowind = T(b).arow; T(b).As.colptr = T(b).acol;
    T(b).A.Stype = SLU_NC; T(b).A.Dtype = DTYPE; T(b).A.Mtype = SLU_GE; T(b).A.nrow = NP; T(b).A.ncol = NP; T(b).A.Store = &T(b).As;
    for (i = 0; i < NP * NRHS; ++i) { ESET(T(b).bval[i], 1 + i); ESET(T(b).xval[i], 0); }
    T(b).Bs.lda = NP; T(b).Bs.nzval = T(b).bval; T(b).Xs.lda = NP; T(b).Xs.nzval = T(b).xval;
    T(b).B.Stype = SLU_DN; T(b).B.Dtype = DTYPE; T(b).B.Mtype = SLU_GE; T(b).B.nrow = NP; T(b).B.ncol = NRHS; T(b).B.Store = &T(b).Bs;
    T(b).X = T(b).B; T(b).X.Store = &T(b).Xs;
    for (i = 0; i < NP; ++i) { T(b).perm_c[i] = i; T(b).perm_r[i] = i; T(b).R[i] = 1; T(b).C[i] = 1; }
    memset(o, 0, sizeof *o);
    o->nprocs = 1; o->fact = DOFACT; o->trans = NOTRANS; o->refact = NO; o->panel_size = sp_ienv(1); o->relax = sp_ienv(2);
    o->diag_pivot_thresh = 1.0; o->drop_tol = 0.0; o->ColPerm = NATURAL; o->usepr = NO; o->SymmetricMode = NO; o->PrintStat = NO;
    o->perm_c = T(b).perm_c; o->perm_r = T(b).perm_r; o->work = NULL; o->lwork = 0;
    o->etree = T(b).etree; o->colcnt_h = T(b).colcnt_h; o->part_super_h = T(b).part_super_h;
    T(b).equed = NOEQUIL;
    PFN(gssvx)(1, o, &T(b).A, T(b).perm_c, T(b).perm_r, &T(b).equed, T(b).R, T(b).C, &T(b).L, &T(b).U,
               &T(b).B, &T(b).X, &T(b).rpg, &T(b).rcond, T(b).ferr, T(b).berr, &T(b).mem, &info);
    if (info != 0 || xe_count != 0) { fprintf(stderr, "setup: p%sgssvx info=%ld xerbla=%d\n", "", (long) info, xe_count); return 1; }
    for (i = 0; i < NP * NRHS; ++i) { ESET(T(b).bval[i], 1 + i); ESET(T(b).xval[i], 0); }
    for (i = 0; i < NP; ++i) { T(b).R[i] = 1; T(b).C[i] = 1; }
    StatAlloc(NP, 1, o->panel_size, o->relax, &T(b).Gstat);
    StatInit(NP, 1, &T(b).Gstat);
    return 0;
}

static void T(run)(const char *id, const char *rt)
{
    /* local copies of the headers so that the declared tags/dimensions can lie while the storage
       behind them stays the prepared, valid one */
    SuperMatrix A = T(b).A, B = T(b).B, X = T(b).X, L = T(b).L, U = T(b).U;
    DNformat Bs = T(b).Bs, Xs = T(b).Xs;
    superlumt_options_t opt = T(b).opt;
    equed_t equed = NOEQUIL;
    RT R[NP], C[NP], ferr[NRHS], berr[NRHS], rpg = 0, rcond = 0, rowcnd = 0, colcnd = 0, amax = 0;
    ET xv[NP + 1], yv[NP + 1], alpha, beta;
    superlu_memusage_t mem;
    int_t info = 777;
    char own[32];
    const char *status = "ok";
    int i, optperm = 0;
    char c1[2] = {0, 0}, c2[2] = {0, 0}, c3[2] = {0, 0};

    memset(&mem, 0, sizeof mem);
    B.Store = &Bs; X.Store = &Xs;
    for (i = 0; i < NP; ++i) { R[i] = 1; C[i] = 1; }
    for (i = 0; i < NRHS; ++i) { ferr[i] = 0; berr[i] = 0; }
    for (i = 0; i <= NP; ++i) { ESET(xv[i], 1 + i); ESET(yv[i], 2 + i); }
    ESET(alpha, 1); ESET(beta, 1);
    if (hasm("A", "st")) apply_mat(&A, "A");
    if (hasm("B", "st")) { apply_mat(&B, "B"); Bs.lda = (int_t) getm("B", "lda"); }
    if (hasm("X", "st")) { apply_mat(&X, "X"); Xs.lda = (int_t) getm("X", "lda"); }
    if (hasm("L", "st")) apply_mat(&L, "L");
    if (hasm("U", "st")) apply_mat(&U, "U");

    verif_abort_armed = 1;
    if (setjmp(verif_abort_jmp)) {
        status = "abort";
        report(id, own, (long) info, (long)(int) equed, optperm, status);
        return;
    }

    if (!strcmp(rt, "gssv")) {
        int_t perm_c[NP], perm_r[NP];
        snprintf(own, sizeof own, "p%sgssv", CAT_STR(PX));
        for (i = 0; i < NP; ++i) { perm_c[i] = i; perm_r[i] = -5; }
        memset(&L, 0, sizeof L); memset(&U, 0, sizeof U);
        reg_nc("A", &A, sizeof(ET), NP); reg_dn("B", &B, sizeof(ET), NP, NRHS);
        reg("L", &L, sizeof L); reg("U", &U, sizeof U);
        reg("perm_c", perm_c, sizeof perm_c); reg("perm_r", perm_r, sizeof perm_r);
        snap_before();
        PFN(gssv)((int_t) geti("np"), &A, perm_c, perm_r, &L, &U, &B, &info);
    } else if (!strcmp(rt, "gssvx")) {
        int_t perm_c[NP], perm_r[NP];
        int factored = (geti("fact") == FACTORED);
        snprintf(own, sizeof own, "p%sgssvx", CAT_STR(PX));
        for (i = 0; i < NP; ++i) { perm_c[i] = T(b).perm_c[i]; perm_r[i] = T(b).perm_r[i]; }
        opt.fact = (fact_t) geti("fact"); opt.trans = (trans_t) geti("trans"); opt.refact = (yes_no_t) geti("refact");
        opt.usepr = (yes_no_t) geti("usepr"); opt.lwork = (int_t) geti("lwork"); opt.work = NULL;
        opt.perm_c = NULL; opt.perm_r = NULL;
        equed = (equed_t) geti("equed");
        for (i = 0; i < NP; ++i) { R[i] = (RT) list_get(gets_("R"), i, 1.0); C[i] = (RT) list_get(gets_("C"), i, 1.0); }
        reg_nc("A", &A, sizeof(ET), NP); reg_dn("B", &B, sizeof(ET), NP, NRHS); reg_dn("X", &X, sizeof(ET), NP, NRHS);
        if (factored) { reg_scp("L", &L, sizeof(ET), NP); reg_ncp("U", &U, sizeof(ET), NP); }
        else { memset(&L, 0, sizeof L); memset(&U, 0, sizeof U); reg("L", &L, sizeof L); reg("U", &U, sizeof U); }
        reg("perm_c", perm_c, sizeof perm_c); reg("perm_r", perm_r, sizeof perm_r);
        reg("R", R, sizeof R); reg("C", C, sizeof C);
        reg("opt", &opt, sizeof opt); reg("equed", &equed, sizeof equed);
        reg("out", ferr, sizeof ferr); reg("out", berr, sizeof berr); reg("out", &rpg, sizeof rpg);
        reg("out", &rcond, sizeof rcond); reg("out", &mem, sizeof mem);
        reg("out", opt.etree, NP * sizeof(int_t)); reg("out", opt.colcnt_h, NP * sizeof(int_t));
        reg("out", opt.part_super_h, NP * sizeof(int_t));
        snap_before();
        PFN(gssvx)((int_t) geti("np"), &opt, &A, perm_c, perm_r, &equed, R, C, &L, &U, &B, &X,
                   &rpg, &rcond, ferr, berr, &mem, &info);
        optperm = (opt.perm_c == perm_c && opt.perm_r == perm_r);
    } else if (!strcmp(rt, "gstrs")) {
        snprintf(own, sizeof own, "%sgstrs", CAT_STR(PX));
        reg_scp("L", &L, sizeof(ET), NP); reg_ncp("U", &U, sizeof(ET), NP); reg_dn("B", &B, sizeof(ET), NP, NRHS);
        reg("perm_c", T(b).perm_c, sizeof T(b).perm_c); reg("perm_r", T(b).perm_r, sizeof T(b).perm_r);
        snap_before();
        FN(gstrs)((trans_t) geti("trans"), &L, &U, T(b).perm_r, T(b).perm_c, &B, &T(b).Gstat, &info);
    } else if (!strcmp(rt, "gsrfs")) {
        snprintf(own, sizeof own, "%sgsrfs", CAT_STR(PX));
        reg_nc("A", &A, sizeof(ET), NP);
        reg_scp("L", &L, sizeof(ET), NP); reg_ncp("U", &U, sizeof(ET), NP);
        reg_dn("B", &B, sizeof(ET), NP, NRHS); reg_dn("X", &X, sizeof(ET), NP, NRHS);
        reg("perm_c", T(b).perm_c, sizeof T(b).perm_c); reg("perm_r", T(b).perm_r, sizeof T(b).perm_r);
        reg("R", R, sizeof R); reg("C", C, sizeof C);
        reg("out", ferr, sizeof ferr); reg("out", berr, sizeof berr);
        snap_before();
        FN(gsrfs)((trans_t) geti("trans"), &A, &L, &U, T(b).perm_r, T(b).perm_c, (equed_t) geti("equed"), R, C,
                  &B, &X, ferr, berr, &T(b).Gstat, &info);
    } else if (!strcmp(rt, "gscon")) {
        snprintf(own, sizeof own, "%sgscon", CAT_STR(PX));
        c1[0] = (char) geti("norm");
        reg_scp("L", &L, sizeof(ET), NP); reg_ncp("U", &U, sizeof(ET), NP);
        reg("out", &rcond, sizeof rcond);
        snap_before();
        FN(gscon)(c1, &L, &U, (RT) 7.0, &rcond, &info);
    } else if (!strcmp(rt, "gsequ")) {
        snprintf(own, sizeof own, "%sgsequ", CAT_STR(PX));
        reg_nc("A", &A, sizeof(ET), NP);
        reg("R", R, sizeof R); reg("C", C, sizeof C);
        reg("out", &rowcnd, sizeof rowcnd); reg("out", &colcnd, sizeof colcnd); reg("out", &amax, sizeof amax);
        snap_before();
        FN(gsequ)(&A, R, C, &rowcnd, &colcnd, &amax, &info);
    } else if (!strcmp(rt, "trsv")) {
        snprintf(own, sizeof own, "sp_%strsv", CAT_STR(PX));
        c1[0] = (char) geti("uplo"); c2[0] = (char) geti("trans"); c3[0] = (char) geti("diag");
        reg_scp("L", &L, sizeof(ET), NP); reg_ncp("U", &U, sizeof(ET), NP);
        reg("x", xv, sizeof xv);
        snap_before();
        SPFN(trsv)(c1, c2, c3, &L, &U, xv, &info);
    } else if (!strcmp(rt, "gemv")) {
        snprintf(own, sizeof own, "sp_%sgemv~", CAT_STR(PX));
        c1[0] = (char) geti("trans");
        reg_nc("A", &A, sizeof(ET), NP);
        reg("x", xv, sizeof xv); reg("y", yv, sizeof yv);
        snap_before();
        SPFN(gemv)(c1, alpha, &A, xv, (int_t) geti("incx"), beta, yv, (int_t) geti("incy"));
        info = 0;
        for (i = 0; i < xe_count && i < XE_MAX; ++i) if (!strcmp(xe_name[i], own)) { info = -xe_pos[i]; break; }
    } else {
        printf("R %s status=badroutine\n", id);
        return;
    }
    verif_abort_armed = 0;
    report(id, own, (long) info, (long)(int) equed, optperm, status);
}

#undef T
#undef FN
#undef PFN
#undef SPFN
#undef ESET
#endif
