"""C11 - equilibration: scale factors, application rule and reported flag agree.

Coq: coq/EquilModel.v (?gsequ, ?laqgs, equilibration wiring of p?gssvx over a record of arithmetic operations;
binary64 instances for d and z), coq/EquilProofs.v, coq/Properties_C11.v.
Correspondence (every run):
  * d, z: the float instance is evaluated by vm_compute (one generated .v file per run, coq/EquilRun.v entry points)
    and compared BIT FOR BIT with the real ?gsequ / ?laqgs / p?gssvx: R, C, rowcnd, colcnd, amax, info, scaled A, flag, B;
  * s, c: the same statements in tools/equil_ref.py with every operation rounded to binary32, compared bit for bit with
    the s/c twins; the port itself is compared with the Coq instance on all d/z cases;
  * ?lamch constants against the model's constants; normalised token diff of the four twins of gsequ/laqgs;
  * the property's own oracle (exact rationals) on every C output.
"""
import os, re, json, math, struct, time
from fractions import Fraction
import vf
import importlib.util

_spec = importlib.util.spec_from_file_location("equil_ref", os.path.join(vf.VERIF, "tools", "equil_ref.py"))
ref = importlib.util.module_from_spec(_spec); _spec.loader.exec_module(ref)

MANIFEST = {
    "text": "Machine-checked (Coq 8.16.1) theorems about an executable model of ?gsequ/?laqgs and the equilibration wiring of "
            "p?gssvx: the four-way ?laqgs decision equals the documented table and the returned flag describes exactly the scaling "
            "applied (any arithmetic, hence also the binary64 instance that is executed), the driver wiring A_out = R^a A C^b, "
            "B_out scaled by the matching factor; over the reals: zero row/column index, positivity and clip range of R and C, "
            "unit row/column maxima in exact arithmetic.  The binary64 instance of the same definitions is compared bit for bit "
            "with the d and z C code on every run; s and c through a binary32 port of the same statements.",
    "note": "Rounded arithmetic: gsequ_unit_max_rounded proves the scaled row/column maxima lie in [(1-u)^k, (1+u)^k] for the "
            "standard model (the exact statement 'max = 1' is refuted by a binary64 witness, gsequ_unit_max_rounded_full_refuted); "
            "the exact-rational oracle checks the same interval on the C outputs. NaN/Inf inputs are excluded; the X back-scaling "
            "after the solve is outside this property.",
    "technique": "Coq theorems about an executable Gallina model (generic arithmetic; PrimFloat instance run by vm_compute) + bit-exact model-vs-C correspondence",
    "design_ref": "DESIGN.md section 5 / C11",
}

PRECS = "sdcz"


def consts():
    c = {}
    for m in re.finditer(r"Definition c_(\w+) : Z := \(?(-?\d+)\)?\.", open(os.path.join(vf.COQ, "Consts.v")).read()):
        c[m.group(1)] = int(m.group(2))
    return c


# ----------------------------------------------------------------------------- numbers
def bits(x):
    return struct.pack("d", x)


def same(a, b):
    return (a != a and b != b) or bits(a) == bits(b)


def hx(x):
    return float(x).hex()


def chex(x):
    s = float(x).hex()
    return "(%s)" % s if s.startswith("-") else s


def parse_c_real(s):
    return float("nan") if s == "nan" else float("inf") if s == "inf" else float("-inf") if s == "-inf" else float.fromhex(s)


def rnd_val(rng, p, lo, hi, mant=None):
    """a random number m * 2^e representable in precision p with lo <= exponent of the leading bit <= hi"""
    tb = 24 if p in "sc" else 53
    emin = -149 if p in "sc" else -1074
    e = rng.randint(lo, hi)
    nb = rng.choice([1, 2, 3, tb]) if mant is None else mant
    m = rng.getrandbits(nb - 1) | (1 << (nb - 1)) if nb > 1 else 1
    x = math.ldexp(m, e - (nb - 1))
    if e - (nb - 1) < emin:                      # keep it representable (denormal range)
        x = math.ldexp(1, max(e, emin))
    if rng.random() < 0.4:
        x = -x
    return x


def exp_range(p):
    return (-149, 127) if p in "sc" else (-1074, 1023)


# ----------------------------------------------------------------------------- generators
def gen_matrix(rng, p, kind, nmax):
    """-> nrow, ncol, ents [(i, j, v)] in column-major storage order, v a float or (re, im)"""
    lo, hi = exp_range(p)
    cplx = p in "cz"
    nrow = rng.randint(1, nmax); ncol = rng.randint(1, nmax)
    if kind == "1x1":
        nrow = ncol = 1
    elif kind in ("square", "rowbad", "colbad", "bothbad", "well"):
        ncol = nrow
    dens = rng.choice([0.4, 0.7, 1.0])
    rs = [0] * nrow; cs = [0] * ncol
    if kind in ("rowbad", "bothbad"):
        rs = [rng.randint(-40, 40) for _ in range(nrow)]
    if kind in ("colbad", "bothbad"):
        cs = [rng.randint(-40, 40) for _ in range(ncol)]
    ents = []
    zr = rng.randrange(nrow) if kind == "zerorow" else None
    zc = rng.randrange(ncol) if kind == "zerocol" else None
    for j in range(ncol):
        for i in range(nrow):
            diag = (i == j) or (i == nrow - 1 and j >= nrow) or (j == ncol - 1 and i >= ncol)
            if not diag and rng.random() > dens:
                continue
            def one():
                if kind == "wide":
                    return rnd_val(rng, p, lo, hi)
                if kind == "tiny":
                    return rnd_val(rng, p, lo, lo + 60)
                if kind == "huge":
                    return rnd_val(rng, p, hi - 40, hi)
                if kind == "midwide":
                    return rnd_val(rng, p, -60, 60)
                return rnd_val(rng, p, -1 + rs[i] + cs[j], 1 + rs[i] + cs[j])
            v = one()
            if (zr is not None and i == zr) or (zc is not None and j == zc):
                if rng.random() < 0.5:
                    continue                          # structurally empty
                v = 0.0 if rng.random() < 0.7 else -0.0
            if cplx:
                w = one() if rng.random() < 0.7 else 0.0
                if (zr is not None and i == zr) or (zc is not None and j == zc):
                    w = 0.0
                v = (v, w)
            ents.append((i, j, v))
    return nrow, ncol, ents


MATKINDS = ["wide", "tiny", "huge", "midwide", "well", "rowbad", "colbad", "bothbad", "zerorow", "zerocol", "1x1", "rect", "square"]


def nextafter(x, up):
    b = struct.unpack("q", struct.pack("d", x))[0]
    return struct.unpack("d", struct.pack("q", b + (1 if (up == (x > 0)) else -1)))[0]


def boundary_values(p):
    a = ref.Ar(p)
    small = a.div(a.sfmin, a.prec); large = a.div(1.0, small)
    def nb(x):
        if a.single:
            f = ref.f32
            b = struct.unpack("i", struct.pack("f", x))[0]
            return [struct.unpack("f", struct.pack("i", b - 1))[0], f(x), struct.unpack("f", struct.pack("i", b + 1))[0]]
        return [nextafter(x, False), x, nextafter(x, True)]
    th = nb(ref.f32(0.1) if a.single else 0.1)
    if a.single:
        th = sorted(set(th + [ref.f32(0.1)]))
    return th + [0.05, 0.5, 1.0, a.sfmin], nb(small) + nb(large) + [1.0, 2.0 ** -20, 2.0 ** 20]


def gen_cases(ctx, K):
    rng = ctx.rng
    quick = ctx.quick()
    cases = []
    nmat = 14 if quick else 120
    nmax = 5 if quick else 8
    for p in PRECS:
        # ?gsequ alone and ?gsequ + ?laqgs
        for kind in MATKINDS:
            for _ in range(nmat):
                nrow, ncol, ents = gen_matrix(rng, p, kind, nmax)
                cases.append({"kind": "gsequ", "p": p, "gen": kind, "nrow": nrow, "ncol": ncol, "ents": ents, "sentinel": -7.0})
                nrow, ncol, ents = gen_matrix(rng, p, kind, nmax)
                cases.append({"kind": "equil", "p": p, "gen": kind, "nrow": nrow, "ncol": ncol, "ents": ents, "sentinel": -7.0})
        for nrow, ncol in ((0, 0), (0, 3), (3, 0)):
            cases.append({"kind": "gsequ", "p": p, "gen": "empty", "nrow": nrow, "ncol": ncol, "ents": [], "sentinel": -7.0})
        # ?laqgs on chosen rowcnd / colcnd / amax (boundaries of the decision)
        ths, ams = boundary_values(p)
        combos = [(rc, cc, am) for rc in ths for cc in ths for am in ams]
        if quick:
            combos = rng.sample(combos, 110)
        for rc, cc, am in combos:
            nrow, ncol, ents = gen_matrix(rng, p, rng.choice(["midwide", "well", "rect"]), 4)
            r = [abs(rnd_val(rng, p, -30, 30)) for _ in range(nrow)]
            c = [abs(rnd_val(rng, p, -30, 30)) for _ in range(ncol)]
            cases.append({"kind": "laqgs", "p": p, "gen": "boundary", "nrow": nrow, "ncol": ncol, "ents": ents, "r": r, "c": c,
                          "rowcnd": rc, "colcnd": cc, "amax": am})
        cases.append({"kind": "laqgs", "p": p, "gen": "empty", "nrow": 0, "ncol": 2, "ents": [], "r": [], "c": [1.0, 1.0],
                      "rowcnd": 0.01, "colcnd": 0.01, "amax": 1.0})
        # the expert driver
        ndrv = 10 if quick else 60
        for fact in ("DOFACT", "EQUILIBRATE", "FACTORED"):
            for mk in ("well", "rowbad", "colbad", "bothbad"):
                for _ in range(ndrv if fact == "EQUILIBRATE" else max(2, ndrv // 3)):
                    n = rng.randint(1, 5)
                    # strictly diagonally dominant before the row/column scalings -> nonsingular after them
                    rs = [rng.randint(-30, 30) if mk in ("rowbad", "bothbad") else 0 for _ in range(n)]
                    cs = [rng.randint(-30, 30) if mk in ("colbad", "bothbad") else 0 for _ in range(n)]
                    ents = []
                    for j in range(n):
                        for i in range(n):
                            if i != j and rng.random() > 0.5:
                                continue
                            base = (rng.choice([1.0, -1.0]) * (8.0 + rng.randint(0, 7))) if i == j else rng.choice([1.0, -1.0, 0.5, -0.25])
                            v = math.ldexp(base, rs[i] + cs[j])
                            if p in "cz":
                                v = (v, math.ldexp(rng.choice([0.0, 0.5, -1.0]), rs[i] + cs[j]))
                            ents.append((i, j, v))
                    nrhs = rng.randint(1, 3)
                    def bval():
                        x = rnd_val(rng, p, -3, 3, mant=3)
                        return (x, rnd_val(rng, p, -3, 3, mant=3)) if p in "cz" else x
                    B = [[bval() for _ in range(n)] for _ in range(nrhs)]
                    eq0 = rng.randint(0, 3)
                    R0 = [math.ldexp(1.0, rng.randint(-4, 4)) for _ in range(n)]
                    C0 = [math.ldexp(1.0, rng.randint(-4, 4)) for _ in range(n)]
                    cases.append({"kind": "gssvx", "p": p, "gen": "%s/%s" % (fact, mk), "n": n, "ents": ents,
                                  "stype": K["SLU_" + rng.choice(["NC", "NR"])], "fact": K[fact],
                                  "trans": K[rng.choice(["NOTRANS", "TRANS", "CONJ"])], "equed": eq0, "R": R0, "C": C0, "B": B, "nrhs": nrhs,
                                  "ldbx": rng.choice([0, 0, 1, 3]), "ldxx": rng.choice([0, 0, 2, 5])})
    return cases


# ----------------------------------------------------------------------------- case -> text for C and Coq
def ent_c(e, cplx):
    i, j, v = e
    return "%d:%d:%s:%s" % (i, j, hx(v[0]), hx(v[1])) if cplx else "%d:%d:%s" % (i, j, hx(v))


def c_line(c):
    cplx = c["p"] in "cz"
    es = ",".join(ent_c(e, cplx) for e in c["ents"]) or "-"
    if c["kind"] in ("gsequ", "equil"):
        return "%s %s %s nrow=%d ncol=%d ents=%s sentinel=%s" % (c["id"], c["kind"], c["p"], c["nrow"], c["ncol"], es, hx(c["sentinel"]))
    if c["kind"] == "laqgs":
        return "%s laqgs %s nrow=%d ncol=%d ents=%s r=%s c=%s rowcnd=%s colcnd=%s amax=%s" % (
            c["id"], c["p"], c["nrow"], c["ncol"], es, ",".join(map(hx, c["r"])) or "-", ",".join(map(hx, c["c"])) or "-",
            hx(c["rowcnd"]), hx(c["colcnd"]), hx(c["amax"]))
    if c["kind"] == "gssvx":
        bs = ",".join(("%s:%s" % (hx(x[0]), hx(x[1])) if cplx else hx(x)) for col in c["B"] for x in col)
        return "%s gssvx %s n=%d nrhs=%d ldbx=%d ldxx=%d ents=%s stype=%d fact=%d trans=%d equed=%d R=%s C=%s B=%s" % (
            c["id"], c["p"], c["n"], c["nrhs"], c.get("ldbx", 0), c.get("ldxx", 0), es, c["stype"], c["fact"], c["trans"], c["equed"],
            ",".join(map(hx, c["R"])), ",".join(map(hx, c["C"])), bs)
    return "%s lamch %s" % (c["id"], c["p"])


def coq_ents(c):
    cplx = c["p"] == "z"
    return "[" + "; ".join("(%d%%nat, %d%%nat, %s)" % (i, j, ("(%s, %s)" % (chex(v[0]), chex(v[1]))) if cplx else chex(v))
                           for (i, j, v) in c["ents"]) + "]"


def coq_list(v):
    return "[" + "; ".join(chex(x) for x in v) + "]"


def coq_term(c):
    p = c["p"]
    if c["kind"] in ("gsequ", "equil"):
        return "run_%s_%s %d%%nat %d%%nat %s %s" % (c["kind"], p, c["nrow"], c["ncol"], coq_ents(c), chex(c["sentinel"]))
    if c["kind"] == "laqgs":
        return "run_laqgs_%s %d%%nat %d%%nat %s %s %s %s %s %s" % (p, c["nrow"], c["ncol"], coq_ents(c), coq_list(c["r"]), coq_list(c["c"]),
                                                                 chex(c["rowcnd"]), chex(c["colcnd"]), chex(c["amax"]))
    if c["kind"] == "gssvx":
        if p == "z":
            B = "[" + "; ".join("[" + "; ".join("(%s, %s)" % (chex(x[0]), chex(x[1])) for x in col) + "]" for col in c["B"]) + "]"
        else:
            B = "[" + "; ".join(coq_list(col) for col in c["B"]) + "]"
        return "run_gssvx_%s %d%%Z %d%%Z %d%%Z %d%%Z %d%%nat %s %s %s %s" % (p, c["stype"], c["fact"], c["trans"], c["equed"], c["n"],
                                                                          coq_ents(c), coq_list(c["R"]), coq_list(c["C"]), B)
    raise ValueError(c["kind"])


def parse_float_lists(txt):
    """printed Coq term of type list (list float) -> Python lists (exact: Coq prints 17 significant digits)"""
    import json as _json
    body = txt[:txt.rindex(":")] if ":" in txt else txt          # drop the trailing ": list (list float)"
    body = body.replace(";", ",").replace("neg_infinity", "-Infinity").replace("infinity", "Infinity").replace("nan", "NaN")
    body = re.sub(r"(?<![\w.+-])-0(?![\w.])", "-0.0", body)
    return [[float(x) for x in row] for row in _json.loads(body)]


BATCH = 40


def run_coq(ctx, cases):
    """evaluate the float instance on the d/z cases by vm_compute -> {id: [floats]} , constants"""
    cs = [c for c in cases if c["p"] in "dz"]
    ok, out = ctx.coq_make(["EquilRun.vo"])
    if not ok:
        raise vf.CheckError("EquilRun.vo does not build: " + out[-1500:])
    f = os.path.join(ctx.bdir, "equil_cases_%d.v" % os.getpid())
    nb = 0
    with open(f, "w") as fh:
        fh.write("From SLU Require Import Consts EquilModel EquilRun.\nRequire Import Floats ZArith List.\nImport ListNotations.\n"
                 "Set Printing Depth 100000000.\nSet Printing Width 200.\nOpen Scope float_scope.\n")
        fh.write("Eval vm_compute in [run_consts].\n")
        for k in range(0, len(cs), BATCH):
            fh.write("Eval vm_compute in [%s].\n" % ";\n  ".join(coq_term(c) for c in cs[k:k + BATCH]))
            nb += 1
    with vf.Lock("coq"):
        rc, so, se = vf.sh2(["coqc", "-Q", vf.COQ, "SLU", "-w", "-all", f], cwd=ctx.bdir, timeout=1500)
    for ext in (".vo", ".vok", ".vos", ".glob"):
        try: os.unlink(f[:-2] + ext)
        except OSError: pass
    try: os.unlink(os.path.join(ctx.bdir, "." + os.path.basename(f)[:-2] + ".aux"))
    except OSError: pass
    if rc != 0:
        raise vf.CheckError("coqc failed on the generated case file %s: %s" % (f, (se or so)[-1500:]))
    os.unlink(f)
    blocks = re.split(r"^\s+= ", so, flags=re.M)[1:]
    if len(blocks) != nb + 1:
        raise vf.CheckError("vm_compute output: %d blocks for %d batches" % (len(blocks), nb + 1))
    rows = []
    for b in blocks[1:]:
        rows += parse_float_lists(b)
    if len(rows) != len(cs):
        raise vf.CheckError("vm_compute output: %d results for %d cases" % (len(rows), len(cs)))
    return {c["id"]: r for c, r in zip(cs, rows)}, parse_float_lists(blocks[0])[0]


def run_c(ctx, exe, cases, extra_lines=()):
    lines = list(extra_lines) + [c_line(c) for c in cases]
    chunks = [lines[i::vf.NCPU] for i in range(vf.NCPU)]
    from concurrent.futures import ThreadPoolExecutor
    res = {}
    def one(ch):
        return vf.sh2([exe], inp="\n".join(ch) + "\n", timeout=900)
    with ThreadPoolExecutor(vf.NCPU) as ex:
        for rc, out, err in ex.map(one, [c for c in chunks if c]):
            if rc != 0:
                raise vf.CheckError("equil harness failed rc=%d: %s" % (rc, err[-500:]))
            for ln in out.split("\n"):
                if ln.startswith("R "):
                    t = ln.split(" ", 2)
                    d = {}
                    for kv in (t[2] if len(t) > 2 else "").split():
                        if "=" in kv:
                            k, v = kv.split("=", 1); d[k] = v
                    res[t[1]] = d
    return res


def flat_vals(vs, cplx):
    return [x for v in vs for x in (v if cplx else (v,))]


def c_vector(s, cplx=False):
    if s in ("-", ""):
        return []
    out = []
    for it in s.split(","):
        if cplx:
            a, b = it.split(":"); out += [parse_c_real(a), parse_c_real(b)]
        else:
            out.append(parse_c_real(it))
    return out


def c_flat(c, r):
    """the C observation in the order of the run_* entry points of coq/EquilRun.v"""
    cplx = c["p"] in "cz"
    if c["kind"] == "gsequ":
        return [float(r["info"]), parse_c_real(r["rowcnd"]), parse_c_real(r["colcnd"]), parse_c_real(r["amax"])] + c_vector(r["r"]) + c_vector(r["c"])
    if c["kind"] == "equil":
        return [float(r["info"]), float(r["equed"]), parse_c_real(r["rowcnd"]), parse_c_real(r["colcnd"]), parse_c_real(r["amax"])] + \
            c_vector(r["r"]) + c_vector(r["c"]) + c_vector(r["a"], cplx)
    if c["kind"] == "laqgs":
        return [float(r["equed"])] + c_vector(r["a"], cplx)
    if c["kind"] == "gssvx":
        return [float(r["equed"])] + c_vector(r["a"], cplx) + c_vector(r["r"]) + c_vector(r["c"]) + c_vector(r["b"], cplx)
    raise ValueError


def ref_flat(c, K):
    """tools/equil_ref.py on the case, same order (gssvx: without info1)"""
    ar = ref.Ar(c["p"]); cplx = ar.cplx
    if c["kind"] in ("gsequ", "equil"):
        s = c["sentinel"]
        g = ref.gsequ(ar, c["nrow"], c["ncol"], c["ents"], [s] * c["nrow"], [s] * c["ncol"], s, s, s)
        if g is None:
            return None
        if c["kind"] == "gsequ":
            return [float(g["info"]), g["rowcnd"], g["colcnd"], g["amax"]] + g["r"] + g["c"]
        A, eq = c["ents"], ref.NOEQUIL
        if g["info"] == 0:
            A, eq = ref.laqgs(ar, c["nrow"], c["ncol"], c["ents"], g["r"], g["c"], g["rowcnd"], g["colcnd"], g["amax"])
        return [float(g["info"]), float(eq), g["rowcnd"], g["colcnd"], g["amax"]] + g["r"] + g["c"] + flat_vals([e[2] for e in A], cplx)
    if c["kind"] == "laqgs":
        A, eq = ref.laqgs(ar, c["nrow"], c["ncol"], c["ents"], c["r"], c["c"], c["rowcnd"], c["colcnd"], c["amax"])
        return [float(eq)] + flat_vals([e[2] for e in A], cplx)
    if c["kind"] == "gssvx":
        o = ref.gssvx_equil(ar, K, c["stype"], c["fact"], c["trans"], c["equed"], c["n"], c["ents"], c["R"], c["C"], c["B"])
        if o is None:
            return None
        return [float(o["equed"])] + flat_vals([e[2] for e in o["A"]], cplx) + o["R"] + o["C"] + flat_vals([x for col in o["B"] for x in col], cplx)


def differs(a, b):
    if a is None or b is None or len(a) != len(b):
        return "length %s vs %s" % (a and len(a), b and len(b))
    for k, (x, y) in enumerate(zip(a, b)):
        if not same(x, y):
            return "position %d: %s vs %s" % (k, hx(x) if x == x else "nan", hx(y) if y == y else "nan")
    return None


def oracle(c, r, K):
    """the property's own oracle on the C observation r"""
    ar = ref.Ar(c["p"]); cplx = ar.cplx
    def cv(s):
        v = c_vector(s, cplx)
        return [tuple(v[2 * k:2 * k + 2]) for k in range(len(v) // 2)] if cplx else v
    if c["kind"] in ("gsequ", "equil"):
        out = {"info": int(r["info"]), "r": c_vector(r["r"]), "c": c_vector(r["c"]), "rowcnd": parse_c_real(r["rowcnd"]),
               "colcnd": parse_c_real(r["colcnd"]), "amax": parse_c_real(r["amax"])}
        f = ref.oracle_gsequ(ar, c["nrow"], c["ncol"], c["ents"], out, c["sentinel"])
        if c["kind"] == "equil" and not f and out["info"] == 0 and c["nrow"] > 0 and c["ncol"] > 0:
            f += ref.oracle_laqgs(ar, c["nrow"], c["ncol"], c["ents"], out["r"], out["c"], out["rowcnd"], out["colcnd"], out["amax"],
                                  int(r["equed"]), cv(r["a"]))
        return f
    if c["kind"] == "laqgs":
        return ref.oracle_laqgs(ar, c["nrow"], c["ncol"], c["ents"], c["r"], c["c"], c["rowcnd"], c["colcnd"], c["amax"], int(r["equed"]), cv(r["a"]))
    if c["kind"] == "gssvx":
        if r.get("status") != "ok":
            return []
        f = []
        eq = int(r["equed"]); n = c["n"]
        R, C = c_vector(r["r"]), c_vector(r["c"])
        aout, bout = cv(r["a"]), cv(r["b"])
        if c["fact"] != K["EQUILIBRATE"]:
            want = ref.NOEQUIL if c["fact"] == K["DOFACT"] else c["equed"]
            if eq != want: f.append("equed=%d expected %d" % (eq, want))
            if differs(flat_vals(aout, cplx), flat_vals([e[2] for e in c["ents"]], cplx)): f.append("A modified although fact != EQUILIBRATE")
            if differs(R, c["R"]) or differs(C, c["C"]): f.append("R or C modified although fact != EQUILIBRATE")
        else:
            # the flag itself must follow the documented thresholds (ROWCND / COLCND >= 0.1, AMAX between SMALL and LARGE) applied to the
            # ratios of THIS matrix, whenever they are not within 1 % of a threshold (where rounding may decide)
            g = ref.gsequ(ar, n, n, c["ents"], [0.0] * n, [0.0] * n, 0.0, 0.0, 0.0)
            if g is not None and g["info"] == 0 and n > 0:
                small = ar.div(ar.sfmin, ar.prec); large = ar.div(1.0, small)
                clear = all(abs(v - ar.th) > 0.01 * ar.th for v in (g["rowcnd"], g["colcnd"])) and \
                    (g["amax"] > 2 * small and g["amax"] < large / 2)
                if clear and eq != ref.laqgs_decide(ar, g["rowcnd"], g["colcnd"], g["amax"]):
                    f.append("flag %d although ROWCND = %.3g, COLCND = %.3g, AMAX = %.3g call for %d (documented thresholds)" % (
                        eq, g["rowcnd"], g["colcnd"], g["amax"], ref.laqgs_decide(ar, g["rowcnd"], g["colcnd"], g["amax"])))
            # A_out = diag(R)^a A diag(C)^b with (a,b) from the flag, up to rounding; flag none => bit-identical
            f += [x for x in ref.oracle_laqgs(ar, n, n, c["ents"], R, C, 1.0 if eq in (0, 2) else 0.0, 1.0 if eq in (0, 1) else 0.0, 1.0, eq, aout)]
        notran = (c["trans"] == K["NOTRANS"]) != (c["stype"] == K["SLU_NR"])
        s = (R if eq in (1, 3) else None) if notran else (C if eq in (2, 3) else None)
        k = 0
        for col in c["B"]:
            for i, x in enumerate(col):
                y = bout[k]; k += 1
                for a, b in zip(x if cplx else (x,), y if cplx else (y,)):
                    if s is None:
                        if not same(a, b): f.append("B changed although the flag asks for no scaling of B")
                    else:
                        ex = Fraction(a) * Fraction(s[i])
                        if ref.finite(b) and abs(Fraction(b) - ex) > abs(ex) * 2 * ar.u + Fraction(ar.sfmin) * 2 * ar.u:
                            f.append("B[%d] = %r is not %r * %r" % (i, b, a, s[i]))
        return f[:4]
    return []


# ----------------------------------------------------------------------------- twins
def twin_diff():
    """normalised token diff of the four twins of ?gsequ.c / ?laqgs.c: everything that is not the element type, the
    modulus function, the scaling macro, the ?lamch flavour or the Dtype tag must be identical"""
    problems = []
    for stem in ("gsequ", "laqgs"):
        norm = {}
        for p in PRECS:
            src = open(os.path.join(vf.REPO, "SRC", p + stem + ".c")).read()
            src = re.sub(r"/\*.*?\*/", " ", src, flags=re.S)
            src = re.sub(r"//[^\n]*", " ", src)
            up = p.upper()
            subs = [(r"\bslu_mt_%sdefs\.h" % p, "slu_mt_Xdefs.h"), (r"\b%s%s\b" % (p, stem), "X" + stem), (r"\bSLU_%s\b" % up, "SLU_X"),
                    (r"\b[sd]lamch_\b", "Xlamch_"), (r"\bdoublecomplex\b|\bcomplex\b", "ELEM"), (r"\bdouble\b|\bfloat\b", "REAL")]
            for a, b in subs:
                src = re.sub(a, b, src)
            # the complex twins: modulus and scaling spelled through z_abs1 / c_abs1 and zd_mult / cs_mult
            src = re.sub(r"\b[zc]_abs1\s*\(\s*&\s*Aval\[i\]\s*\)", "fabs(Aval[i])", src)
            src = re.sub(r"\b(zd|cs)_mult\s*\(\s*&\s*Aval\[i\]\s*,\s*&\s*Aval\[i\]\s*,\s*([^;]*?)\)\s*;", r"Aval[i] *= \2;", src)
            src = re.sub(r"\bREAL\s+temp\s*;", "", src)
            src = re.sub(r"temp\s*=\s*cj\s*\*\s*r\[irow\]\s*;\s*Aval\[i\]\s*\*=\s*temp\s*;", "Aval[i] *= cj * r[irow];", src)
            src = re.sub(r"\bELEM\b", "REAL", src)
            norm[p] = re.findall(r"[A-Za-z_][A-Za-z_0-9]*|\d+\.?\d*(?:[eE][-+]?\d+)?|\S", src)
        for p in "scz":
            if norm[p] != norm["d"]:
                k = next((i for i, (a, b) in enumerate(zip(norm[p], norm["d"])) if a != b), min(len(norm[p]), len(norm["d"])))
                problems.append("%s%s.c differs from d%s.c after normalisation near token %d: ...%s... vs ...%s..." % (
                    p, stem, stem, k, " ".join(norm[p][max(0, k - 6):k + 6]), " ".join(norm["d"][max(0, k - 6):k + 6])))
    return problems


# ----------------------------------------------------------------------------- main
def build(ctx):
    lib, fl = ctx.build_lib("hooks")
    return ctx.cc_harness("equil", ["equil_harness.c", "sp_ienv_verif.c"], lib, fl)


def slim(c):
    return {k: v for k, v in c.items() if k != "id"}


def evaluate(ctx, cases, coq, cres, K, count=True):
    """-> list of (kind, case, detail)"""
    findings = []
    for c in cases:
        r = cres.get(c["id"])
        hk = "%s/%s/%s" % (c["kind"], c["p"], c["gen"])
        if count:
            ctx.count([c["kind"], c["p"], c_line(c).split(" ", 1)[1]], nontrivial=True, kind="%s/%s" % (c["kind"], c["gen"]))
        if r is None:
            findings.append(("no-result", c, "harness printed nothing")); continue
        if c["kind"] == "gssvx" and r.get("status") != "ok":
            findings.append(("driver-did-not-return", c, r.get("status"))); continue
        cf = c_flat(c, r)
        rf = ref_flat(c, K)
        d1 = differs(rf, cf)
        if count:
            ctx.corr("binary%s port vs C: %s%s" % ("32" if c["p"] in "sc" else "64", c["p"], c["kind"]))
        d2 = d3 = None
        if c["p"] in "dz":
            mf = coq[c["id"]]
            if c["kind"] == "gssvx":
                mf = mf[1:]                       # info1 is a local of the driver
            d2 = differs(mf, cf)
            d3 = differs(mf, rf)
            if count:
                ctx.corr("Coq float instance vs C (bit for bit): %s%s" % (c["p"], c["kind"]))
        orc = oracle(c, r, K)
        if c["kind"] == "gssvx" and str(r.get("pad", "0")) not in ("0", "None"):
            orc = (orc or []) + ["%s padding entries of B/X beyond row n (leading dimensions n+%d, n+%d) were modified" % (r.get("pad"), c.get("ldbx", 0), c.get("ldxx", 0))]
        if d2 or (d1 and c["p"] in "sc"):
            findings.append(("impl-differs-from-model", c, {"coq_vs_c": d2, "port_vs_c": d1, "oracle": orc, "c": r}))
        elif d3 or d1:
            findings.append(("port-differs-from-coq", c, {"coq_vs_port": d3, "port_vs_c": d1}))
        elif orc:
            findings.append(("oracle", c, {"oracle": orc, "c": r}))
    return findings


def classify_oracle(msg):
    if "no exactly zero row or column but info=" in msg:
        return "nonzero-column-reported-zero"
    if "differs from 1 by more than rounding" in msg:
        return "unit-maximum"
    return re.sub(r"[^a-z]+", "-", msg.lower())[:40]


def report(ctx, findings):
    groups = {}
    for kind, c, det in findings:
        if kind == "impl-differs-from-model":
            key = {"kind": kind, "routine": c["kind"], "prec": c["p"]}
            found = bool(det["oracle"])
            what = "%s%s: C differs from the model (%s)%s" % (c["p"], c["kind"], det["coq_vs_c"] or det["port_vs_c"],
                                                             ("; property oracle: " + "; ".join(det["oracle"][:2])) if found else "")
        elif kind == "oracle":
            cls = classify_oracle(det["oracle"][0])
            key = {"kind": "oracle", "class": cls} if cls == "nonzero-column-reported-zero" else \
                  {"kind": "oracle", "routine": c["kind"], "class": cls}
            found = True
            what = "%s%s (%s): %s" % (c["p"], c["kind"], c["gen"], "; ".join(det["oracle"][:2]))
        else:
            key = {"kind": kind, "routine": c["kind"], "prec": c["p"]}
            found = False
            what = "%s %s%s (%s): %s" % (kind, c["p"], c["kind"], c["gen"], str(det)[:300])
        sig = json.dumps(key, sort_keys=True)
        size = len(c.get("ents", []))
        g = groups.setdefault(sig, {"key": key, "found": found, "n": 0, "best": None})
        g["n"] += 1
        if g["best"] is None or size < g["best"][0]:
            g["best"] = (size, what, c, det)
    for sig, g in sorted(groups.items()):
        size, what, c, det = g["best"]
        msg = "%s  [%d cases]" % (what, g["n"])
        if not g["found"]:
            ctx.broken.append("correspondence Equil: " + msg)
        ctx.violation(msg, {"kind": "case", "cases": [slim(c)], "detail": det}, key=g["key"], found_input=g["found"])
    return groups


def run(ctx):
    ctx.cov["rule"] = ("per precision: random sparse matrices (<= 5x5 quick, <= 8x8 thorough) of 13 kinds - entries m*2^e over the whole exponent "
                       "range of the precision, all-tiny, all-huge (beyond bignum: clipping), well scaled, badly row/column/both scaled, "
                       "explicitly or structurally zero row / column, 1x1, rectangular - through ?gsequ and ?gsequ+?laqgs; ?laqgs alone on "
                       "rowcnd/colcnd/amax taken from the neighbours (one ulp) of THRESH, SMALL, LARGE; the expert driver with every "
                       "fact x {well,row,col,both}-scaled diagonally dominant systems, both storage orientations, the three trans values, "
                       "real/complex right-hand sides; every case is non-trivial (it exercises the routine)")
    ctx.cov["partial"] += [
        "rounded-arithmetic unit-maximum statement: proved in exact (real) arithmetic only; the rounded version is evaluated by the exact-rational oracle on the C outputs",
        "s and c twins: tied through the binary32 port tools/equil_ref.py (itself compared with the Coq instance on every d/z case), not through Coq directly",
        "NaN / Inf inputs excluded",
        "the back-scaling of X after the solve (pdgssvx.c:655-668) is modelled nowhere: X depends on the factorization",
    ]
    ctx.cov["trusted_base"] += [
        "Coq primitive floats (PrimFloat, vm_compute) = IEEE-754 binary64 of the host; gcc -O2 -ffp-contract=off SSE2 doubles",
        "harness/equil_harness.c (hex-float I/O with %a / strtod, construction of the compressed-column arrays)",
        "tools/equil_ref.py: binary32 emulation by rounding exact/innocuously double-rounded binary64 results (struct 'f'); exact-rational oracle",
        "generated vm_compute case file + parser of printed spec_float terms (checks/c11.py)",
    ]
    ctx.assumptions += [
        "inputs are finite (no NaN/Inf); matrices are well formed (indices inside the declared dimensions)",
        "exact-arithmetic theorems: 0 < smlnum <= 1 and bignum = 1/smlnum as in the code",
        "standard-library axioms of Reals/Classical in the real-number theorems only (printed by Print Assumptions); the generic theorems are closed",
    ]
    proofs_ok = ctx.coq_properties()
    K = consts()
    exe = build(ctx)
    t0 = time.time()
    # machine constants
    lam = run_c(ctx, exe, [], ["lam_%s lamch %s" % (p, p) for p in PRECS])
    for p in PRECS:
        a = ref.Ar(p); r = lam.get("lam_" + p, {})
        got = tuple(parse_c_real(r.get(k, "nan")) for k in ("S", "P", "E"))
        if got != (a.sfmin, a.prec, a.eps) or r.get("Smin") != r.get("S") or r.get("Prec") != r.get("P"):
            msg = "?lamch constants (%s): C gives S,P,E=%s, model has %s" % (p, got, (a.sfmin, a.prec, a.eps))
            ctx.broken.append(msg)
            ctx.violation(msg, {"kind": "obligation", "broken": [msg]}, key={"kind": "lamch", "prec": p}, found_input=False)
        ctx.corr("?lamch constants")
    for pb in twin_diff():
        ctx.broken.append("twin diff: " + pb)
        ctx.violation("twin diff: " + pb, {"kind": "obligation", "broken": ["twin diff: " + pb]},
                      key={"kind": "twin-diff", "what": pb[:40]}, found_input=False)
    ctx.corr("normalised twin diff ?gsequ.c/?laqgs.c", 8)
    cases = []
    cdir = os.path.join(vf.VERIF, "corpus", "C11")
    if os.path.isdir(cdir):
        for f in sorted(os.listdir(cdir)):
            if f.endswith(".json"):
                for c in json.load(open(os.path.join(cdir, f))).get("cases", []):
                    cases.append(fix_case(c))
    ncorp = len(cases)
    cases += gen_cases(ctx, K)
    for i, c in enumerate(cases):
        c["id"] = "e%d" % i
    coq, cconst = run_coq(ctx, cases)
    a = ref.Ar("d")
    if [hx(x) for x in cconst] != [hx(a.sfmin), hx(a.prec), hx(a.eps), hx(0.1)]:
        ctx.broken.append("constants of the Coq float instance %s differ from sfmin, prec, eps, 0.1" % [hx(x) for x in cconst])
    t1 = time.time()
    cres = run_c(ctx, exe, cases)
    t2 = time.time()
    findings = evaluate(ctx, cases, coq, cres, K)
    report(ctx, findings)
    for c in [c for c in cases if c["kind"] == "equil" and c["p"] == "d"][:2] + [c for c in cases if c["kind"] == "gssvx" and c["p"] == "z"][:1]:
        ctx.sample({"c_line": c_line(c), "c": cres.get(c["id"]), "coq": [hx(x) if x == x else "nan" for x in coq.get(c["id"], [])]})
    ctx.log("correspondence: %d cases (%d corpus); vm_compute %.1fs, C %.1fs, compare+oracle %.1fs; %d findings" %
            (len(cases), ncorp, t1 - t0, t2 - t1, time.time() - t2, len(findings)))


def fix_case(c):
    """JSON turns tuples into lists"""
    c = dict(c)
    cplx = c["p"] in "cz"
    c["ents"] = [(e[0], e[1], tuple(e[2]) if cplx else e[2]) for e in c["ents"]]
    if "B" in c and cplx:
        c["B"] = [[tuple(x) for x in col] for col in c["B"]]
    return c


def replay(ctx, obj):
    rp = obj.get("replay", obj)
    if rp.get("kind") != "case":
        print("nothing to replay (obligation-only record): %s" % rp.get("broken"))
        return 0
    ctx.gen_consts()
    K = consts()
    exe = build(ctx)
    cases = [fix_case(c) for c in rp["cases"]]
    for i, c in enumerate(cases):
        c["id"] = "e%d" % i
    coq, _ = run_coq(ctx, cases)
    cres = run_c(ctx, exe, cases)
    findings = evaluate(ctx, cases, coq, cres, K, count=False)
    for c in cases:
        print("case %s\n  C   : %s\n  Coq : %s" % (c_line(c), cres.get(c["id"]), [hx(x) if x == x else "nan" for x in coq.get(c["id"], [])]))
    if findings:
        report(ctx, findings)
        return 1 if ctx.violations else 0
    return 0
