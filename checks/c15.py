"""C15 - illegal arguments yield info = -i for the first offender and no side effects.

Coq: coq/ArgCheckModel.v (the argument-test chains of p?gssv, p?gssvx, ?gstrs, ?gsrfs, ?gscon, ?gsequ,
sp_?trsv, sp_?gemv mirrored statement by statement + the documented preconditions as tables),
coq/ArgCheckProofs.v, coq/Properties_C15.v.
Correspondence: every single violation and every pair of violations over a set of legal base calls,
in the four precisions, is run through the extracted model (extract/argcheck_driver.ml) and through the
real routines (harness/argcheck_harness.c, library flavour `fault`): info, the xerbla_ report (name,
position, count), hashes of all argument-reachable memory, heap counters."""
import os, re, json, itertools, time
from concurrent.futures import ThreadPoolExecutor
import vf

MANIFEST = {
    "text": "Machine-checked (Coq 8.16.1) theorems that the argument-test chain of each of the 8 routine families "
            "returns -(position of the first documented precondition violated) or 0, for all argument records "
            "(full for p?gssvx, ?gscon, ?gsequ; partial + refuted-with-witness where the unchanged code deviates from "
            "its documentation: p?gssv, ?gstrs, ?gsrfs, sp_?trsv, sp_?gemv), and that the rejecting path allocates "
            "nothing and writes to no argument; the hand-written model is tied to the C code by an exhaustive "
            "single+pair violation enumeration executed on the real routines in 4 precisions on every run.",
    "note": "The argument tests of p?gssv, ?gstrs, ?gsrfs, ?gscon, ?gsequ, sp_?trsv, sp_?gemv (4 precisions) are RE-TRANSLATED from the current source on every run (tools/c2gal.py over the clang AST -> coq/ArgCheckGen.v) and proved equal to the hand-written model (ArgCheckTie.v, c15_source_is_model); p?gssvx (floating-point scans of R and C) is tied by the executed correspondence only. Scale-factor tests are modelled "
            "over exact rationals (NaN/Inf scale factors are out of scope). What happens after a call passes its tests "
            "is not modelled here (other properties).",
    "technique": "Coq theorems about an executable Gallina model, the model proved equal to a translation of the C source regenerated on every run, + exhaustive model-vs-C correspondence (extracted OCaml vs real library)",
    "design_ref": "DESIGN.md section 5 / C15",
}

PRECS = "sdcz"
ROUTE = ["-Dmalloc=verif_malloc", "-Dfree=verif_free"]
XNAME = {"gssv": "p%sgssv", "gssvx": "p%sgssvx", "gstrs": "%sgstrs", "gsrfs": "%sgsrfs", "gscon": "%sgscon",
         "gsequ": "%sgsequ", "trsv": "sp_%strsv", "gemv": "sp_%sgemv~"}
POSITIONAL = {"L-U-numbered-3-4", "trans-C-rejected", "lda0-with-n0-rejected"}
PROTECTED = {"A", "B", "X", "L", "U", "perm_c", "perm_r", "R", "C", "x", "y", "out", "Gstat"}


def consts():
    """values of the generated coq/Consts.v (regenerated from the headers by coq_properties)"""
    c = {}
    for m in re.finditer(r"Definition c_(\w+) : Z := \(?(-?\d+)\)?\.", open(os.path.join(vf.COQ, "Consts.v")).read()):
        c[m.group(1)] = int(m.group(2))
    return c


# ----------------------------------------------------------------------------- case space
def mat(K, p, kind, n=3):
    dt = K["SLU_" + p.upper()]
    if kind == "A":
        return {"st": K["SLU_NC"], "dt": dt, "mt": K["SLU_GE"], "nr": n, "nc": n}
    if kind == "L":
        return {"st": K["SLU_SCP"], "dt": dt, "mt": K["SLU_TRLU"], "nr": n, "nc": n}
    if kind == "U":
        return {"st": K["SLU_NCP"], "dt": dt, "mt": K["SLU_TRU"], "nr": n, "nc": n}
    return {"st": K["SLU_DN"], "dt": dt, "mt": K["SLU_GE"], "nr": n, "nc": 2, "lda": 3}


def flat(d):
    out = {}
    for k, v in d.items():
        if isinstance(v, dict):
            for f, x in v.items():
                out["%s.%s" % (k, f)] = x
        else:
            out[k] = v
    return out


def other_dtypes(K, p, all_):
    o = [K["SLU_" + q.upper()] for q in PRECS if q != p]
    return o if all_ else o[:1]


def mat_viol(K, p, name, pos, kind, thorough, square=True, lda_of=None):
    """atomic violations (name, documented position, group, {field: value}) for one matrix argument"""
    v = []
    if kind == "DN":
        pass
    elif square:
        v += [("%s.nr=2" % name, pos, "shape", {name + ".nr": 2}), ("%s.nr=-1" % name, pos, "shape", {name + ".nr": -1}),
              ("%s.nc=2" % name, pos, "shape", {name + ".nc": 2}), ("%s.nc=-1" % name, pos, "shape", {name + ".nc": -1})]
    else:
        v += [("%s.nr=-1" % name, pos, "shape", {name + ".nr": -1}), ("%s.nc=-1" % name, pos, "shape", {name + ".nc": -1})]
    wrong_st = {"A": [K["SLU_SC"], K["SLU_DN"]], "L": [K["SLU_SC"], K["SLU_NC"]], "U": [K["SLU_NC"], K["SLU_NR"]],
                "DN": [K["SLU_NC"], K["SLU_NR"]], "Agemv": [K["SLU_NR"], K["SLU_DN"]], "Asrfs": [K["SLU_NR"], K["SLU_NCP"]]}[kind]
    wrong_mt = {"A": [K["SLU_TRU"], K["SLU_SYL"]], "L": [K["SLU_GE"], K["SLU_TRL"]], "U": [K["SLU_GE"], K["SLU_TRUU"]],
                "DN": [K["SLU_TRLU"], K["SLU_SYU"]], "Agemv": [K["SLU_TRU"], K["SLU_HEL"]], "Asrfs": [K["SLU_TRU"], K["SLU_SYL"]]}[kind]
    for s in (wrong_st if thorough else wrong_st[:1]):
        v.append(("%s.st=%d" % (name, s), pos, "type", {name + ".st": s}))
    for d in other_dtypes(K, p, thorough):
        v.append(("%s.dt=%d" % (name, d), pos, "type", {name + ".dt": d}))
    for m in (wrong_mt if thorough else wrong_mt[:1]):
        v.append(("%s.mt=%d" % (name, m), pos, "type", {name + ".mt": m}))
    if kind == "DN":
        v += [("%s.nc=-1" % name, pos, "ncol", {name + ".nc": -1}),
              ("%s.lda=2" % name, pos, "lda", {name + ".lda": 2}), ("%s.lda=-1" % name, pos, "lda", {name + ".lda": -1})]
        if thorough:
            v.append(("%s.lda=0" % name, pos, "lda", {name + ".lda": 0}))
    return v


def zero_n(base, mats):
    b = json.loads(json.dumps(base))
    for m in mats:
        b[m]["nr"] = 0
        if m in ("A", "L", "U"):
            b[m]["nc"] = 0
    return b


def space(K, p, thorough):
    """per routine: (list of (tag, base record), list of atomic violations)"""
    sp = {}
    big = "2^1023" if p in "dz" else "2^127"
    # ---- p?gssv
    bases = []
    for st in ("NC", "NR"):
        b = {"np": 1, "A": mat(K, p, "A"), "B": mat(K, p, "B")}
        b["A"]["st"] = K["SLU_" + st]
        bases.append(("n3-" + st, b))
    b0 = zero_n(bases[0][1], ["A", "B"]); bases.append(("n0", b0))
    b00 = json.loads(json.dumps(b0)); b00["B"]["lda"] = 0; bases.append(("n0-lda0", b00))
    # no right-hand side at all (B->ncol = 0 is legal): the tests of B's other fields must not depend on it
    bz = json.loads(json.dumps(bases[0][1])); bz["B"]["nc"] = 0; bases.append(("n3-nrhs0", bz))
    if thorough:
        b4 = json.loads(json.dumps(bases[0][1])); b4["np"] = 4; bases.append(("n3-np4", b4))
    V = [("np=0", 1, "value", {"np": 0}), ("np=-1", 1, "value", {"np": -1})]
    V += mat_viol(K, p, "A", 2, "A", thorough) + mat_viol(K, p, "B", 7, "DN", thorough)
    sp["gssv"] = (bases, V)
    # ---- p?gssvx
    def gx(fact, equed, st, trans="NOTRANS", R="1,2,1/2", C="1/2,1,4"):
        b = {"np": 1, "fact": K[fact], "trans": K[trans], "refact": K["NO"], "usepr": K["NO"], "lwork": 0,
             "A": mat(K, p, "A"), "equed": K[equed], "R": R, "C": C, "B": mat(K, p, "B"), "X": mat(K, p, "X")}
        b["A"]["st"] = K["SLU_" + st]
        return b
    bases = []
    for st in ("NC", "NR"):
        for fact, eq in [("DOFACT", "NOEQUIL"), ("EQUILIBRATE", "BOTH"), ("FACTORED", "NOEQUIL"), ("FACTORED", "ROW"),
                         ("FACTORED", "COL"), ("FACTORED", "BOTH")]:
            bases.append(("%s-%s-%s" % (fact, eq, st), gx(fact, eq, st)))
    for fact, eq in [("DOFACT", "NOEQUIL"), ("EQUILIBRATE", "BOTH"), ("FACTORED", "ROW")]:
        bq = gx(fact, eq, "NC"); bq["lwork"] = -1          # workspace query: the argument tests are the same
        bases.append(("%s-%s-query" % (fact, eq), bq))
    bases.append(("DOFACT-TRANS", gx("DOFACT", "NOEQUIL", "NC", "TRANS")))
    bases.append(("FACTORED-BOTH-CONJ", gx("FACTORED", "BOTH", "NC", "CONJ")))
    bases.append(("FACTORED-BOTH-bigR", gx("FACTORED", "BOTH", "NC", R="1,%s,1" % big, C="1/2^20,1,1")))
    bases.append(("n0-DOFACT", zero_n(gx("DOFACT", "NOEQUIL", "NC"), ["A", "B", "X"])))
    bases.append(("n0-FACTORED-BOTH", zero_n(gx("FACTORED", "BOTH", "NC", R="0,0,0", C="-1,0,1"), ["A", "B", "X"])))
    if thorough:
        for tr in ("TRANS", "CONJ"):
            for fact, eq in [("EQUILIBRATE", "NOEQUIL"), ("FACTORED", "ROW"), ("FACTORED", "COL")]:
                bases.append(("%s-%s-NR-%s" % (fact, eq, tr), gx(fact, eq, "NR", tr)))
    V = [("np=0", 1, "value", {"np": 0}), ("np=-1", 1, "value", {"np": -1}),
         ("fact=3", 2, "value", {"fact": 3}), ("fact=-1", 2, "value", {"fact": -1}),
         ("trans=3", 2, "value", {"trans": 3}), ("trans=-1", 2, "value", {"trans": -1}),
         ("refact=2", 2, "value", {"refact": 2}), ("refact=-1", 2, "value", {"refact": -1}),
         ("usepr=2", 2, "value", {"usepr": 2}), ("usepr=-1", 2, "value", {"usepr": -1}),
         ("lwork=-2", 2, "value", {"lwork": -2})]
    V += mat_viol(K, p, "A", 3, "A", thorough)
    V += [("equed=4", 6, "value", {"equed": 4}), ("equed=-1", 6, "value", {"equed": -1}),
          ("R[1]=0", 7, "scale", {"R": "1,0,1"}), ("R[2]<0", 7, "scale", {"R": "1,1,-1/2"}),
          ("C[0]=0", 8, "scale", {"C": "0,1,1"}), ("C[2]<0", 8, "scale", {"C": "1/2,%s,-1" % big})]
    V += mat_viol(K, p, "B", 11, "DN", thorough) + mat_viol(K, p, "X", 12, "DN", thorough)
    V += [("X.nc=1", 12, "ncol", {"X.nc": 1})]
    sp["gssvx"] = (bases, V)
    # ---- ?gstrs
    bases = []
    for tr in ("NOTRANS", "TRANS", "CONJ"):
        bases.append((tr, {"trans": K[tr], "L": mat(K, p, "L"), "U": mat(K, p, "U"), "B": mat(K, p, "B")}))
    bases.append(("n0", zero_n(bases[0][1], ["L", "U", "B"])))
    V = [("trans=3", 1, "value", {"trans": 3}), ("trans=-1", 1, "value", {"trans": -1})]
    V += mat_viol(K, p, "L", 2, "L", thorough) + mat_viol(K, p, "U", 3, "U", thorough) + mat_viol(K, p, "B", 6, "DN", thorough)
    sp["gstrs"] = (bases, V)
    # ---- ?gsrfs
    bases = []
    for tr in ("NOTRANS", "TRANS", "CONJ"):
        for eq in ("NOEQUIL", "BOTH"):
            bases.append(("%s-%s" % (tr, eq), {"trans": K[tr], "A": mat(K, p, "A"), "L": mat(K, p, "L"), "U": mat(K, p, "U"),
                                              "equed": K[eq], "B": mat(K, p, "B"), "X": mat(K, p, "X")}))
    bases.append(("n0", zero_n(bases[0][1], ["A", "L", "U", "B", "X"])))
    V = [("trans=3", 1, "value", {"trans": 3}), ("trans=-1", 1, "value", {"trans": -1})]
    V += mat_viol(K, p, "A", 2, "Asrfs", thorough) + mat_viol(K, p, "L", 3, "L", thorough) + mat_viol(K, p, "U", 4, "U", thorough)
    V += mat_viol(K, p, "B", 10, "DN", thorough) + mat_viol(K, p, "X", 11, "DN", thorough)
    V += [("X.nc=1", 11, "ncol", {"X.nc": 1})]
    sp["gsrfs"] = (bases, V)
    # ---- ?gscon
    bases = []
    for ch in "1OoIi":
        bases.append(("norm" + ch, {"norm": ord(ch), "L": mat(K, p, "L"), "U": mat(K, p, "U")}))
    bases.append(("n0", zero_n(bases[0][1], ["L", "U"])))
    V = [("norm=X", 1, "value", {"norm": ord("X")}), ("norm=0", 1, "value", {"norm": ord("0")}), ("norm=nul", 1, "value", {"norm": 0})]
    V += mat_viol(K, p, "L", 2, "L", thorough) + mat_viol(K, p, "U", 3, "U", thorough)
    sp["gscon"] = (bases, V)
    # ---- ?gsequ
    bases = [("n3", {"A": mat(K, p, "A")})]
    for nr, nc in ((0, 0), (0, 3), (3, 0)):
        b = {"A": mat(K, p, "A")}; b["A"]["nr"] = nr; b["A"]["nc"] = nc
        bases.append(("%dx%d" % (nr, nc), b))
    V = mat_viol(K, p, "A", 1, "Asrfs", thorough, square=False)
    sp["gsequ"] = (bases, V)
    # ---- sp_?trsv
    bases = []
    for u, t, d in (("L", "N", "U"), ("U", "N", "N"), ("l", "t", "u"), ("u", "T", "n"), ("L", "C", "U"), ("U", "c", "N")):
        bases.append((u + t + d, {"uplo": ord(u), "trans": ord(t), "diag": ord(d), "L": mat(K, p, "L"), "U": mat(K, p, "U")}))
    bases.append(("n0", zero_n(bases[0][1], ["L", "U"])))
    V = [("uplo=X", 1, "value", {"uplo": ord("X")}), ("uplo=nul", 1, "value", {"uplo": 0}),
         ("trans=X", 2, "value", {"trans": ord("X")}), ("trans=1", 2, "value", {"trans": ord("1")}),
         ("diag=X", 3, "value", {"diag": ord("X")}), ("diag=L", 3, "value", {"diag": ord("L")})]
    V += mat_viol(K, p, "L", 4, "L", thorough) + mat_viol(K, p, "U", 5, "U", thorough)
    sp["trsv"] = (bases, V)
    # ---- sp_?gemv
    bases = []
    for t in "NnTtCc":
        bases.append(("trans" + t, {"trans": ord(t), "A": mat(K, p, "A"), "incx": 1, "incy": 1}))
    bases.append(("n0", zero_n(bases[0][1], ["A"])))
    V = [("trans=X", 1, "value", {"trans": ord("X")}), ("trans=nul", 1, "value", {"trans": 0})]
    V += mat_viol(K, p, "A", 3, "Agemv", thorough, square=False)
    V += [("incx=0", 5, "value", {"incx": 0}), ("incy=0", 8, "value", {"incy": 0})]
    sp["gemv"] = (bases, V)
    return sp


def pair_bases(rt, bases, thorough):
    """bases on which the pairs are enumerated (quick: a fixed subset; thorough: all)"""
    if thorough or rt != "gssvx":
        return bases
    keep = {"DOFACT-NOEQUIL-NC", "EQUILIBRATE-BOTH-NR", "FACTORED-ROW-NR", "FACTORED-COL-NC", "FACTORED-BOTH-NC",
            "FACTORED-BOTH-CONJ", "n0-FACTORED-BOTH"}
    return [b for b in bases if b[0] in keep]


def gen_cases(ctx, K):
    thorough = not ctx.quick()
    cases = []
    for p in PRECS:
        sp = space(K, p, thorough)
        for rt, (bases, V) in sp.items():
            pb = set(t for t, _ in pair_bases(rt, bases, thorough))
            for tag, base in bases:
                fb = flat(base)
                combos = [()] + [(v,) for v in V]
                if tag in pb:
                    for a, b in itertools.combinations(V, 2):
                        if set(a[3]) & set(b[3]):
                            continue                       # same field twice
                        flds = set(a[3]) | set(b[3])
                        if any(m + ".nr" in flds and m + ".nc" in flds and (a[3].get(m + ".nr", b[3].get(m + ".nr")) == 2)
                               and (a[3].get(m + ".nc", b[3].get(m + ".nc")) == 2) for m in "ALU"):
                            continue                       # nr=2 & nc=2: a square 2x2 header over 3x3 storage is not a violation
                        combos.append((a, b))
                if thorough and rt not in ("gssvx", "gsrfs") and not tag.startswith("n0"):
                    for tr in itertools.combinations(V, 3):          # thorough: all triples for the smaller chains
                        flds = [f for v in tr for f in v[3]]
                        if len(flds) != len(set(flds)):
                            continue
                        rec3 = {}
                        for v in tr:
                            rec3.update(v[3])
                        if any(rec3.get(m + ".nr") == 2 and rec3.get(m + ".nc") == 2 for m in "ALU"):
                            continue
                        combos.append(tr)
                for combo in combos:
                    rec = dict(fb)
                    for v in combo:
                        rec.update(v[3])
                    cases.append({"rt": rt, "p": p, "base": tag, "viol": [v[0] for v in combo],
                                  "vmeta": [(v[0], v[1], v[2]) for v in combo], "rec": rec})
    # a seeded stream of 3..5-fold violations (not part of the exhaustive claim)
    nrand = 400 if ctx.quick() else 6000
    for _ in range(nrand):
        p = ctx.rng.choice(PRECS)
        sp = space(K, p, thorough)
        rt = ctx.rng.choice(sorted(sp))
        bases, V = sp[rt]
        tag, base = ctx.rng.choice(bases)
        k = ctx.rng.randint(3, 5)
        combo, used = [], set()
        for v in ctx.rng.sample(V, min(k, len(V))):
            if set(v[3]) & used:
                continue
            used |= set(v[3]); combo.append(v)
        rec = dict(flat(base))
        for v in combo:
            rec.update(v[3])
        if any(rec.get(m + ".nr") == 2 and rec.get(m + ".nc") == 2 for m in "ALU"):
            continue
        cases.append({"rt": rt, "p": p, "base": tag, "viol": [v[0] for v in combo],
                      "vmeta": [(v[0], v[1], v[2]) for v in combo], "rec": rec, "random": True})
    for i, c in enumerate(cases):
        c["id"] = "c%d" % i
    return cases


def line_of(c):
    return "%s %s %s %s" % (c["id"], c["rt"], c["p"], " ".join("%s=%s" % kv for kv in sorted(c["rec"].items())))


# ----------------------------------------------------------------------------- running both sides
def parse_kv(s):
    d = {}
    for t in s.split():
        if "=" in t:
            k, v = t.split("=", 1); d[k] = v
    return d


def run_model(drv, cases):
    rc, out, err = vf.sh2([drv], inp="\n".join(line_of(c) for c in cases) + "\n", timeout=600)
    if rc != 0:
        raise vf.CheckError("argcheck model driver failed: rc=%d %s" % (rc, err[-500:]))
    res = {}
    for ln in out.split("\n"):
        t = ln.split(" ", 1)
        if len(t) == 2 and t[0].startswith("c"):
            res[t[0]] = parse_kv(t[1])
    return res


def run_c(exe, cases, nproc):
    chunks = [cases[i::nproc] for i in range(nproc)]
    chunks = [c for c in chunks if c]

    def one(ch):
        rc, out, err = vf.sh2([exe], inp="\n".join(line_of(c) for c in ch) + "\n", timeout=900)
        return rc, out, err
    res = {}
    with ThreadPoolExecutor(len(chunks) or 1) as ex:
        for rc, out, err in ex.map(one, chunks):
            if "SETUP-OK" not in out:
                raise vf.CheckError("argcheck harness setup failed (rc=%d): %s %s" % (rc, out[-400:], err[-400:]))
            for ln in out.split("\n"):
                if ln.startswith("R "):
                    t = ln.split(" ", 2)
                    if len(t) == 3:
                        d = parse_kv(t[2])
                        if t[1] in res and "status" in d and d["status"].startswith(("crash", "exit")):
                            res[t[1]]["status"] = d["status"]     # child printed, then died
                        elif t[1] not in res:
                            res[t[1]] = d
    return res


def proceed_safe(c):
    """may the real routine be allowed to run past its tests on this record?  (the storage behind the headers
    is the prepared 3x3 system; headers that pass the tests but lie about it are not run)"""
    r, rt = c["rec"], c["rt"]
    dims = [(r[m + ".nr"], r[m + ".nc"]) for m in "ALU" if m + ".nr" in r]
    if all(d == (3, 3) for d in dims):
        return True
    if rt in ("gsrfs", "gscon", "trsv", "gemv", "gstrs") and all(d == (0, 0) for d in dims):
        return True
    if rt == "gsequ" and all(d in ((0, 0), (0, 3), (3, 0)) for d in dims):
        return True
    return False


def expected_changes(c, m):
    """regions the model says may differ after a rejected call"""
    ch = set()
    if c["rt"] == "gssvx":
        if m["optperm"] == "1":
            ch.add("opt")
        if int(m["equed"]) != int(c["rec"]["equed"]):
            ch.add("equed")
    return ch


def c_agrees_with_model(c, m, r):
    """-> list of differences between the C observation r and the model outcome m (empty = agree)"""
    d = []
    own = XNAME[c["rt"]] % c["p"]
    st = r.get("status", "?")
    mi = int(m["model"])
    if mi < 0:
        if st != "ok":
            return ["status=%s on a call the model rejects with %d" % (st, mi)]
        if int(r["info"]) != mi:
            d.append("info=%s model=%d" % (r["info"], mi))
        if r["xn"] != "1" or r["x0"] != "%s:%d" % (own, -mi):
            d.append("xerbla calls=%s first=%s expected one call %s:%d" % (r["xn"], r["x0"], own, -mi))
        got = set() if r["chg"] == "-" else set(r["chg"].split(","))
        if got != expected_changes(c, m):
            d.append("changed regions %s expected %s" % (sorted(got), sorted(expected_changes(c, m))))
        if c["rt"] == "gssvx" and (r["equed"] != m["equed"] or r["optperm"] != m["optperm"]):
            d.append("equed/optperm %s/%s model %s/%s" % (r["equed"], r["optperm"], m["equed"], m["optperm"]))
        if r["dalloc"] != m["allocs"] or r["dlive"] != "0":
            d.append("allocations=%s live=%s model allocs=%s" % (r["dalloc"], r["dlive"], m["allocs"]))
    else:
        # the model only says: no test of this routine fires, execution continues (for ?gstrs also what the
        # inner sp_?trsv calls leave in *info)
        fin, spec = int(m.get("final", 0)), int(m["spec"])
        if r.get("own", "0") != "0":
            d.append("xerbla_ called by %s (%s) although the model passes all tests" % (own, r.get("x0")))
        elif fin < 0:
            inner = "sp_%strsv:%d" % (c["p"], -fin)
            if st != "ok" or int(r["info"]) != fin or r["x0"] != inner:
                d.append("status=%s info=%s first xerbla=%s; model: inner %s, info=%d" % (st, r.get("info"), r.get("x0"), inner, fin))
        elif st == "ok" and int(r["info"]) < 0:
            d.append("info=%s although the model passes all tests" % r["info"])
        elif spec == 0 and st != "ok":
            d.append("status=%s on a documented-legal call" % st)
        elif spec == 0 and not c["viol"] and int(r["info"]) != 0 and not (c.get("base", "").endswith("-query") and int(r["info"]) > 0):
            d.append("info=%s on the legal base call" % r["info"])      # (a legal workspace query answers info = n + estimate > 0)
    return d


def oracle(c, spec, r):
    """the property's own oracle on the C observation: documented violation => info=-i of the first offender through
    xerbla_, protected arguments untouched, nothing allocated is retained.  -> list of failures"""
    f = []
    if spec >= 0:
        return f
    own = XNAME[c["rt"]] % c["p"]
    st = r.get("status", "?")
    if st != "ok":
        return ["%s instead of info=%d" % (st, spec)]
    if int(r["info"]) != spec:
        f.append("info=%s expected %d" % (r["info"], spec))
    if r["own"] != "1" or r["x0"] != "%s:%d" % (own, -spec):
        f.append("xerbla report %s (own calls %s) expected %s:%d" % (r["x0"], r["own"], own, -spec))
    got = set() if r["chg"] == "-" else set(r["chg"].split(","))
    if got & PROTECTED:
        f.append("arguments modified: %s" % sorted(got & PROTECTED))
    if r["dlive"] != "0":
        f.append("memory retained: %s blocks" % r["dlive"])
    return f


def _types(r, m, st, dt, mt):
    return r[m + ".st"] == st and r[m + ".dt"] == dt and r[m + ".mt"] == mt


def _sq(r, m):
    return r[m + ".nr"] == r[m + ".nc"] and r[m + ".nr"] >= 0


def reasons(c, K):
    """the deviations of the unchanged code from its documentation that are excluded by the hypotheses of the
    `_partial` theorems of Properties_C15.v and exhibited by their `_refuted` companions -> names active on this record"""
    r, p, rt = c["rec"], c["p"], c["rt"]
    dt = K["SLU_" + p.upper()]
    lt = lambda m: _types(r, m, K["SLU_SCP"], dt, K["SLU_TRLU"])
    ut = lambda m: _types(r, m, K["SLU_NCP"], dt, K["SLU_TRU"])
    dn = lambda m: _types(r, m, K["SLU_DN"], dt, K["SLU_GE"])
    a = []
    if rt == "gssv":
        if not dn("B"): a.append("B-type-tags-untested")
        if r["A.nr"] == 0 and r["B.lda"] < 1: a.append("lda0-with-n0-rejected")
    elif rt == "gstrs":
        if not _sq(r, "L") or not _sq(r, "U"): a.append("L-U-numbered-3-4")
        if not (lt("L") and ut("U") and dn("B")): a.append("type-tags-untested")
        if r["B.nc"] < 0: a.append("B.ncol-untested")
    elif rt == "gsrfs":
        if r["B.nc"] < 0 or r["X.nc"] != r["B.nc"]: a.append("ncol-untested")
    elif rt == "trsv":
        if chr(r["trans"]) in "Cc" if 0 < r["trans"] < 128 else False: a.append("trans-C-rejected")
        if not (lt("L") and ut("U")): a.append("type-tags-untested")
    elif rt == "gemv":
        if not (r["A.st"] in (K["SLU_NC"], K["SLU_NCP"]) and r["A.dt"] == dt and r["A.mt"] == K["SLU_GE"]):
            a.append("type-tags-untested")
    return a


def evaluate(ctx, cases, mres, cres, K):
    """compare; returns list of (kind, case, detail)"""
    findings = []
    for c in cases:
        m = mres.get(c["id"])
        if m is None or m["model"] in ("UB", "ERR"):
            findings.append(("model-undefined", c, "model=%s" % (m and m["model"])))
            continue
        spec, mi = int(m["spec"]), int(m["model"])
        kind = "%s/%s" % (c["rt"], "legal" if spec == 0 else ("single" if len(c["viol"]) == 1 else "pair" if len(c["viol"]) == 2 else "multi"))
        ctx.count([c["rt"], c["p"], c["base"], c["viol"]], nontrivial=(spec < 0), kind=kind)
        r = cres.get(c["id"])
        if r is None:
            ctx.corr("model-only (header passes the tests but lies about the storage; not run on C)")
            continue
        ctx.corr("model vs C: %s" % c["rt"])
        diff = c_agrees_with_model(c, m, r)
        fails = oracle(c, spec, r)
        if diff:
            findings.append(("impl-differs-from-model", c, {"diff": diff, "oracle": fails, "model": m, "c": r}))
        elif fails:
            rs = reasons(c, K)
            # a call rejected at another position can only be explained by a numbering/ordering deviation,
            # a call that is not rejected only by an untested condition
            rel = [x for x in rs if (x in POSITIONAL) == (mi < 0)]
            findings.append(("doc-deviation", c, {"oracle": fails, "reasons": rel or rs, "model": m, "c": r}))
        elif spec == 0 and (mi < 0 or int(m.get("final", 0)) < 0):
            findings.append(("legal-call-rejected", c, {"reasons": reasons(c, K), "model": m, "c": r}))
    return findings


def build(ctx):
    # SRC/sp_colorder.c:89 obtains AC->Store with plain malloc() and releases it with SUPERLU_FREE, qrnzcnt.c /
    # cholnzcnt.c / p?memory.c release SUPERLU_MALLOC'ed blocks with plain free(): with USER_MALLOC/USER_FREE
    # overridden the pairs no longer match, so the library objects also get malloc/free routed to the interposer.
    lib, fl = ctx.build_lib("fault", extra=ROUTE)
    hfl = [f for f in fl if f not in ROUTE]
    exe = ctx.cc_harness("argcheck", ["argcheck_harness.c", "sp_ienv_verif.c", "verif_malloc.c"], lib, hfl)
    drv = ctx.ocaml_model("argcheck")
    return exe, drv


def run_cases(ctx, exe, drv, cases):
    mres = run_model(drv, cases)
    torun = [c for c in cases if c["id"] in mres and mres[c["id"]]["model"] not in ("UB", "ERR") and
             (int(mres[c["id"]]["model"]) < 0 or proceed_safe(c))]
    cres = run_c(exe, torun, min(vf.NCPU, 16))
    missing = [c["id"] for c in torun if c["id"] not in cres]
    if missing:
        raise vf.CheckError("harness produced no result for %d cases, e.g. %s" % (len(missing), missing[:3]))
    return mres, cres


def report(ctx, findings):
    """turn findings into VIOLATION / broken entries"""
    dev, conv, impl, corr = {}, {}, {}, {}
    for kind, c, det in findings:
        slim = {k: c[k] for k in ("rt", "p", "base", "viol", "vmeta", "rec")}
        if kind in ("doc-deviation", "legal-call-rejected"):
            tgt = dev if kind == "doc-deviation" else conv
            for rs in (det["reasons"] or ["unexplained"]):
                e = tgt.setdefault((c["rt"], rs), {"precs": set(), "n": 0, "example": None})
                e["precs"].add(c["p"]); e["n"] += 1
                rank = (len(det["reasons"]), len(c["viol"]), c["base"].startswith("n0"))
                if e["example"] is None or rank < e["example"][2]:
                    e["example"] = (slim, det, rank)
        elif kind == "impl-differs-from-model":
            if det["oracle"]:
                e = impl.setdefault((c["rt"], c["p"]), {"n": 0, "example": None})
                e["n"] += 1
                rank = (len(c["viol"]), c["base"].startswith("n0"), len(det["oracle"]))
                if e["example"] is None or rank < e["example"][2]:
                    e["example"] = (slim, det, rank)
            else:
                e = corr.setdefault((c["rt"], c["p"]), {"n": 0, "example": None})
                e["n"] += 1
                rank = (len(c["viol"]), c["base"].startswith("n0"))
                if e["example"] is None or rank < e["example"][2]:
                    e["example"] = (slim, det, rank)
        else:
            ctx.broken.append("ArgCheck %s: %s%s base %s violations %s: %s" % (kind, c["p"], c["rt"], c["base"], c["viol"], str(det)[:200]))
    for (rt, p), e in sorted(impl.items()):
        slim, det, _ = e["example"]
        ctx.violation("%s: the C code differs from the model and fails the property: %s (base %s, violations %s; %d such cases)" %
                      (XNAME[rt] % p, "; ".join(det["oracle"]), slim["base"], slim["viol"], e["n"]),
                      {"kind": "case", "cases": [slim], "detail": det},
                      key={"kind": "impl-differs-from-model", "routine": rt, "prec": p}, found_input=True)
    for (rt, p), e in sorted(corr.items()):
        # the property's oracle holds on these inputs (e.g. a documented-legal call is now rejected), but the C code
        # no longer behaves as the model that the theorems are about
        slim, det, _ = e["example"]
        msg = "correspondence ArgCheck %s: %s (base %s, violations %s; %d such cases)" % (
            XNAME[rt] % p, "; ".join(det["diff"])[:300], slim["base"], slim["viol"], e["n"])
        ctx.broken.append(msg)
        ctx.violation(msg, {"kind": "case", "cases": [slim], "detail": det},
                      key={"kind": "correspondence-broken", "routine": rt, "prec": p}, found_input=False)
    for (rt, rs), e in sorted(dev.items()):
        slim, det, _ = e["example"]
        ctx.violation("%s [%s]: a documented precondition is violated but the unchanged argument test answers: %s  "
                      "(base %s, violations %s; %d cases, precisions %s)" %
                      (XNAME[rt] % "?", rs, "; ".join(det["oracle"]), slim["base"], slim["viol"], e["n"], "".join(sorted(e["precs"]))),
                      {"kind": "case", "cases": [slim], "detail": det},
                      key={"kind": "doc-deviation", "routine": rt, "reason": rs},
                      found_input=True)
    return dev, conv


def run(ctx):
    ctx.cov["rule"] = ("for each of the 8 routine families x 4 precisions: a set of legal base calls (storage orientation, fact/equed/"
                       "trans options, character options in both cases, n=3 and n=0) x {no violation, every single atomic violation, "
                       "every pair of atomic violations on different fields} (exhaustive; thorough tier: also every triple for the six shorter "
                       "chains, more base calls and more wrong tag values), plus a seeded stream of 3..5-fold violations; "
                       "an atomic violation sets one field of the abstract argument record (dimension, type tag, option value, lda, ncol, "
                       "scale-factor entry) to an illegal value; non-trivial = the documentation is violated (spec < 0)")
    ctx.cov["exhaustive"] = True
    ctx.cov["partial"] += [
        "p?gssv: B type tags untested by the code; lda=0 with n=0 rejected (gssv_first_offender_partial/_refuted)",
        "?gstrs: L,U reported as arguments 3,4 (documented 2,3); type tags and B->ncol untested (gstrs_first_offender_partial/_refuted)",
        "?gsrfs: B->ncol < 0 and X->ncol != B->ncol untested (gsrfs_first_offender_partial/_refuted)",
        "sp_?trsv: documented trans='C' rejected, type tags untested (trsv_first_offender_partial/_refuted)",
        "sp_?gemv: type tags of A untested (gemv_first_offender_partial/_refuted)",
        "scale factors R,C are modelled as exact rationals: NaN/Inf entries are outside the model",
        "undocumented ranges (diag_pivot_thresh, drop_tol, panel_size, relax, anorm) are not part of the tables",
        "the model stops where a call passes its tests; what the routine does afterwards belongs to other properties",
    ]
    ctx.cov["trusted_base"] += [
        "harness/argcheck_harness.c: construction of the C arguments from the abstract record (headers may lie, storage is a prepared 3x3 system), "
        "FNV hashes of argument-reachable memory, own xerbla_ (replaces SRC/xerbla.c at link time), fork per case",
        "harness/verif_malloc.c counters for the heap balance (library flavour `fault`: -O1, USER_MALLOC/USER_FREE/USER_ABORT interposed)",
        "transcription of the header comments into doc_* tables (coq/ArgCheckModel.v) is by hand",
    ]
    ctx.assumptions += [
        "int_t is a 32-bit int: the argument records are modelled over Z, all enumerated values are far from the overflow range",
        "the documented preconditions are the tables doc_* of coq/ArgCheckModel.v (hand transcription of the header comments; "
        "scope = the list in the property text: thread count, shape/type of A, option values, lwork, type/shape/lda of B and X, equed and scale factors)",
        "scale factors are finite numbers (no NaN/Inf)",
    ]
    proofs_ok = ctx.coq_properties()
    K = consts()
    exe, drv = build(ctx)
    t = time.time()
    cases = []
    cdir = os.path.join(vf.VERIF, "corpus", "C15")
    if os.path.isdir(cdir):
        for f in sorted(os.listdir(cdir)):
            if f.endswith(".json"):
                for c in json.load(open(os.path.join(cdir, f))).get("cases", []):
                    c = dict(c); c["corpus"] = f; cases.append(c)
    ncorp = len(cases)
    cases += gen_cases(ctx, K)
    for i, c in enumerate(cases):
        c["id"] = "c%d" % i
    mres, cres = run_cases(ctx, exe, drv, cases)
    findings = evaluate(ctx, cases, mres, cres, K)
    dev, conv = report(ctx, findings)
    for c in cases[ncorp:ncorp + 2] + [c for c in cases if len(c["viol"]) == 2][:2]:
        ctx.sample({"line": line_of(c), "model": mres.get(c["id"]), "c": cres.get(c["id"])})
    ctx.cov["deviations_of_unchanged_code"] = [
        {"routine": rt, "reason": rs, "cases": e["n"], "precisions": "".join(sorted(e["precs"])),
         "example": {"base": e["example"][0]["base"], "violations": e["example"][0]["viol"], "oracle": e["example"][1].get("oracle")}}
        for (rt, rs), e in sorted(dev.items())]
    # documented-legal calls that are rejected (model = C): outside the direction of the property, recorded only
    ctx.cov["legal_calls_rejected"] = [
        {"routine": rt, "reason": rs, "cases": e["n"], "precisions": "".join(sorted(e["precs"])),
         "example": {"base": e["example"][0]["base"], "violations": e["example"][0]["viol"], "c": e["example"][1]["c"]}}
        for (rt, rs), e in sorted(conv.items())]
    for (rt, rs), e in sorted(conv.items()):
        ctx.log("note: %s [%s]: %d documented-legal calls rejected (model = C, not a C15 violation)" % (XNAME[rt] % "?", rs, e["n"]))
    ctx.log("correspondence: %d cases (%d corpus) model, %d run on C, %d findings, %.1fs" %
            (len(cases), ncorp, len(cres), len(findings), time.time() - t))


def replay(ctx, obj):
    """re-run the stored case(s) against the current tree"""
    rp = obj.get("replay", obj)
    if rp.get("kind") != "case":
        print("nothing to replay (obligation-only record): %s" % rp.get("broken"))
        return 0
    ctx.gen_consts()
    exe, drv = build(ctx)
    cases = []
    for i, c in enumerate(rp["cases"]):
        c = dict(c); c["id"] = "c%d" % i; c["vmeta"] = [tuple(v) for v in c["vmeta"]]; cases.append(c)
    mres, cres = run_cases(ctx, exe, drv, cases)
    findings = [f for f in evaluate(ctx, cases, mres, cres, consts()) if f[0] != "legal-call-rejected"]
    for c in cases:
        print("case %s: model %s | C %s" % (line_of(c), mres.get(c["id"]), cres.get(c["id"])))
    if findings:
        report(ctx, findings)
        if ctx.broken and not ctx.violations:
            ctx.violation("replayed case still disagrees with the model: %s" % "; ".join(ctx.broken)[:600],
                          {"kind": "case", "cases": rp["cases"]}, found_input=True)
        return 1 if (ctx.violations or ctx.known_hit == [] and ctx.broken) else 0
    return 0
