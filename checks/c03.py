"""C03 -- no column is consumed before it is final, under every interleaving."""
import json, time
import vf, schedlock, drv, gen, lu
from checks import c04

MANIFEST = {
    "text": "Coq theorems (Properties_C03.v, closed under the global context) over the executable scheduler/thread-loop "
            "model, for every forest accepted by check_init, every thread count, every interleaving: when a panel is handed "
            "out all proper descendant panels are DONE or BUSY, the not-DONE ones form exactly one chain and the returned "
            "bcol is its bottom (pipeline_handout); DONE panels have only DONE descendants; each panel is worked on once; "
            "waits only go down the tree; column level (ColRelease.v): for every sequence of hand-out / finalise / release / consume "
            "operations every consumed column was final when consumed, and the statement is refuted when the flag may be cleared "
            "before the column is final. Tie to the C code: lock-step state-space walk of model vs real scheduler (shared "
            "with C04, incl. the pipeline oracle evaluated on the implementation alone), and a trace monitor over real "
            "threaded runs with seeded perturbation: every supernode read in panel_bmod happens after the release of all "
            "its columns, each (panel, source supernode) update at most once, only smaller columns are read; plus "
            "comparison of the parallel factors with a 1-thread elimination using the same row order; a hook-placement audit of the "
            "current source (every spin_locks[] store has its RELEASE event next to it and follows pivotL / factor_snode; DONE "
            "likewise) ties the events the monitor reads to the stores the workers see, and a pivot-reuse stream (usepr = YES, "
            "several workers) exercises the release site under the option where the pivot step decides nothing; every event log is also "
            "replayed through the extracted ColRelease model (each log must be an execution of the guarded protocol).",
    "note": "The scheduler (C04 note) and pxgstrf_mark_busy_descends are RE-TRANSLATED from the current source on every run and proved equal to the models (SchedTie.v; BusyGen.v / BusyTie.v: c03_source_mark_busy_is_model, c03_source_busy_columns_marked). PARTIAL: of the column-level worker protocol, pxgstrf_mark_busy_descends is modelled and proved (c03_busy_columns_marked: "
            "the busy snapshot covers every column of every unfinished descendant panel; tied by comparing every snapshot of every "
            "worker of real runs with the extracted model); panel_dfs skipping, pruning races and no-write-while-read on subscript "
            "lists are monitored on traces, not proved. Trusted: Coq kernel, extraction, lock-step harness, event hooks "
            "(SLU_MT_VERIF; their placement at the spin_locks/DONE stores is audited textually on every run, not proved) and the python trace monitor; sequentially consistent memory assumed.",
    "technique": "Coq invariant proof (panel-level pipeline protocol; scheduler and busy snapshot proved equal to translations of the C source regenerated on every run) + lock-step model-vs-C walk + trace monitor on threaded runs",
}

EV_SCHED, EV_RELEASE, EV_DONE, EV_TB, EV_TE, EV_LBUSY, EV_READ, EV_READ_END, EV_WAIT_BEGIN, EV_WAIT_END = range(1, 11)


def monitor(events, n):
    """returns None or a description of the first rule broken by the trace"""
    released = [False] * n
    taken = set()
    reads = set()
    cur_panel = {}
    for i, (ev, pnum, a, b, c) in enumerate(events):
        if ev == EV_RELEASE:
            if not (0 <= a < n):
                return "event %d: release of column %d out of range" % (i, a)
            if released[a]:
                return "event %d: column %d released twice" % (i, a)
            released[a] = True
        elif ev == EV_SCHED:
            if a >= 0:
                if a in taken:
                    return "event %d: panel %d handed out twice" % (i, a)
                taken.add(a)
                if not (0 <= b <= a):
                    return "event %d: bcol %d not below panel %d" % (i, b, a)
                cur_panel[pnum] = a
        elif ev in (EV_READ, EV_WAIT_END):
            jcol, fsupc, krep = a, b, c
            if cur_panel.get(pnum) != jcol:
                return "event %d: thread %d reads for panel %d which it does not hold" % (i, pnum, jcol)
            if not (0 <= fsupc <= krep < jcol):
                return "event %d: panel %d reads supernode [%d..%d] which is not strictly below it" % (i, jcol, fsupc, krep)
            for k in range(fsupc, krep + 1):
                if not released[k]:
                    return "event %d: panel %d (thread %d) reads supernode [%d..%d] before column %d was released" % (
                        i, jcol, pnum, fsupc, krep, k)
            if (jcol, krep) in reads:
                return "event %d: update of panel %d by supernode ending at %d applied twice" % (i, jcol, krep)
            reads.add((jcol, krep))
    return None


def busy_tie(bdrv, c, r):
    """K-exact tie of SchedBusy.mark_busy: on ParallelInit's image of this run's forest (the static conditions forestb, chainb,
    postb of the theorem must hold on it) the model's busy snapshot for (jcol, bcol handed out by the scheduler, first column
    of the supernode containing bcol-1 as the code read it) must be the set of columns the worker really marked.
    Returns (violation message or None, broken message or None, number of snapshots compared)."""
    et = r.get("etree"); snaps = r.get("lbusy") or []
    if et is None or not snaps:
        return None, None, 0
    last = {}; qs = []; want = []
    it = iter(snaps)
    # events are in global order; every LBUSY snapshot follows the SCHED event of the same worker for the same panel
    bin_ = {}
    for e in r.get("events", []):
        if e[0] == EV_SCHED and e[2] >= 0:
            bin_[(e[1], e[2])] = e[3]
    for pn, jcol, bout, cols in snaps:
        b = bin_.get((pn, jcol))
        if b is None:
            continue
        qs.append("%d %d %d" % (jcol, b, bout)); want.append((pn, jcol, b, bout, cols))
    line = "%d %d %d | %s | %s\n" % (c["n"], c["ienv"][0], c["ienv"][1], " ".join(map(str, et)), " ; ".join(qs))
    rc, out, err = vf.sh2([bdrv], inp=line, timeout=120)
    ol = out.strip().split("\n")
    if rc != 0 or len(ol) != len(qs) + 1 or not ol[0].startswith("ST "):
        return None, "busy model driver failed: %s" % (err[-200:] or out[:200]), 0
    if not ol[0].startswith("ST 1 1 1 1"):
        return None, "static conditions of busy_columns_marked do not hold on ParallelInit's image of a real forest: %s (etree %s, w %d, relax %d)" % (
            ol[0], et[:30], c["ienv"][0], c["ienv"][1]), 0
    for ln, (pn, jcol, b, bout, cols) in zip(ol[1:], want):
        mod = [int(x) for x in ln[1:].split()]
        if mod != sorted(cols):
            return ("busy snapshot of worker %d for panel %d (bcol %d, supernode start %d): the worker marked %s, "
                    "pxgstrf_mark_busy_descends as modelled marks %s" % (pn, jcol, b, bout, sorted(cols), mod)), None, 0
    return None, None, len(want)


def hook_audit(ctx):
    """The trace monitor sees a column become readable where the RELEASE event is logged; the workers see it where spin_locks[]
    is cleared.  This audit of the CURRENT source ties the two: every store to spin_locks[] in SRC/*.c is either the scheduler's
    '= 1' (pxgstrf_scheduler.c) or a '= 0' in p?gstrf_thread.c that (a) has the RELEASE event within the 3 code lines before it and
    (b) is reached, walking back, through the call that makes the column final (p?gstrf_pivotL / p?gstrf_factor_snode) before any
    other spin_locks store or the scheduler call; every RELEASE event is followed by such a store; DONE likewise.  Returns the
    list of discrepancies (empty on a tree whose hooks sit at the stores)."""
    import glob, os, re
    bad, nst, nev = [], 0, 0
    store = re.compile(r"spin_locks\s*\[[^\]]*\]\s*(=(?!=)|\+\+|--|[-+|&^*/]=)\s*([^;]*)")
    for f in sorted(glob.glob(os.path.join(vf.REPO, "SRC", "*.c"))):
        base = os.path.basename(f)
        txt = open(f, errors="replace").read()
        if "spin_locks" not in txt and "SLU_VEV_RELEASE" not in txt and "SLU_VEV_DONE" not in txt:
            continue
        txt = re.sub(r"/\*.*?\*/", lambda m: "\n" * m.group(0).count("\n"), txt, flags=re.S)
        code = [(i + 1, l) for i, l in enumerate(txt.split("\n")) if l.strip() and not l.lstrip().startswith("#")]
        is_thread = re.fullmatch(r"p[sdcz]gstrf_thread\.c", base) is not None
        for k, (ln, l) in enumerate(code):
            m = store.search(l)
            if m:
                nst += 1
                val = m.group(2).strip()
                if base == "pxgstrf_scheduler.c":
                    if not (m.group(1) == "=" and val == "1"):
                        bad.append("%s:%d spin_locks store other than '= 1' in the scheduler" % (base, ln))
                elif is_thread:
                    if not (m.group(1) == "=" and val == "0"):
                        bad.append("%s:%d spin_locks store other than '= 0' in the thread loop" % (base, ln))
                    if not any("SLU_VEV_RELEASE" in x for _, x in code[max(0, k - 3):k]):
                        bad.append("%s:%d spin_locks[] cleared with no RELEASE event just before it (the event log does not show this release)" % (base, ln))
                    final = False
                    for _, x in reversed(code[:k]):
                        if re.search(r"gstrf_pivotL\s*\(|gstrf_factor_snode\s*\(", x):
                            final = True; break
                        if store.search(x) and "for" not in x or re.search(r"pxgstrf_scheduler\s*\(", x):
                            break
                    if not final:
                        bad.append("%s:%d spin_locks[] cleared before the call that makes the column final (pivotL / factor_snode)" % (base, ln))
                else:
                    bad.append("%s:%d spin_locks store outside the scheduler and the thread loop" % (base, ln))
            if "SLU_VERIF_EV" in l and "SLU_VEV_RELEASE" in l:
                nev += 1
                if not any(store.search(x) for _, x in code[k + 1:k + 4]):
                    bad.append("%s:%d RELEASE event with no spin_locks store just after it" % (base, ln))
            if is_thread and re.search(r"STATE\s*\([^)]*\)\s*=\s*DONE|\.state\s*=\s*DONE", l):
                if not any("SLU_VEV_DONE" in x for _, x in code[max(0, k - 2):k]):
                    bad.append("%s:%d DONE stored with no DONE event just before it" % (base, ln))
    if nst < 9 or nev < 8:
        bad.append("expected the scheduler store and two release sites with events in each of the four thread loops; found %d stores, %d events" % (nst, nev))
    ctx.cov["correspondence"]["hook_audit"] = {"spin_locks_stores": nst, "release_events": nev, "discrepancies": len(bad)}
    return bad


def colrel_ops(events, n):
    """the event log of one run as operations of ColRelease.v: SCHED of a panel -> Take (the columns that panel releases),
    RELEASE c -> Final c; Release c (finality before the store is what hook_audit reads off the source), READ / WAIT_END of a
    supernode -> Read of each of its columns"""
    cols = {}
    for ev, pnum, a, b, c in events:
        if ev == EV_RELEASE:
            cols.setdefault(b, []).append(a)
    ops = []
    for ev, pnum, a, b, c in events:
        if ev == EV_SCHED and a >= 0:
            ops.append("T " + " ".join(str(x) for x in cols.get(a, [])))
        elif ev == EV_RELEASE:
            ops.append("F %d" % a); ops.append("R %d" % a)
        elif ev in (EV_READ, EV_WAIT_END) and 0 <= b <= c < n:
            ops += ["D %d" % k for k in range(b, c + 1)]
    return ops


def colrel_replay(ctx, traces):
    """traces: list of (case, ops).  Runs them through the extracted ColRelease.cstep; returns list of (case, message)"""
    import subprocess
    if not traces:
        return []
    exe = ctx.ocaml_model("colrel")
    inp = "\n".join(";".join(ops) for _, ops in traces) + "\n"
    out = subprocess.run([exe], input=inp, capture_output=True, text=True, timeout=600).stdout.split("\n")
    bad = []
    for (c, ops), l in zip(traces, out):
        t = l.split()
        if len(t) == 3 and t[0] == "OK" and t[2] == "1":
            continue
        k = int(t[1]) if len(t) >= 2 and t[0] == "FAIL" else -1
        bad.append((c, "the event log is not an execution of the guarded column protocol (ColRelease.v): %s%s" % (
            l.strip() or "no answer", (" at operation '%s'" % ops[k]) if 0 <= k < len(ops) else "")))
    return bad


def usepr_cases(ctx, cid0, N):
    """pivot rows handed back by the caller (usepr = YES, identity on a diagonally dominant band), several workers, narrow panels:
    the option under which the pivot step decides nothing -- and must still be finished before the column is released"""
    rng, out = ctx.rng, []
    for k in range(N):
        n = rng.randint(40, 90 if ctx.quick() else 240); b = rng.randint(4, 12)
        ent = {}
        for j in range(n):
            for i in range(max(0, j - b), min(n, j + b + 1)):
                if i != j:
                    ent[(i, j)] = rng.uniform(0.2, 1.0) * rng.choice([1, -1])
            ent[(j, j)] = (2.5 * b + rng.random()) * rng.choice([1, -1])
        A = gen.from_entries(n, ent, "usepr-band")
        out.append(dict(id=cid0 + k + 1, driver="gstrf", m=n, n=n, colptr=A["colptr"], rowind=A["rowind"], vals=A["vals"],
                        nrhs=1, rhs=[1.0] * n, nprocs=rng.choice([2, 3, 4]), colperm=0, usepr=1, permr=list(range(n)),
                        ienv=[rng.choice([1, 2]), 1, rng.choice([4, 200]), 200, 100, -50, -50, -30], thresh=1.0,
                        perturb=[rng.randint(1, 10 ** 6), rng.choice([0.0, 0.3]), rng.choice([0, 30])],
                        trace=5, dumplu=1, timeout=90, kind="usepr-band"))
    return out


def cases(ctx):
    rng = ctx.rng
    out, cid = [], 0
    kinds = ["chain", "banded", "grid", "blockdiag", "diagdom", "arrow", "random"]
    N = 70 if ctx.quick() else 700
    for k in range(N):
        kind = kinds[k % len(kinds)]
        n = rng.randint(6, 60 if ctx.quick() else 200)
        A = gen.matrix(rng, kind, n)
        cid += 1
        if k % 5 == 4:
            # relaxed supernodes whose columns do not form a path in the etree, under a pipelined stem (see gen.py "bushy")
            n0 = rng.randint(5, 30 if ctx.quick() else 90)
            A = gen.matrix(rng, "bushy", n0)
            out.append(dict(id=cid, driver="gstrf", m=A["n"], n=A["n"], colptr=A["colptr"], rowind=A["rowind"], vals=A["vals"],
                            nrhs=1, rhs=[1.0] * A["n"], nprocs=rng.choice([2, 3, 4]), colperm=0,
                            ienv=[rng.choice([1, 2]), gen.bushy_relax(n0), rng.choice([8, 200]), rng.choice([2, 200]), rng.choice([2, 100]), -50, -50, -30],
                            thresh=rng.choice([1.0, 0.1]), perturb=[rng.randint(1, 10 ** 6), rng.choice([0.3, 0.7]), rng.choice([30, 200, 1000])],
                            trace=5, dumplu=1, timeout=90, kind="bushy"))
            continue
        out.append(dict(id=cid, driver="gstrf", m=A["n"], n=A["n"], colptr=A["colptr"], rowind=A["rowind"], vals=A["vals"],
                        nrhs=1, rhs=[1.0] * A["n"], nprocs=rng.choice([2, 3, 4, 8]), colperm=rng.choice([0, 1, 2, 3]),
                        ienv=[rng.choice([1, 2, 3, 4, 8]), rng.choice([1, 2, 4, 6]), rng.choice([2, 4, 8, 200]),
                              rng.choice([2, 200]), rng.choice([2, 100]), -50, -50, -30],
                        thresh=rng.choice([1.0, 1.0, 0.5, 0.1]),
                        perturb=[rng.randint(1, 10 ** 6), rng.choice([0.1, 0.3, 0.7]), rng.choice([0, 30, 200])],
                        trace=5, dumplu=1, timeout=90, kind=kind))
    # "comb" matrices: a spine with 2-3 hubs, each hub with 2-3 leaf twigs of 1-3 columns (natural order): many leaf supernodes that are
    # NOT the last child of their parent, so the order in which the leaves are handed out and the busy snapshot of a pipelined
    # parent interact
    for k in range(24 if ctx.quick() else 240):
        ent = {}; col = 0; hubs = []
        nh = rng.randint(2, 3)
        twigs_of = []
        for h in range(nh):
            tw = []
            for _ in range(rng.randint(2, 3)):
                L = rng.randint(1, 3); tw.append(list(range(col, col + L))); col += L
            twigs_of.append(tw)
        for h in range(nh):
            hubs.append(col); col += 1
        spine = list(range(col, col + rng.randint(1, 3))); col += len(spine)
        n = col
        def link(a, b):      # b is the parent of a (a < b): entries on both sides so that L and U are non-trivial
            ent[(b, a)] = rng.uniform(0.2, 1.0) * rng.choice([1, -1]); ent[(a, b)] = rng.uniform(0.2, 1.0) * rng.choice([1, -1])
        for h in range(nh):
            for tw in twigs_of[h]:
                for a, b in zip(tw, tw[1:]):
                    link(a, b)
                link(tw[-1], hubs[h])
                if rng.random() < 0.5:
                    link(tw[0], hubs[h])
            link(hubs[h], spine[0])
        for a, b in zip(spine, spine[1:]):
            link(a, b)
        for j in range(n):
            ent[(j, j)] = 4.0 + rng.random()
        A = gen.from_entries(n, ent, "comb")
        cid += 1
        out.append(dict(id=cid, driver="gstrf", m=n, n=n, colptr=A["colptr"], rowind=A["rowind"], vals=A["vals"],
                        nrhs=1, rhs=[1.0] * n, nprocs=rng.choice([2, 3]), colperm=0,
                        ienv=[rng.choice([1, 2, 3]), rng.choice([1, 2, 3]), 200, 200, 100, -50, -50, -30], thresh=1.0,
                        perturb=[rng.randint(1, 10 ** 6), rng.choice([0.5, 0.8]), rng.choice([100, 300])],
                        trace=5, dumplu=1, timeout=90, kind="comb"))
    # one worker stalls for about a second at its first pivot searches (a descheduled thread holding a busy panel): the worker that
    # took the parent panel in pipelined mode must wait for the flag however long it takes
    for k in range(4 if ctx.quick() else 16):
        n = rng.randint(20, 50)
        A = gen.matrix(rng, rng.choice(["banded", "chain", "diagdom"]), n)
        cid += 1
        out.append(dict(id=cid, driver="gstrf", m=A["n"], n=A["n"], colptr=A["colptr"], rowind=A["rowind"], vals=A["vals"],
                        nrhs=1, rhs=[1.0] * A["n"], nprocs=2, colperm=0,
                        ienv=[rng.choice([1, 2, 3]), rng.choice([1, 1, 2]), 200, 200, 100, -50, -50, -30], thresh=1.0,
                        perturb=None, stall=[k % 2, 2, 1300000], trace=5, dumplu=1, timeout=90, kind="stall"))
    out += usepr_cases(ctx, cid, 8 if ctx.quick() else 60)
    return out


def compare_seq(ctx, exe, c, r):
    """same matrix, 1 thread, forced to the row order of the parallel run: factors must coincide up to rounding"""
    if r.get("info") != 0 or "L" not in r:
        return None
    c2 = dict(c, id=c["id"] + 100000, nprocs=1, usepr=1, permr=r["perm_r"], colperm=6, permc=r["perm_c_in"],
              perturb=None, trace=0)
    r2 = drv.run_batch(exe, [c2])[0]
    if r2.get("info") != 0 or "L" not in r2:
        return "sequential re-run with the same row order failed: %s" % {k: r2.get(k) for k in ("info", "crash", "timeout")}
    if r2["perm_r"] != r["perm_r"]:
        return "sequential re-run chose different pivots although usepr was requested and the parallel pivots are admissible"
    try:
        L1, U1 = lu.dense_LU(r); L2, U2 = lu.dense_LU(r2)
    except (ValueError, IndexError, KeyError) as e:
        return "malformed L/U: %s" % e
    umax = max([abs(v) for v in U1.values()] + [1e-300])
    lmax = max([abs(v) for v in L1.values()] + [1.0])
    tol = 1e-6
    for (M1, M2, nm, sc) in ((L1, L2, "L", lmax), (U1, U2, "U", umax)):
        for key in set(M1) | set(M2):
            d = abs(M1.get(key, 0.0) - M2.get(key, 0.0))
            if d > tol * sc:
                return "parallel and sequential %s differ at %s: %r vs %r" % (nm, key, M1.get(key, 0.0), M2.get(key, 0.0))
    return None


def run(ctx):
    ctx.cov["rule"] = ("lock-step as C04 (forests n<=6 exhaustive x w,relax 1..3 x P 2..3, sampled n=7/8, random walks); threaded "
                       "traces: structured matrices n<=60 (thorough 200) incl. relaxed supernodes with several leaves under a pipelined stem, nprocs 2..8, all orderings, small panel/supernode/blocking "
                       "parameters to force pipelining and 2-D blocking, seeded delays at every hook; non-trivial = at least one "
                       "busy-chain read or >= 2 panels; distinct by matrix hash + parameters")
    ctx.coq_properties()
    jobs, meta = c04.sched_jobs(ctx)
    if ctx.quick():
        keep = [i for i in range(len(jobs)) if meta[i][1] <= 5 or i % 3 == 0]
        jobs, meta = [jobs[i] for i in keep], [meta[i] for i in keep]
    exe_s, ok, stats, mm = c04.lockstep(ctx, "C03", jobs)
    for kind, n, w, r, P, f in meta:
        ctx.count(("ls", tuple(f), w, r, P), nontrivial=(n >= 2), kind=kind.split("-")[0] + "-forest")
    ctx.cov["states"] = stats.get("states", 0); ctx.cov["transitions"] = stats.get("transitions", 0)
    ctx.cov["correspondence"]["lockstep"] = stats
    ctx.log("lock-step:", stats, "ok" if ok else "MISMATCH")
    model_bad = [k for k in ("guard_fail", "dead", "err", "init_bad") if stats.get(k, 0)]
    if not ok or model_bad:
        if not ok:
            ctx.broken.append("correspondence sched lock-step: %s" % json.dumps(mm)[:600])
        if model_bad:
            ctx.broken.append("model-level property failure in explored states: %s" % model_bad)
        v = c04.search_impl(ctx, exe_s, meta)
        if v:
            ctx.violation("C03 oracle on the real scheduler: " + v["what"], v, key={"kind": "sched_protocol", "what": v["what"][:60]})
    # hook placement audit on the current source (ties the RELEASE/DONE events of the monitor to the stores the workers see)
    audit = hook_audit(ctx)
    ctx.log("hook audit:", ctx.cov["correspondence"]["hook_audit"])
    for a in audit:
        ctx.broken.append("correspondence hook audit: " + a)
    # threaded traces
    exe = drv.build(ctx, "d", "hooks")
    cs = cases(ctx)
    if audit:
        # search for a failing input where the audit points: more pivot-reuse runs (the release sites differ by option)
        cs += usepr_cases(ctx, len(cs) + 1000, 40)
    res = drv.run_grouped(exe, cs, par=max(1, vf.NCPU // 4), chunk=10)
    ntr, nbusy, nseq, nsnap, nretry = 0, 0, 0, 0, 0
    bdrv = ctx.ocaml_model("busy")
    ctraces = []
    for c, r in zip(cs, res):
        bad = None
        if r.get("crash") is not None and "exceeded" in (r.get("stderr") or "") and "Storage for" in (r.get("stderr") or ""):
            # the tunable size estimate was too small for this input: the library's documented stop, not a protocol failure;
            # the run is repeated with ample estimates
            c = dict(c, ienv=c["ienv"][:5] + [-400, -400, -400]); nretry += 1
            r = drv.run_batch(exe, [c])[0]
        if r.get("timeout") or r.get("crash") is not None or r.get("missing"):
            bad = "run failed: %s" % {k: r.get(k) for k in ("timeout", "crash", "stderr")}
            nontriv = True
        else:
            ev = r.get("events", [])
            ntr += 1
            busy = sum(1 for e in ev if e[0] == EV_WAIT_END)
            nbusy += busy
            nontriv = busy > 0 or sum(1 for e in ev if e[0] == EV_SCHED and e[2] >= 0) >= 2
            bad = monitor(ev, c["n"]) if r.get("hooks") else None
            if bad is None and r.get("hooks"):
                ctraces.append((c, colrel_ops(ev, c["n"])))
            if bad is None and r.get("hooks"):
                bad, brk, k = busy_tie(bdrv, c, r)
                nsnap += k
                if brk:
                    ctx.broken.append(brk)
            if bad is None and (ntr % 3 == 0 or c["kind"] == "usepr-band"):
                nseq += 1
                bad = compare_seq(ctx, exe, c, r)
        ctx.count(("tr", c["kind"], c["n"], tuple(c["rowind"][:40]), c["nprocs"], (c["perturb"] or c.get("stall") or [0])[0]), nontrivial=nontriv,
                  kind="trace-" + c["kind"])
        if bad:
            c2 = dict(c); r2 = {k: v for k, v in r.items() if k not in ("events", "L", "U")}
            ctx.violation("C03 trace monitor: " + bad, {"case": c2, "result": r2}, key={"kind": "trace", "what": bad.split(":")[-1][:30]})
    for c, msg in colrel_replay(ctx, ctraces):
        ctx.violation("C03 column protocol: " + msg, {"case": dict(c)}, key={"kind": "trace", "what": "colrel"})
    ctx.cov["correspondence"]["traces_replayed_through_ColRelease_model"] = len(ctraces)
    ctx.cov["correspondence"]["ColRelease_operations"] = sum(len(o) for _, o in ctraces)
    ctx.cov["traces_validated_against_impl"] = ntr
    ctx.cov["correspondence"]["threaded_traces"] = ntr
    ctx.cov["correspondence"]["busy_chain_reads_seen"] = nbusy
    ctx.cov["correspondence"]["runs_repeated_with_larger_size_estimates"] = nretry
    ctx.cov["correspondence"]["busy_snapshots_equal_to_model"] = nsnap
    ctx.cov["correspondence"]["parallel_vs_sequential_compared"] = nseq
    ctx.sample({"trace_case": {k: cs[0][k] for k in ("kind", "n", "nprocs", "colperm", "ienv", "thresh", "perturb")}})
    ctx.log("traces: %d, busy-chain reads: %d, seq comparisons: %d" % (ntr, nbusy, nseq))
    ctx.cov["partial"] += ["column level: the busy snapshot covers every column of every unfinished descendant panel (proved, "
                           "c03_busy_columns_marked, snapshot tied K-exactly); that the symbolic step skips exactly the marked columns, "
                           "pruning vs concurrent DFS and no-write-while-read on subscript lists are checked by the trace monitor and "
                           "the parallel-vs-sequential comparison, not proved",
                           "par_refines_seq (exact-field equality of parallel and sequential factors) is checked numerically, not proved"]
    ctx.assumptions += ["sequentially consistent memory; one scheduler call atomic w.r.t. DONE stores"]


def replay(ctx, obj):
    rp = obj.get("replay", obj)
    if "forest" in rp:
        return c04.replay(ctx, obj)
    if "case" in rp:
        exe = drv.build(ctx, "d", "hooks")
        for i in range(30):
            c = dict(rp["case"]); c["perturb"] = [c["perturb"][0] + i, c["perturb"][1], c["perturb"][2]] if c.get("perturb") else None
            r = drv.run_batch(exe, [c])[0]
            bad = "run failed" if (r.get("timeout") or r.get("crash") is not None) else monitor(r.get("events", []), c["n"])
            if bad is None:
                bad = compare_seq(ctx, exe, c, r)
            if bad:
                ctx.violation("C03 trace monitor: " + bad, {"case": c}, key={"kind": "trace"})
                return 1
    return 0
