"""C05 -- memory safety: the predicted bound on L is never exceeded; arrays suffice; estimates too small => abort."""
import json, os
import vf, drv, gen

MANIFEST = {
    "text": "Coq theorems (Properties_C05.v, closed under the global context): the locked bump allocators for U and for L's "
            "subscripts hand out consecutive, disjoint, in-range blocks or take the abort path; an H-supernode slot of w x rows "
            "entries suffices for the unchecked LUSUP allocations of its columns (given that the predicted row count dominates the actual one); it does "
            "for every pivot sequence when the diagonal is zero-free in the final column order (George & Ng: L column counts <= row-merge "
            "counts <= Cholesky(A^T A) counts, U inside Cholesky(A^T A), any size); an L-storage image accepted by the executable checker has ordered slots; the task queue "
            "stays within n slots; the per-thread work arrays suffice: the offset and size formulas of pxgstrf_SetIWork, "
            "p?gstrf_WorkInit, NUM_TEMPV, p?gstrf_SetRWork and the strides of p?gstrf_bmod2D are TRANSLATED from the source on every run "
            "(tools/gen_consts.py) and proved disjoint, in range and long enough for the 1-D and 2-D updates in all four precisions. "
            "Tie: the bump allocator model replayed on the request sequence of every run (hook inside the lock, with seeded "
            "delays while the lock is held) must give the very blocks the implementation handed out; the Gallina model of ?PresetMap is compared EXACTLY with the map_in_sup image of real runs "
            "(snapshot through the hook) and the verified checker is run on it; every LUSUP allocation of every thread is "
            "monitored against the end of its slot (an overrun inside the big array is invisible to ASan); ASan+UBSan runs of the "
            "drivers; too small U / L-subscript estimates must stop with the library's diagnostic. Inputs: patterns without "
            "zero-free diagonal, dense rows/columns, thresholds 0..1, random forced pivot orders (usepr), static and dynamic "
            "supernode storage, w/relax/maxsuper sweeps, 1..8 threads with seeded perturbation.",
    "note": "?PresetMap (static and dynamic scheme, four precisions: coq/PresetMapGen.v / PresetMapTie.v, c05_source_presetmap_is_model, _dyn_is_model, _slots_sound), Glu_alloc and DynamicSetMap are RE-TRANSLATED from p?memory.c / pmemory.c on every run (coq/AllocGen.v; every next-pointer may only be touched under its own lock, else the translator refuses) and proved equal to AllocModel.bump, with the blocks of any run consecutive, disjoint and inside the capacity (AllocTie.v; c05_source_alloc_*). PARTIAL by nature: the George & Ng bound is proved for the elimination model on patterns (any pivots, zero-free "
            "diagonal) and the row-merge counts are tied exactly to qrnzcnt's colcnt_h and to the returned L of every run "
            "(extracted rm_colcounts); the qrnzcnt algorithm itself (Gilbert-Ng-Peyton skeleton counting) is not modelled line by "
            "line. C memory safety in general is a runtime property (ASan samples it). Trusted: Coq kernel, extraction, hooks, "
            "AddressSanitizer. Legal singular inputs with a relaxed supernode of fewer rows than columns (deficient-leaf) are run with hooks and under ASan; a negative allocator request is a violation.",
    "technique": "Coq proof (allocator arithmetic proved equal to a translation of the C source regenerated on every run, slot checker) + exact PresetMap correspondence + per-allocation slot monitor + ASan",
}


def make_case(rng, cid, n, kind, quick):
    A = gen.matrix(rng, kind, n)
    n = A["n"]
    c = dict(id=cid, driver="gstrf", m=n, n=n, colptr=A["colptr"], rowind=A["rowind"], vals=A["vals"], nrhs=0, rhs=[],
             nprocs=rng.choice([1, 2, 4, 8]), colperm=rng.choice([0, 1, 2, 3]),
             ienv=[rng.choice([1, 2, 4, 8, 20]), rng.choice([1, 2, 4, 6]), rng.choice([6, 8, 20, 200]), rng.choice([2, 200]),
                   rng.choice([2, 100]), -50, -50, -30],
             thresh=rng.choice([1.0, 0.5, 0.1, 0.0]),
             perturb=[rng.randint(1, 10 ** 6), rng.choice([0.0, 0.2]), rng.choice([0, 100])],
             trace=4, dumplu=1, timeout=90, kind=kind)
    if rng.random() < 0.3:           # adversarial pivots: force a random row order where admissible
        pr = list(range(n)); rng.shuffle(pr)
        c["usepr"] = 1; c["permr"] = pr; c["thresh"] = 0.0
    return c


def model_line(c, r, dyn=False):
    n = c["n"]
    permc = r["perm_c"]
    inv = [0] * n
    for j in range(n):
        inv[permc[j]] = j
    cb = [c["colptr"][inv[jj]] for jj in range(n)]
    ce = [c["colptr"][inv[jj] + 1] for jj in range(n)]
    return "%s %d %d %d | %s | %s | %s | %s | %s | %s" % (
        "PRESETDYN" if dyn else "PRESET", n, c["ienv"][2], c["ienv"][1], " ".join(map(str, cb)), " ".join(map(str, ce)), " ".join(map(str, c["rowind"])),
        " ".join(map(str, r["etree"])), " ".join(map(str, r["colcnt_h"])), " ".join(map(str, r["part_super_h"])))


def rowmerge_tie(sdrv, c, r):
    """K-exact tie of c05_colcount_dominated: for a matrix whose diagonal is zero-free in the final column order, the column
    counts qrnzcnt predicted (colcnt_h) must EQUAL those of the extracted row-merge pattern, and (no relaxation) every column of
    the returned L must have at most that many entries.  Returns (violation or None, broken or None, compared?)"""
    n = c["n"]; pc = r["perm_c"]
    ents = set()
    for j in range(n):
        for p in range(c["colptr"][j], c["colptr"][j + 1]):
            ents.add((c["rowind"][p], pc[j]))
    if not all((i, i) in ents for i in range(n)):
        return None, None, False            # the bound is stated (and the code documented) for a zero-free diagonal
    if n > 64 or len(ents) > 1600:
        return None, None, False            # the extracted row-merge model is O(n^2 nnz) on unary naturals: 40 s at n = 120, dense
    rc, out, err = vf.sh2([sdrv], inp="%d | %s\n" % (n, " ".join("%d %d" % e for e in sorted(ents))), timeout=300)
    if rc != 0 or " R " not in out:
        return None, "symfill model driver failed: %s" % (err[-200:] or out[:100]), False
    R = [int(x) for x in out.split(" R ")[1].split()]
    if R != r["colcnt_h"]:
        k = next(k for k in range(n) if R[k] != r["colcnt_h"][k])
        return ("predicted column count of column %d: qrnzcnt %d, the row-merge model gives %d (zero-free diagonal)" % (k, r["colcnt_h"][k], R[k])), None, True
    if c["ienv"][1] == 1 and r.get("info") == 0 and "L" in r:
        L = r["L"]; cs = L["col_to_sup"]
        for j in range(n):
            fs = L["sup_to_colbeg"][cs[j]]
            cnt = L["rowind_colend"][fs] - L["rowind_colbeg"][fs] - (j - fs)
            if cnt > R[j]:
                return "column %d of L has %d entries, more than the row-merge bound %d" % (j, cnt, R[j]), None, True
    return None, None, True


def run(ctx):
    rng = ctx.rng
    ctx.cov["rule"] = ("p?gstrf on patterns with/without zero-free diagonal (random, randomzd, dense, arrow, star, banded, grid, block "
                       "diagonal, chain), thresholds {1,.5,.1,0}, 30% random forced pivot orders, w/relax/maxsuper/blocking sweeps, "
                       "nprocs 1..8, static and dynamic supernode storage; non-trivial = n>=3 and at least one fill; distinct by matrix+params")
    ctx.coq_properties()
    adrv = ctx.ocaml_model("alloc")
    sdrv = ctx.ocaml_model("symfill")
    nrm = 0
    kinds = ["random", "randomzd", "dense", "arrow", "star", "banded", "grid", "blockdiag", "chain", "diagdom"]
    N = 80 if ctx.quick() else 1000
    cases = [make_case(rng, k + 1, rng.randint(2, 40 if ctx.quick() else 120), kinds[k % len(kinds)], ctx.quick()) for k in range(N)]
    exe = drv.build(ctx, "d", "hooks")
    nmap = nslot = nbump = ndyn = 0
    for mode in ("static", "dynamic"):
        env = {"SuperLU_DYNAMIC_SNODE_STORE": "1"} if mode == "dynamic" else None
        sub = cases if mode == "static" else cases[::3]
        res = drv.run_grouped(exe, sub, par=max(1, vf.NCPU // 3)) if env is None else \
            [drv.run_batch(exe, [c], env=env)[0] for c in sub]
        if mode == "static":
            static_res = res
        bb, nb = drv.check_bumps(adrv, res)
        nbump += nb
        for k, msg in bb.items():
            if k < 0:
                ctx.broken.append(msg)
            else:
                ctx.violation("C05 (%s): %s" % (mode, msg), {"mode": mode, "case": sub[k]}, key={"kind": "bump_allocator"})
        lines, idx = [], []
        for k, (c, r) in enumerate(zip(sub, res)):
            ctx.count((mode, c["kind"], c["n"], tuple(c["rowind"][:40]), c["nprocs"], c.get("thresh"), tuple(c.get("permr") or [])),
                      nontrivial=c["n"] >= 3 and len(c["rowind"]) > c["n"], kind="%s-%s" % (mode, c["kind"]))
            bad = None
            if r.get("timeout") or r.get("crash") is not None or r.get("missing") or r.get("parse_error"):
                if gen.exactly_singular(c["n"], {(c["rowind"][p], j): c["vals"][p] for j in range(c["n"]) for p in range(c["colptr"][j], c["colptr"][j + 1])}):
                    continue
                bad = "run failed: %s" % {kk: r.get(kk) for kk in ("timeout", "crash", "stderr")}
            elif r.get("hooks"):
                if r["slot_overrun"]:
                    bad = "L supernode outgrew its slot: column %d overran by %d entries (%s mode)" % (r["slot_overrun_col"], r["slot_overrun_by"], mode)
                elif r["nzlumax"] >= 0 and r["max_lusup_end"] > r["nzlumax"]:
                    bad = "LUSUP allocation ends at %d beyond nzlumax %d" % (r["max_lusup_end"], r["nzlumax"])
                else:
                    nslot += 1
                    if mode == "static" and "colcnt_h" in r and c["ienv"][1] <= c["ienv"][2]:
                        bad, brk, did = rowmerge_tie(sdrv, c, r)
                        nrm += 1 if (did and not bad and not brk) else 0
                        if brk:
                            ctx.broken.append(brk)
                    if "map_in_sup" in r and r["map_in_sup"] and "etree" in r and c["ienv"][1] <= c["ienv"][2]:
                        lines.append(model_line(c, r, dyn=(mode == "dynamic"))); idx.append(k)
            if bad:
                key = {"kind": "memory", "what": bad[:30]}
                if mode == "dynamic" and c["nprocs"] > 1 and "outgrew its slot" in bad:
                    key = {"kind": "memory", "class": "dynamic_snode_store_overrun_multithreaded"}
                if c.get("ienv") and c["ienv"][1] > c["ienv"][2]:
                    key = {"kind": "config", "class": "relax_gt_maxsuper"}
                ctx.violation("C05: " + bad, {"mode": mode, "case": c, "result": {kk: v for kk, v in r.items() if kk not in ("L", "U", "events")}}, key=key)
        if lines:
            rc, out, err = vf.sh2([adrv], inp="\n".join(lines) + "\n", timeout=600)
            outl = out.strip().split("\n")
            for k, ln in zip(idx, outl):
                c, r = sub[k], res[k]
                if not ln.startswith("M "):
                    ctx.broken.append("alloc model driver: " + ln[:100]); continue
                mm = [int(x) for x in ln[2:].split("|")[0].split()]
                ok = ln.strip().endswith("OK 1")
                nmap += 1
                if mode == "dynamic":
                    # dynamic scheme: only relaxed supernodes are pre-set; image and Glu->nextlu must equal the model's
                    ndyn += 1
                    nlu = int(ln.split("NEXTLU")[1])
                    if mm != r["map_in_sup"] or nlu != r.get("nextlu0"):
                        ctx.violation("C05: dynamic-scheme storage image differs from the ?PresetMap model: map %s vs %s, nextlu %s vs %s" % (
                                      r["map_in_sup"][:16], mm[:16], r.get("nextlu0"), nlu), {"mode": mode, "case": c, "model": mm, "impl": r["map_in_sup"]},
                                      key={"kind": "presetmap_dynamic"})
                    continue
                if mm != r["map_in_sup"]:
                    # which one is right?  the verified checker decides on the implementation's image
                    ctx.broken.append("correspondence PresetMap: model %s vs implementation %s (n=%d)" % (mm[:12], r["map_in_sup"][:12], c["n"]))
                    ctx.violation("C05: map_in_sup differs from the PresetMap model", {"case": c, "model": mm, "impl": r["map_in_sup"]},
                                  key={"kind": "presetmap"}, found_input=False)
                elif not ok:
                    ctx.violation("C05: storage image rejected by the verified slot checker: %s" % mm[:20], {"case": c, "map": mm},
                                  key={"kind": "slots"})
    ctx.cov["correspondence"]["presetmap_images_compared"] = nmap
    ctx.cov["correspondence"]["colcnt_h_equal_to_rowmerge_model_and_dominating_L"] = nrm
    ctx.cov["correspondence"]["presetmap_dynamic_images_compared"] = ndyn
    ctx.cov["correspondence"]["bump_allocator_logs_equal_to_model"] = nbump
    ctx.cov["correspondence"]["runs_with_every_LUSUP_allocation_inside_its_slot"] = nslot
    # ---- ASan/UBSan sample and the abort path
    exe_a = drv.build(ctx, "d", "asan")
    sub = [dict(c, trace=0, id=c["id"]) for c in cases[:: (4 if ctx.quick() else 2)]]
    res = drv.run_grouped(exe_a, sub, par=max(1, vf.NCPU // 3))
    nasan = 0
    for c, r in zip(sub, res):
        if r.get("crash") is not None or r.get("timeout"):
            if gen.exactly_singular(c["n"], {(c["rowind"][p], j): c["vals"][p] for j in range(c["n"]) for p in range(c["colptr"][j], c["colptr"][j + 1])}):
                continue
            key = {"kind": "asan", "what": (r.get("stderr") or "")[-60:]}
            if c["ienv"][1] > c["ienv"][2]:
                key = {"kind": "config", "class": "relax_gt_maxsuper"}
            ctx.violation("C05: sanitizer run failed: %s" % (r.get("stderr") or "")[-400:], {"case": c}, key=key)
        else:
            nasan += 1
    ctx.cov["correspondence"]["asan_runs_clean"] = nasan
    # ---- work-array stress (the inputs at the case-split boundaries of c05_rwork_suffices): dense blocks with small blocking
    # cut-offs so that the 2-D update runs on every column of a panel (the last column of the panel uses the far end of tempv[])
    # and with both branches of NUM_TEMPV binding (2n against (maxsuper+rowblk)*w); ASan sees any access beyond the arrays
    wcases = []
    # (full-width panels exist only where n - i >= 12 * panel_size (SPLIT_TOP), so the (maxsuper+rowblk)*w branch binds only for
    # maxsuper + rowblk > 26: the first tuples; the others have 2n binding or half-width panels)
    for (w_, t_, b_, n_) in [(4, 30, 4, 60), (2, 40, 20, 30), (8, 50, 8, 110), (3, 36, 12, 45), (8, 8, 2, 24), (4, 6, 2, 16),
                             (20, 20, 2, 64), (2, 8, 8, 40)] + ([] if ctx.quick() else
                            [(20, 20, 20, 90), (12, 10, 6, 50), (16, 6, 2, 48), (5, 12, 7, 31), (6, 70, 10, 100), (10, 27, 3, 140)]):
        for kind in ("dense", "arrow"):
            A = gen.matrix(rng, kind, n_)
            wcases.append(dict(id=30000 + len(wcases), driver="gstrf", m=A["n"], n=A["n"], colptr=A["colptr"], rowind=A["rowind"],
                               vals=A["vals"], nrhs=0, rhs=[], nprocs=rng.choice([1, 2, 4]), colperm=0,
                               ienv=[w_, rng.choice([1, min(t_, 4)]), t_, b_, 2, -50, -50, -30], thresh=1.0, trace=0, dumplu=0,
                               timeout=90, kind="work-" + kind))
    wres = drv.run_grouped(exe_a, wcases, par=max(1, vf.NCPU // 3), chunk=1)
    nwork = 0
    for c, r in zip(wcases, wres):
        ctx.count(("work", c["kind"], c["n"], tuple(c["ienv"][:5]), c["nprocs"]), nontrivial=True, kind=c["kind"])
        if r.get("crash") is not None or r.get("timeout"):
            msg = r.get("stderr") or ""
            ctx.violation("C05: work arrays: run with panel width %d, maxsuper %d, rowblk %d on a %s matrix of order %d failed: %s" %
                          (c["ienv"][0], c["ienv"][2], c["ienv"][3], c["kind"], c["n"], msg[-400:]), {"case": c, "flavor": "asan"},
                          key={"kind": "work_arrays", "what": msg[-60:]})
        else:
            nwork += 1
    ctx.cov["correspondence"]["work_array_stress_runs_clean_under_asan"] = nwork
    # ---- rank-deficient relaxed leaf supernodes (legal input: the zero pivot is reported in info): k leading columns whose only
    # entry lies in row 0, then a bidiagonal chain; the supernode has k columns and ONE row, fewer subscripts than columns.  Its
    # request for L-subscript space must be non-negative and the run clean under ASan, with and without the hooks
    dcases = []
    for k_ in (2, 3, 4, 5, 6):
        for rl in (4, 6, 8):
            if rl < k_:
                continue            # (more columns than relax: not one relaxed supernode; that input runs into known finding F22)
            n_ = k_ + 5; cp, ri, vv = [0], [], []
            for j in range(n_):
                if j < k_:
                    ri.append(0); vv.append(1.0 + j)
                else:
                    if j > k_:
                        ri.append(j - 1); vv.append(-1.0)
                    ri.append(j); vv.append(4.0)
                cp.append(len(ri))
            dcases.append(dict(id=31000 + len(dcases), driver="gstrf", m=n_, n=n_, colptr=cp, rowind=ri, vals=vv, nrhs=0, rhs=[], nprocs=1, colperm=0,
                               ienv=[2, rl, 20, 200, 100, -50, -50, -30], thresh=1.0, trace=4, dumplu=0, timeout=60, kind="deficient-leaf"))
    ndef = 0
    for fl, ex in (("hooks", exe), ("asan", exe_a)):
        dres = drv.run_grouped(ex, [dict(c, trace=4 if fl == "hooks" else 0) for c in dcases], par=max(1, vf.NCPU // 3), chunk=1)
        for c, r in zip(dcases, dres):
            ctx.count(("deficient", fl, c["n"], c["ienv"][1]), nontrivial=True, kind="deficient-leaf")
            neg = [e for e in (r.get("bump_l") or []) if e[1] < 0]
            if neg:
                ctx.violation("C05: a relaxed supernode of %d columns sharing one row asked the L-subscript allocator for %d entries (negative): "
                              "the next slot overlaps it / starts before lsub[0]" % (c["n"] - 5, neg[0][1]), {"case": c, "flavor": fl},
                              key={"kind": "negative_lsub_request"})
            elif r.get("crash") is not None or r.get("timeout"):
                ctx.violation("C05: structurally deficient relaxed supernode (%d columns, one row), %s build: %s" % (c["n"] - 5, fl, (r.get("stderr") or "")[-300:]),
                              {"case": c, "flavor": fl}, key={"kind": "deficient_leaf", "what": (r.get("stderr") or "")[-40:]})
            else:
                ndef += 1
    ctx.cov["correspondence"]["deficient_leaf_supernode_runs_clean"] = ndef
    nab = 0
    for c in cases[:12]:
        for which, pos in (("UCOL", 6), ("LSUB", 7)):
            ie = list(c["ienv"]); ie[pos] = 1           # an estimate of ONE entry: must abort with the diagnostic
            cc = dict(c, ienv=ie, trace=0, dumplu=1, id=9000 + nab)
            r = drv.run_batch(exe_a, [cc])[0]
            msg = r.get("stderr") or ""
            if r.get("crash") is None:
                used = 0
                if "U" in r and which == "UCOL":
                    used = max(r["U"]["colend"] + [0])
                if "L" in r and which == "LSUB":
                    used = max(r["L"]["rowind_colend"] + [0])
                if used <= 1:
                    continue          # the single entry really sufficed
                ctx.violation("C05: %s estimate of 1 entry did not stop the run (info %s)" % (which, r.get("info")), {"case": cc}, key={"kind": "noabort", "which": which})
            elif "AddressSanitizer" in msg or "runtime error" in msg:
                ctx.violation("C05: too small %s estimate led to a memory error instead of the diagnostic: %s" % (which, msg[-300:]), {"case": cc}, key={"kind": "abort_memory_error", "which": which})
            else:
                nab += 1
    ctx.cov["correspondence"]["abort_path_runs"] = nab
    # ---- estimates that are too small by a FEW entries, several workers, delays while the allocator lock is held:
    # the run must stop with the diagnostic; if it returns, the bump model (which aborts) disagrees with the blocks handed out
    tight = []
    for c, r in zip(cases, static_res):
        if c["nprocs"] < 2 or not r.get("hooks") or r.get("crash") is not None or c["ienv"][1] > c["ienv"][2]:
            continue
        for which, pos, lg in (("UCOL", 6, r.get("bump_u") or []), ("LSUB", 7, r.get("bump_l") or [])):
            need = max([e[0] + e[1] for e in lg] + [0])
            if need >= 4:
                # a few entries short (the last requests cross the limit) or far too small (the limit is crossed while
                # several workers allocate concurrently)
                ie = list(c["ienv"]); ie[pos] = max(1, need - rng.choice([1, 2, 3]) if rng.random() < 0.3 else int(need * rng.uniform(0.2, 0.9)))
                # every event is delayed (probability 1): the allocator lock is held long enough for the other workers to queue up
                tight.append(dict(c, ienv=ie, trace=0, dumplu=0, id=20000 + len(tight), nprocs=rng.choice([4, 8]),
                                  perturb=[rng.randint(1, 10 ** 6), 1.0, rng.choice([300, 1000])], which=which, need=need))
        if len(tight) >= (80 if ctx.quick() else 600):
            break
    tres = drv.run_grouped(exe, tight, par=max(1, vf.NCPU // 3), chunk=1)
    bb, nb = drv.check_bumps(adrv, tres)
    ntight = 0; nlogged = 0
    for k, (c, r) in enumerate(zip(tight, tres)):
        msg = r.get("stderr") or ""
        lim = c["ienv"][6 if c["which"] == "UCOL" else 7]
        alog = r.get("abort_bump_u" if c["which"] == "UCOL" else "abort_bump_l") or []
        over = [e for e in alog if e[0] + e[1] > lim]
        if r.get("crash") is not None and ("exceeded" in msg or "Storage for" in msg) and over:
            ctx.violation("C05: %s estimate %d too small: before the diagnostic the allocator handed out the block [%d,%d) beyond the "
                          "array (the bump model aborts at that request)" % (c["which"], lim, over[0][0], over[0][0] + over[0][1]),
                          {"case": c, "log": alog[-6:]}, key={"kind": "tight_estimate_overrun", "which": c["which"]})
        elif r.get("crash") is not None and ("exceeded" in msg or "Storage for" in msg):
            ntight += 1
            nlogged += 1 if alog else 0
        elif r.get("crash") is not None or r.get("timeout"):
            ctx.violation("C05: too small %s estimate (%d < %d needed): run failed without the diagnostic: %s" % (c["which"], c["ienv"][6 if c["which"] == "UCOL" else 7], c["need"], msg[-300:]),
                          {"case": c}, key={"kind": "tight_estimate_crash", "which": c["which"]})
        else:
            used = max([e[0] + e[1] for e in (r.get("bump_u") if c["which"] == "UCOL" else r.get("bump_l")) or []] + [0])
            lim = c["ienv"][6 if c["which"] == "UCOL" else 7]
            if used > lim or k in bb:
                ctx.violation("C05: %s estimate %d too small but the run returned info %s having handed out entries up to %d: %s" %
                              (c["which"], lim, r.get("info"), used, bb.get(k, "")), {"case": c}, key={"kind": "tight_estimate_overrun", "which": c["which"]})
            else:
                ntight += 1      # another schedule / pivot sequence needed less: fine
    ctx.cov["correspondence"]["tight_estimate_runs"] = ntight
    ctx.cov["correspondence"]["tight_estimate_aborts_with_allocation_log_within_bounds"] = nlogged
    ctx.sample({k: cases[0][k] for k in ("kind", "n", "nprocs", "colperm", "ienv", "thresh")})
    ctx.log("images compared %d, slot-monitored runs %d, asan clean %d, abort path %d" % (nmap, nslot, nasan, nab))
    ctx.cov["partial"] += ["the predicted bound dominates L for every pivot sequence: proved for matrices with a zero-free diagonal in the final "
                           "column order (c05_colcount_dominated, George & Ng); qrnzcnt itself is not modelled, its output is compared exactly "
                           "with the extracted row-merge model per run; without a zero-free diagonal (the code's ZFD_PERM is off) the bound "
                           "is not guaranteed: monitored by the per-allocation slot check",
                           "work-array layout: the size and offset formulas are translated from the source and proved sufficient for the "
                           "documented uses (c05_iwork_pieces_disjoint_in_range, c05_rwork_suffices); that the kernels index within those "
                           "uses (segsze <= maxsuper, block_nrow <= rowblk, one supernode has at most n rows) is read off the code, "
                           "sampled by ASan",
                           "C memory safety is a runtime property: ASan/UBSan sample it"]
    ctx.cov["trusted_base"] += ["AddressSanitizer/UBSan (gcc 12)", "event hooks"]


def replay(ctx, obj):
    rp = obj.get("replay", obj)
    c = rp["case"]
    exe = drv.build(ctx, "d", "asan" if rp.get("flavor") == "asan" else "hooks")
    env = {"SuperLU_DYNAMIC_SNODE_STORE": "1"} if rp.get("mode") == "dynamic" else None
    for i in range(10):
        r = drv.run_batch(exe, [c], env=env)[0]
        if r.get("crash") is not None or r.get("slot_overrun"):
            ctx.violation("C05: still failing", {"case": c}, key={"kind": "memory"})
            return 1
    return 0
