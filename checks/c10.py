"""C10 -- orderings are bijections; preprocessing yields A*Pc and its postordered (column) etree.

Technique: Coq proofs about the executable Gallina model coq/EtreeModel.v (+ definition coq/EtreeSpec.v),
tied to /repo on every run by a K-exact three-way comparison
      real C code (harness/etree_harness.c, -O2 build and ASan build of the current tree)
   vs extracted OCaml model (extract/etree_driver.ml)
   vs extracted definitional spec (coletree_spec / symetree_spec) and an independent Python reference
      (tools/etree_ref.py) that is the property's own oracle.
"""
import os, sys, json, time, glob, itertools, subprocess, hashlib, re
from concurrent.futures import ProcessPoolExecutor

import vf
sys.path.insert(0, os.path.join(vf.VERIF, "tools"))
import etree_ref as R

MANIFEST = {
    "text": "Every ordering option returns a bijection; sp_colorder produces A*Pc sharing A's arrays, composes the "
            "caller's ordering with a postorder only, and reports the postordered column etree of the final A*Pc "
            "(etree of Pc(A+A')Pc' in symmetric mode); part_super_h is a partition into consecutive blocks.",
    "note": "Proved in Coq for the model (all sizes): check_perm / check_blocks sound+complete; find (path halving) and "
            "nr_etdfs terminate within explicit fuel; sp_coletree = sp_symetree = definitional elimination-game spec; "
            "TreePostorder = recursive postorder (bijection, children first, contiguous subtrees); sp_colorder "
            "(non-symmetric): perm_c_out = post o perm_c_in, AC columns, etree = spec of the FINAL A*Pc. Symmetric mode: "
            "partial (conditional on the at_plus_a model returning). MMD / COLAMD / qrnzcnt / cholnzcnt are not modelled: "
            "their outputs are checked per input by the extracted verified checkers and the independent reference.",
    "technique": "Coq 8.16 proofs on a hand-written Gallina model + per-run K-exact correspondence "
                 "(C -O2 and ASan builds vs extracted model vs extracted definitional spec vs independent quadratic reference)",
}

ASAN_ENV = {"ASAN_OPTIONS": "detect_leaks=0:halt_on_error=0:print_legend=0", "UBSAN_OPTIONS": "print_stacktrace=0",
            "ETREE_MARK": "1"}


# ====================================================================================== helpers
def J(l):
    return " ".join(map(str, l))


def line_of(op, cid, c):
    if op == "CT":
        return "CT %d %d %d %d %s %s %s" % (cid, c["nr"], c["nc"], len(c["arow"]), J(c["colbeg"]), J(c["colend"]), J(c["arow"]))
    if op == "SP":
        return "SP %d %d %d %d %s %s %s" % (cid, c["nr"], c["nc"], len(c["arow"]), J(c["colbeg"]), J(c["colend"]), J(c["arow"]))
    if op == "ST" or op == "SS":
        return "%s %d %d %d %s %s %s" % (op, cid, c["n"], len(c["arow"]), J(c["colbeg"]), J(c["colend"]), J(c["arow"]))
    if op == "PO":
        return "PO %d %d %s" % (cid, c["n"], J(c["parent"]))
    if op == "GP":
        return "GP %d %d %d %d %d %s %s" % (cid, c["ispec"], c["m"], c["n"], len(c["rowind"]), J(c["colptr"]), J(c["rowind"]))
    if op == "CO":
        return "CO %d %d %d %d %d %s %s %s" % (cid, c["sym"], c["m"], c["n"], len(c["rowind"]), J(c["colptr"]), J(c["rowind"]), J(c["perm"]))
    if op == "CP":
        return "CP %d %d %d %s" % (cid, c["n"], len(c["p"]), J(c["p"]))
    if op == "CB":
        return "CB %d %d %d %s" % (cid, c["n"], len(c["part"]), J(c["part"]))
    raise ValueError(op)


def parse_out(text):
    """'id TAG payload' lines -> {id: {TAG: payload}}; BEGIN markers -> ordered list of ids"""
    res, begun = {}, []
    for ln in text.split("\n"):
        if not ln:
            continue
        sp = ln.split(" ", 2)
        if len(sp) < 2:
            continue
        try:
            cid = int(sp[0])
        except ValueError:
            continue
        if sp[1] == "BEGIN":
            begun.append(cid)
        else:
            res.setdefault(cid, {})[sp[1]] = sp[2] if len(sp) > 2 else ""
    return res, begun


def ints(s):
    return [int(x) for x in s.split()]


def parts(s):
    return [ints(x) for x in s.split(";")]


def run_model(drv, lines):
    if not lines:
        return {}
    try:
        p = subprocess.run([drv], input="\n".join(l for _, l in lines) + "\n", capture_output=True, text=True, timeout=1800)
    except subprocess.TimeoutExpired:
        return {"_error": "model driver timeout"}
    res, _ = parse_out(p.stdout)
    if p.returncode != 0:
        res["_error"] = "model driver rc=%d %s" % (p.returncode, p.stderr[-300:])
    return res


def run_c(exe, lines, asan=False, timeout=None, abort_flag=None):
    """run the C harness on (id, line) pairs; survives crashes / hangs of single cases.
    returns (results, incidents) with incidents = [(id, what, detail)]"""
    results, incidents = {}, []
    pending = list(lines)
    env = dict(os.environ)
    if asan:
        env.update(ASAN_ENV)
    restarts = hangs = 0
    while pending and restarts < 12:
        if abort_flag and os.path.exists(abort_flag):
            incidents.append((None, "skipped", "run skipped after repeated hangs of the C code elsewhere"))
            break
        tmo = timeout or (8 + 0.0008 * len(pending) * (3 if asan else 1))
        text = "\n".join(l for _, l in pending) + "\n"
        why = None
        try:
            p = subprocess.run([exe], input=text, capture_output=True, text=True, env=env, timeout=tmo)
            out, err, rc = p.stdout, p.stderr, p.returncode
            if rc != 0:
                why = "exit status %d" % rc
        except subprocess.TimeoutExpired as e:
            out = (e.stdout or b"")
            err = (e.stderr or b"")
            out = out.decode("utf-8", "replace") if isinstance(out, bytes) else out
            err = err.decode("utf-8", "replace") if isinstance(err, bytes) else err
            why = "no termination within %ds" % tmo
            hangs += 1
        res, begun = parse_out(out)
        results.update(res)
        if asan and err:
            cur = None
            for ln in err.split("\n"):
                if ln.startswith("@@ "):
                    try:
                        cur = int(ln[3:])
                    except ValueError:
                        pass
                elif "ERROR: AddressSanitizer" in ln or "runtime error:" in ln:
                    incidents.append((cur, "sanitizer", ln.strip()[:300]))
                elif ln.startswith("SUMMARY: AddressSanitizer"):
                    incidents.append((cur, "sanitizer-summary", ln.strip()[:300]))
        if why is None:
            break
        # the case that was running when the process died: the last BEGIN without a result line
        bad = None
        if begun and begun[-1] not in res:
            bad = begun[-1]
        if bad is None:
            incidents.append((None, "harness failure", (why + " " + err[-300:])))
            break
        incidents.append((bad, "crash" if "exit" in why else "hang", why + "; " + err[-400:].replace("\n", " | ")))
        idx = [i for i, (cid, _) in enumerate(pending) if cid == bad]
        pending = pending[idx[0] + 1:] if idx else []
        restarts += 1
        if hangs >= 2:
            if abort_flag:
                try:
                    open(abort_flag, "w").write("hang\n")
                except OSError:
                    pass
            incidents.append((None, "skipped", "remaining cases of this run skipped after 2 hangs"))
            break
    return results, incidents


def csc(m, cols):
    colptr, rowind = [0], []
    for c in cols:
        rowind.extend(c)
        colptr.append(len(rowind))
    return colptr, rowind


def nth_perm(n, k):
    """k-th permutation of range(n) in lexicographic order (k mod n!)"""
    items = list(range(n))
    f = 1
    for i in range(2, n + 1):
        f *= i
    k %= max(f, 1)
    out = []
    for i in range(n, 0, -1):
        f //= i
        q, k = divmod(k, f)
        out.append(items.pop(q))
    return out


# ====================================================================================== generators
def gen_pattern(rng, kind, n, cap=3000):
    """returns (m, n, cols) -- cols[j] = list of distinct row indices (order as stored)"""
    m = n
    cols = [set() for _ in range(n)]
    if kind == "random":
        d = rng.choice([0.02, 0.05, 0.1, 0.2, 0.4]) if n > 12 else rng.choice([0.1, 0.3, 0.5, 0.8])
        for j in range(n):
            for i in range(m):
                if rng.random() < d:
                    cols[j].add(i)
    elif kind == "zfd":                      # zero-free diagonal + random
        d = rng.choice([0.02, 0.05, 0.1, 0.3])
        for j in range(n):
            cols[j].add(j)
            for i in range(m):
                if rng.random() < d:
                    cols[j].add(i)
    elif kind == "banded":
        bl, bu = rng.randint(0, 4), rng.randint(0, 4)
        for j in range(n):
            for i in range(max(0, j - bu), min(m, j + bl + 1)):
                if rng.random() < 0.85:
                    cols[j].add(i)
    elif kind == "arrow":
        last = rng.random() < 0.5
        h = n - 1 if last else 0
        for j in range(n):
            cols[j].add(j)
            cols[j].add(h)
            cols[h].add(j)
    elif kind == "blockdiag":
        j = 0
        while j < n:
            b = min(n - j, rng.randint(1, max(1, n // 3)))
            dense = rng.random() < 0.5
            for c in range(j, j + b):
                for r in range(j, j + b):
                    if dense or rng.random() < 0.4 or r == c:
                        cols[c].add(r)
            j += b
    elif kind == "disconnected":             # blocks with disjoint rows and columns, scattered
        k = rng.randint(2, max(2, min(6, n)))
        cb = [rng.randrange(k) for _ in range(n)]
        rb = [rng.randrange(k) for _ in range(m)]
        for j in range(n):
            for i in range(m):
                if rb[i] == cb[j] and rng.random() < 0.5:
                    cols[j].add(i)
    elif kind == "denserow":
        for j in range(n):
            for i in range(m):
                if rng.random() < 0.04:
                    cols[j].add(i)
        for _ in range(rng.randint(1, 3)):
            r = rng.randrange(m) if m else 0
            for j in range(n):
                if m and rng.random() < 0.97:
                    cols[j].add(r)
    elif kind == "emptyrc":
        d = rng.choice([0.1, 0.3])
        er = set(rng.sample(range(m), rng.randint(1, max(1, m // 3)))) if m else set()
        ec = set(rng.sample(range(n), rng.randint(1, max(1, n // 3)))) if n else set()
        for j in range(n):
            if j in ec:
                continue
            for i in range(m):
                if i not in er and rng.random() < d:
                    cols[j].add(i)
    elif kind == "chain":
        for j in range(n):
            cols[j].add(j)
            if j + 1 < m:
                cols[j].add(j + 1)
    elif kind == "star":
        for j in range(n):
            cols[j].add(j)
            cols[0].add(j)
            if rng.random() < 0.3:
                cols[j].add(0)
    elif kind == "grid":
        k = max(2, int(n ** 0.5))
        n = m = k * k
        cols = [set() for _ in range(n)]
        for x in range(k):
            for y in range(k):
                v = x * k + y
                cols[v].add(v)
                for (a, b) in ((x + 1, y), (x - 1, y), (x, y + 1), (x, y - 1)):
                    if 0 <= a < k and 0 <= b < k:
                        cols[v].add(a * k + b)
    elif kind == "tall":                     # m > n
        m = n + rng.randint(1, 3)
        d = rng.choice([0.05, 0.2, 0.5])
        for j in range(n):
            for i in range(m):
                if rng.random() < d:
                    cols[j].add(i)
    elif kind == "verytall":                 # m >> n
        m = n + rng.randint(4, 2 * n + 4)
        d = rng.choice([0.05, 0.2])
        for j in range(n):
            for i in range(m):
                if rng.random() < d:
                    cols[j].add(i)
    elif kind == "wide":                     # m < n
        m = max(0, n - rng.randint(1, max(1, n // 2)))
        d = rng.choice([0.05, 0.2, 0.5])
        for j in range(n):
            for i in range(m):
                if rng.random() < d:
                    cols[j].add(i)
    elif kind == "permsym":                  # symmetric structure, randomly permuted columns
        d = rng.choice([0.03, 0.1, 0.3])
        pc = list(range(n))
        rng.shuffle(pc)
        for j in range(n):
            for i in range(j, n):
                if i == j or rng.random() < d:
                    cols[pc[j]].add(i)
                    cols[pc[i]].add(j)
    else:
        raise ValueError(kind)
    nnz = sum(len(c) for c in cols)
    if nnz > cap:                                # thin out (the model uses list arrays: cost ~ nnz^2)
        keep = cap / float(nnz)
        cols = [set(i for i in c if i == j or rng.random() < keep) for j, c in enumerate(cols)]
    out = []
    shuffle_rows = rng.random() < 0.3
    for c in cols:
        l = sorted(c)
        if shuffle_rows:
            rng.shuffle(l)
        out.append(l)
    return m, n, out


PAT_KINDS = ["random", "zfd", "banded", "arrow", "blockdiag", "disconnected", "denserow", "emptyrc", "chain", "star",
             "grid", "tall", "wide", "permsym", "verytall"]


SYM_CAP = 1200


def gen_pat_case(rng, kind, n, cap=3000):
    m, n, cols = gen_pattern(rng, kind, n, cap)
    colptr, rowind = csc(m, cols)
    orders = [0, 1, 3] + ([2] if m == n else [])
    co = []
    if True:
        srcs = ["gp1", "gp3", "id", "rnd", "rev"] + (["gp2"] if m == n else [])
        for s in rng.sample(srcs, 2):
            if s == "rnd":
                p = list(range(n)); rng.shuffle(p); s = p
            elif s == "id":
                s = list(range(n))
            elif s == "rev":
                s = list(range(n - 1, -1, -1))
            co.append([s, 0])
        if m == n and colptr[-1] <= SYM_CAP:
            s = rng.choice(["gp2", "id", "rnd"])
            if s == "rnd":
                p = list(range(n)); rng.shuffle(p); s = p
            elif s == "id":
                s = list(range(n))
            co.append([s, 1])
    c = {"t": "pat", "kind": kind, "m": m, "n": n, "colptr": colptr, "rowind": rowind, "orders": orders, "co": co}
    if m > n:                  # tree functions directly on the NCP form of A*P (sp_colorder is skipped while m > n is unsafe)
        p = list(range(n)); rng.shuffle(p)
        c["raw_perm"] = p
    return c


def gen_forest(rng, kind, n):
    if kind == "chain":
        par = [j + 1 for j in range(n)]
    elif kind == "roots":
        par = [n] * n
    elif kind == "star":
        par = [n - 1] * (n - 1) + [n] if n else []
    elif kind == "binary":
        par = [min(n, n - 1 - ((n - 1 - j - 1) // 2)) if j < n - 1 else n for j in range(n)]
        par = [p if p > j else n for j, p in enumerate(par)]
    elif kind == "wide":
        par = [rng.choice([n, n, rng.randint(j + 1, n)]) for j in range(n)]
    elif kind == "near":
        par = [min(n, j + rng.randint(1, 3)) for j in range(n)]
    else:
        par = [rng.randint(j + 1, n) for j in range(n)]
    return {"t": "po", "kind": "forest-" + kind, "n": n, "parent": par}


FOREST_KINDS = ["chain", "roots", "star", "binary", "wide", "near", "random"]


def gen_raw_ct(rng, n, sym, cap=3000):
    """NCP pattern with gaps / permuted storage, fed to sp_coletree / sp_symetree directly"""
    kind = rng.choice(["random", "banded", "denserow", "emptyrc", "blockdiag", "wide", "verytall", "arrow"])
    if sym:
        kind = rng.choice(["random", "banded", "arrow", "blockdiag", "permsym", "emptyrc"])
    m, n, cols = gen_pattern(rng, kind, n, cap)
    order = list(range(n))
    rng.shuffle(order)
    arow, cb, ce = [], [0] * n, [0] * n
    for j in order:
        for _ in range(rng.randint(0, 2)):          # gap entries never referenced
            arow.append(rng.randrange(max(1, m)))
        cb[j] = len(arow)
        arow.extend(cols[j])
        ce[j] = len(arow)
    if sym:
        return {"t": "st", "kind": "raw-sym-" + kind, "n": n, "colbeg": cb, "colend": ce, "arow": arow}
    return {"t": "ct", "kind": "raw-" + kind, "nr": m, "nc": n, "colbeg": cb, "colend": ce, "arow": arow}


def gen_checker_cases(rng, count):
    out = []
    for _ in range(count):
        n = rng.randint(0, 12)
        p = list(range(n))
        rng.shuffle(p)
        mode = rng.choice(["ok", "dup", "range", "neg", "short", "long", "ok"])
        if n and mode == "dup":
            p[rng.randrange(n)] = p[rng.randrange(n)]
        elif n and mode == "range":
            p[rng.randrange(n)] = n
        elif n and mode == "neg":
            p[rng.randrange(n)] = -1
        elif n and mode == "short":
            p = p[:-1]
        elif mode == "long":
            p = p + [rng.randint(0, n)]
        out.append({"t": "cp", "kind": "checker-perm-" + mode, "n": n, "p": p})
        # block partitions
        n = rng.randint(0, 14)
        part, k = [0] * n, 0
        while k < n:
            s = rng.randint(1, min(4, n - k))
            part[k] = s
            k += s
        mode = rng.choice(["ok", "zero", "overlap", "neg", "over", "short", "ok"])
        if n and mode == "zero":
            part[0] = 0
        elif n and mode == "overlap":
            part[rng.randrange(n)] += 1
        elif n and mode == "neg":
            part[rng.randrange(n)] = -1
        elif n and mode == "over":
            part[n - 1] = 2
        elif n and mode == "short":
            part = part[:-1]
        out.append({"t": "cb", "kind": "checker-blocks-" + mode, "n": n, "part": part})
    return out


def expand_exhaustive(job):
    """all m x n patterns with bits in [lo, hi)"""
    m, n, lo, hi, full = job["m"], job["n"], job["lo"], job["hi"], job["full"]
    nf = 1
    for i in range(2, n + 1):
        nf *= i
    cases = []
    for bits in range(lo, hi):
        colptr, rowind = [0], []
        for j in range(n):
            for i in range(m):
                if (bits >> (j * m + i)) & 1:
                    rowind.append(i)
            colptr.append(len(rowind))
        orders = [0, 1, 3] + ([2] if m == n else [])
        if full:
            co = [[nth_perm(n, k), 0] for k in range(nf)] + [["gp1", 0], ["gp3", 0]]
            if m == n:
                co += [[nth_perm(n, k), 1] for k in range(nf)] + [["gp2", 1], ["gp2", 0]]
        else:
            srcs = ["gp1", "gp3", nth_perm(n, bits), nth_perm(n, bits // 3 + 1)] + (["gp2"] if m == n else [])
            co = [[srcs[bits % len(srcs)], 0]]
            if m == n:
                co.append([[nth_perm(n, bits // 2), "gp2", nth_perm(n, bits + 5)][bits % 3], 1])
        cases.append({"t": "pat", "kind": "exhaustive-%dx%d" % (m, n), "m": m, "n": n, "colptr": colptr,
                      "rowind": rowind, "orders": orders, "co": co, "bits": bits})
    return cases


# ====================================================================================== evaluation
class Acc:
    def __init__(self):
        self.fail = {}       # key-json -> record (smallest case kept), with count
        self.corr = {}
        self.hist = {}
        self.keys = []
        self.samples = []
        self.disagree = []

    def corr_inc(self, name, n=1):
        self.corr[name] = self.corr.get(name, 0) + n

    def failure(self, what, key, case, found, detail=None):
        ks = json.dumps(key, sort_keys=True)
        size = case_size(case)
        rec = self.fail.get(ks)
        if rec is None:
            self.fail[ks] = {"what": what, "key": key, "case": case, "found": found, "detail": detail, "count": 1, "size": size}
        else:
            rec["count"] += 1
            if (found and not rec["found"]) or (found == rec["found"] and size < rec["size"]):
                rec.update({"what": what, "case": case, "found": found, "detail": detail, "size": size})

    def result(self):
        return {"fail": list(self.fail.values()), "corr": self.corr, "hist": self.hist, "keys": self.keys,
                "samples": self.samples}


def case_size(c):
    t = c.get("t")
    if t == "pat":
        return c["m"] + c["n"] + len(c["rowind"])
    if t in ("ct", "st"):
        return c.get("nc", c.get("n", 0)) + len(c["arow"])
    if t == "po":
        return c["n"]
    return len(c.get("p", c.get("part", [])))


def asan_key(summary, cls):
    m = re.search(r"AddressSanitizer: (\S+) (\S+?):(\d+) in (\S+)", summary)
    if m:
        return {"defect": "memory-error", "what": m.group(1), "where": "%s:%s" % (os.path.basename(m.group(2)), m.group(4)), "class": cls}
    return {"defect": "memory-error", "what": summary[:80], "where": "?", "class": cls}


SPEC_CAP = 2600      # the definitional Coq spec costs ~ nnz^2: larger patterns are compared with the Python reference only


def evaluate(exes, cases):
    """exes = {"c": O2 harness, "asan": ASan harness or None, "drv": model driver,
               "tall": run sp_colorder on m > n, "n0": run sp_colorder on n == 0}.  Returns Acc.result()."""
    acc = Acc()
    nid = [0]

    def new_id():
        nid[0] += 1
        return nid[0]

    c_lines, a_lines, m_lines = [], [], []      # O2 harness, ASan harness, model
    info = {}                                    # id -> (case, op, extra)

    def sched(op, case, payload, c=True, a=True, mdl=True):
        cid = new_id()
        ln = line_of(op, cid, payload)
        if c:
            c_lines.append((cid, ln))
        if a and exes.get("asan"):
            a_lines.append((cid, ln))
        if mdl:
            m_lines.append((cid, ln))
        info[cid] = (case, op, payload)
        return cid

    # ---------------------------------------------------------------- stage 1: GP, CT, ST, PO, checker-only
    for case in cases:
        t = case["t"]
        acc.hist[case["kind"]] = acc.hist.get(case["kind"], 0) + 1
        if t == "pat":
            case["_gp"] = {}
            for ispec in case["orders"]:
                if ispec == 2 and case["m"] != case["n"]:
                    continue
                pl = {"ispec": ispec, "m": case["m"], "n": case["n"], "colptr": case["colptr"], "rowind": case["rowind"]}
                case["_gp"][ispec] = sched("GP", case, pl, c=True, a=True, mdl=(ispec == 0))
            if "raw_perm" in case:
                p = case["raw_perm"]
                n = case["n"]
                cb, ce = [0] * n, [0] * n
                for j in range(n):
                    cb[p[j]] = case["colptr"][j]
                    ce[p[j]] = case["colptr"][j + 1]
                pl = {"nr": case["m"], "nc": n, "colbeg": cb, "colend": ce, "arow": case["rowind"]}
                case["_ct"] = sched("CT", case, pl)
                case["_sp"] = sched("SP", case, pl, c=False, a=False) if len(pl["arow"]) <= SPEC_CAP else None
        elif t == "ct":
            case["_ct"] = sched("CT", case, case)
            case["_sp"] = sched("SP", case, case, c=False, a=False) if len(case["arow"]) <= SPEC_CAP else None
        elif t == "st":
            case["_st"] = sched("ST", case, case)
            case["_ss"] = sched("SS", case, case, c=False, a=False) if len(case["arow"]) <= SPEC_CAP else None
        elif t == "po":
            case["_po"] = sched("PO", case, case)
        elif t == "cp":
            case["_cp"] = sched("CP", case, case, c=False, a=False)
        elif t == "cb":
            case["_cb"] = sched("CB", case, case, c=False, a=False)

    af = exes.get("abort")
    cres, cinc = run_c(exes["c"], c_lines, abort_flag=af)
    ares, ainc = run_c(exes["asan"], a_lines, asan=True, abort_flag=af) if exes.get("asan") else ({}, [])
    mres = run_model(exes["drv"], m_lines)
    if "_error" in mres:
        acc.failure("model driver failed: " + mres["_error"], {"op": "model", "oracle": "driver"}, cases[0], False)

    # ---------------------------------------------------------------- stage 2: CO with the orderings found
    c_lines, a_lines, m_lines = [], [], []
    for case in cases:
        if case["t"] != "pat":
            continue
        case["_co"] = []
        m, n = case["m"], case["n"]
        for src, sym in case["co"]:
            if isinstance(src, str):
                gid = case["_gp"].get(int(src[2:]))
                got = (cres.get(gid) or ares.get(gid) or {}).get("GP")
                if got is None:
                    continue
                perm = ints(got)
                if not R.is_perm(perm, n):
                    continue          # reported by the GP oracle below
            else:
                perm = src
            if sym and m != n:
                continue
            pl = {"sym": sym, "m": m, "n": n, "colptr": case["colptr"], "rowind": case["rowind"], "perm": perm}
            probe = case.get("probe")
            if (m > n and not (exes.get("tall") or probe)) or (n == 0 and not (exes.get("n0") or probe)):
                acc.corr_inc("sp_colorder skipped (m > n or n = 0: see findings)")
                continue
            # probes of a known-UB class never run in the unsanitised build
            cid = sched("CO", case, pl, c=not probe, a=True)
            case["_co"].append((cid, src, sym, perm))
    cres2, cinc2 = run_c(exes["c"], c_lines, abort_flag=af)
    ares2, ainc2 = run_c(exes["asan"], a_lines, asan=True, abort_flag=af) if exes.get("asan") else ({}, [])
    mres2 = run_model(exes["drv"], m_lines)
    cres.update(cres2); ares.update(ares2); mres.update(mres2)
    cinc += cinc2; ainc += ainc2

    # ---------------------------------------------------------------- stage 3: spec + verified checkers on C outputs
    m_lines = []
    c_lines, a_lines = [], []
    for case in cases:
        if case["t"] != "pat":
            continue
        n = case["n"]
        case["_chk"] = {}
        for ispec, gid in case["_gp"].items():
            got = (cres.get(gid) or ares.get(gid) or {}).get("GP")
            if got is not None:
                p = ints(got)
                case["_chk"][("gp", ispec)] = sched("CP", case, {"n": n, "p": p}, c=False, a=False)
        for (cid, src, sym, perm) in case["_co"]:
            r = (cres.get(cid) or ares.get(cid) or {})
            if "CO" not in r or "CX" not in r:
                continue
            try:
                colbeg, colend, pout, etree = parts(r["CO"])
                colcnt, part, flags = parts(r["CX"])
            except ValueError:
                continue
            case["_chk"][("cop", cid)] = sched("CP", case, {"n": n, "p": pout}, c=False, a=False)
            case["_chk"][("cob", cid)] = sched("CB", case, {"n": n, "part": part}, c=False, a=False)
            if len(case["rowind"]) <= SPEC_CAP and len(colbeg) == n and len(colend) == n and \
                    all(0 <= colbeg[j] <= colend[j] <= len(case["rowind"]) for j in range(n)):
                if sym:
                    # pattern of C = Pc (A+A') Pc' for the FINAL perm_c, full symmetric, as CSC
                    if R.is_perm(pout, n):
                        cols = [set() for _ in range(n)]
                        for j in range(n):
                            for q in range(case["colptr"][j], case["colptr"][j + 1]):
                                i = case["rowind"][q]
                                if i != j and i < n:
                                    cols[pout[j]].add(pout[i])
                                    cols[pout[i]].add(pout[j])
                        cp_, ri_ = csc(n, [sorted(c) for c in cols])
                        case["_chk"][("spec", cid)] = sched("SS", case, {"n": n, "colbeg": cp_[:-1], "colend": cp_[1:], "arow": ri_}, c=False, a=False)
                else:
                    case["_chk"][("spec", cid)] = sched("SP", case, {"nr": case["m"], "nc": n, "colbeg": colbeg, "colend": colend,
                                                                      "arow": case["rowind"]}, c=False, a=False)
    mres3 = run_model(exes["drv"], m_lines)
    mres.update(mres3)

    # ---------------------------------------------------------------- incidents (crash / hang / sanitizer)
    for (inc, build) in ((cinc, "O2"), (ainc, "asan")):
        for cid, what, detail in inc:
            if what == "skipped":
                acc.corr_inc("C runs skipped after repeated hangs")
                continue
            if cid is None or cid not in info:
                acc.failure("C harness failure (%s build): %s" % (build, detail), {"op": "harness", "oracle": what}, cases[0], False)
                continue
            case, op, pl = info[cid]
            cls = "n=0" if pl.get("n", pl.get("nc", 1)) == 0 else ("m>n" if pl.get("m", 0) > pl.get("n", 0) and op == "CO" else "other")
            rc = replay_case(case, op, pl)
            if case.get("probe"):
                rc["probe"] = True
            if what == "sanitizer":
                continue            # the SUMMARY line carries the location
            if op == "CO" and cls in ("m>n", "n=0"):
                acc.failure("sp_colorder is not memory safe for %s (%s build): %s" % (cls, build, detail[:300]),
                            {"op": "CO", "class": cls, "oracle": "memory-safe"}, rc, True, detail)
            elif what == "sanitizer-summary":
                acc.failure("memory error reported by the sanitizer in %s: %s" % (op, detail), asan_key(detail, cls), rc, True, detail)
            else:
                acc.failure("%s of the C code in %s (%s build): %s" % (what, op, build, detail[:300]),
                            {"op": op, "oracle": "terminates-without-crash", "class": cls}, rc, True, detail)

    # ---------------------------------------------------------------- per-case oracles and correspondence
    def both(cid):
        """C results of the two builds for an id (either may be absent)"""
        return [(b, r[cid]) for b, r in (("O2", cres), ("asan", ares)) if cid in r]

    def corr(name, ok, case, op, pl, detail):
        acc.corr_inc(name)
        if not ok:
            acc.disagree.append((name, detail))
        return ok

    for case in cases:
        t = case["t"]
        if t == "po":
            n, par = case["n"], case["parent"]
            cid = case["_po"]
            mo = mres.get(cid, {}).get("PO")
            acc.keys.append((("PO", n, tuple(par)), n > 1, case["kind"]))
            for b, r in both(cid):
                got = r.get("PO")
                if got is None:
                    continue
                post = ints(got)
                ok = len(post) == n + 1 and post[n] == n and R.is_postorder_of(post[:n], par, n)
                if not ok:
                    acc.failure("TreePostorder does not return a postorder of the forest (post[n]=n, children before parents, subtrees contiguous)",
                                {"op": "PO", "oracle": "postorder"}, case, True, {"post": post, "build": b})
                acc.corr_inc("TreePostorder C(%s) = model" % b)
                if mo is None or mo.strip() == "ERR" or got != mo:
                    acc.failure("TreePostorder: C (%s) and model differ: C=%s model=%s" % (b, got, mo), {"op": "PO", "oracle": "C=model"}, case, not ok)
        elif t in ("ct", "st") or (t == "pat" and "_ct" in case):
            sym = (t == "st")
            cid = case["_st"] if sym else case["_ct"]
            sid = case["_ss"] if sym else case["_sp"]
            _, op, pl = info[cid]
            n = pl["n"] if sym else pl["nc"]
            tag, stag = ("ST", "SS") if sym else ("CT", "SP")
            mo = mres.get(cid, {}).get(tag)
            so = mres.get(sid, {}).get(stag)
            cs = R.cols_of_ncp(n, pl["colbeg"], pl["colend"], pl["arow"])
            if sym:
                adj = [0] * n
                for j in range(n):
                    for i in range(j):
                        if (cs[j] >> i) & 1:
                            adj[j] |= 1 << i
                            adj[i] |= 1 << j
                ref = R.etree_of_adj(adj)[0]
            else:
                ref = R.ref_coletree(pl["nr"], cs)
            acc.keys.append(((tag, n, tuple(pl["colbeg"]), tuple(pl["colend"]), tuple(pl["arow"])), n > 1, case["kind"]))
            refs = (" " + J(ref)) if ref else ""
            if sid is not None:
                acc.corr_inc("%s definitional spec (Coq) = independent reference" % tag)
            if sid is not None and (so is None or so.split() != refs.split()):
                acc.failure("Coq %s spec and Python reference differ: %s vs %s" % (tag, so, refs), {"op": tag, "oracle": "spec=reference"}, case, False)
            for b, r in both(cid):
                got = r.get(tag)
                if got is None:
                    continue
                ok = ints(got) == ref
                if not ok:
                    acc.failure("%s does not return the elimination tree of the pattern: got%s expected%s" % ("sp_symetree" if sym else "sp_coletree", got, refs),
                                {"op": tag, "oracle": "etree=definition"}, replay_case(case, op, pl), True, {"build": b})
                acc.corr_inc("%s C(%s) = model" % (tag, b))
                if mo is None or got != mo:
                    acc.failure("%s: C (%s) and model differ: C=%s model=%s" % (tag, b, got, mo), {"op": tag, "oracle": "C=model"}, replay_case(case, op, pl), not ok)
        if t == "cp":
            v = mres.get(case["_cp"], {}).get("CP", "").strip()
            exp = "1" if R.is_perm(case["p"], case["n"]) else "0"
            acc.corr_inc("check_perm verdict = reference (incl. malformed)")
            acc.keys.append((("CP", case["n"], tuple(case["p"])), True, case["kind"]))
            if v != exp:
                acc.failure("extracted check_perm disagrees with the reference on %s: %s vs %s" % (case["p"], v, exp), {"op": "CP", "oracle": "checker"}, case, False)
        if t == "cb":
            v = mres.get(case["_cb"], {}).get("CB", "").strip()
            exp = "1" if R.block_partition_ok(case["part"], case["n"]) else "0"
            acc.corr_inc("check_blocks verdict = reference (incl. malformed)")
            acc.keys.append((("CB", case["n"], tuple(case["part"])), True, case["kind"]))
            if v != exp:
                acc.failure("extracted check_blocks disagrees with the reference on %s: %s vs %s" % (case["part"], v, exp), {"op": "CB", "oracle": "checker"}, case, False)
        if t != "pat":
            continue
        m, n, colptr, rowind = case["m"], case["n"], case["colptr"], case["rowind"]
        nontriv = n >= 2 and len(rowind) > 0
        # ---- orderings
        for ispec, gid in case["_gp"].items():
            _, op, pl = info[gid]
            acc.keys.append((("GP", ispec, m, n, tuple(colptr), tuple(rowind)), nontriv, case["kind"]))
            for b, r in both(gid):
                got = r.get("GP")
                if got is None:
                    continue
                p = ints(got)
                ok = R.is_perm(p, n)
                if ispec == 0:
                    ok = ok and p == list(range(n))
                if not ok:
                    acc.failure("get_perm_c(ispec=%d) does not return %s: %s" % (ispec, "the identity" if ispec == 0 else "a bijection of 0..n-1", p),
                                {"op": "GP", "ispec": ispec, "oracle": "bijection"}, replay_case(case, op, pl), True, {"build": b})
                if ispec == 0:
                    mo = mres.get(gid, {}).get("GP")
                    acc.corr_inc("get_perm_c natural C(%s) = model" % b)
                    if mo != got:
                        acc.failure("natural ordering: C (%s) and model differ: %s vs %s" % (b, got, mo), {"op": "GP", "oracle": "C=model"}, replay_case(case, op, pl), not ok)
                if b == "O2" or "O2" not in [x for x, _ in both(gid)]:
                    chk = mres.get(case["_chk"].get(("gp", ispec)), {}).get("CP", "").strip()
                    acc.corr_inc("verified check_perm run on get_perm_c output")
                    if chk != ("1" if R.is_perm(p, n) else "0"):
                        acc.failure("check_perm (Coq) and reference disagree on %s" % p, {"op": "CP", "oracle": "checker"}, replay_case(case, op, pl), False)
            bb = both(gid)
            if len(bb) == 2 and bb[0][1].get("GP") != bb[1][1].get("GP"):
                acc.failure("get_perm_c(ispec=%d) differs between the -O2 and the sanitizer build (undefined behaviour?)" % ispec,
                            {"op": "GP", "ispec": ispec, "oracle": "O2=asan"}, replay_case(case, op, pl), False)
        # ---- sp_colorder
        for (cid, src, sym, perm) in case.get("_co", []):
            _, op, pl = info[cid]
            rc = replay_case(case, op, pl)
            if case.get("probe"):
                rc["probe"] = True
            acc.keys.append((("CO", sym, m, n, tuple(colptr), tuple(rowind), tuple(perm)), nontriv, case["kind"]))
            mo = mres.get(cid, {}).get("CO")
            for b, r in both(cid):
                if "CO" not in r or "CX" not in r:
                    continue
                got = r["CO"]
                try:
                    colbeg, colend, pout, etree = parts(got)
                    colcnt, part, flags = parts(r["CX"])
                except ValueError:
                    acc.failure("unparsable sp_colorder output", {"op": "CO", "oracle": "output"}, rc, True)
                    continue
                bad = []
                if not R.is_perm(pout, n):
                    bad.append(("perm_c-bijection", "output perm_c is not a bijection: %s" % pout))
                else:
                    if any(colbeg[pout[j]] != colptr[j] or colend[pout[j]] != colptr[j + 1] for j in range(n)):
                        bad.append(("AC-columns", "column perm_c[j] of AC is not column j of A"))
                    # tree of A*Pc_in and the postorder relating input and output orderings
                    a_cols = R.cols_of(m, n, colptr, rowind)
                    if sym:
                        adj = R.apa_adj(a_cols)

                        def padj(pp_):
                            o = [0] * n
                            for j in range(n):
                                t_ = adj[j]
                                i = 0
                                while t_:
                                    if t_ & 1:
                                        o[pp_[j]] |= 1 << pp_[i]
                                    t_ >>= 1
                                    i += 1
                            return o
                        t_in = R.etree_of_adj(padj(perm))[0]
                        ref, cnt = R.etree_of_adj(padj(pout))
                    else:
                        cin = [0] * n
                        for j in range(n):
                            cin[perm[j]] = a_cols[j]
                        t_in = R.ref_coletree(m, cin)
                        cfin = R.cols_of_ncp(n, colbeg, colend, rowind) if all(0 <= colbeg[j] <= colend[j] <= len(rowind) for j in range(n)) else None
                        ref = R.ref_coletree(m, cfin) if cfin is not None else None
                        cnt = None
                    inv_in = [0] * n
                    for j in range(n):
                        inv_in[perm[j]] = j
                    post = [pout[inv_in[k]] for k in range(n)]
                    if not R.is_postorder_of(post, t_in, n):
                        bad.append(("ordering-changed-only-by-postorder", "perm_c_out o perm_c_in^-1 = %s is not a postorder of the etree of A*Pc_in %s" % (post, t_in)))
                    if ref is not None and etree != ref:
                        bad.append(("etree=definition-on-final-A*Pc", "reported etree %s, elimination tree of the final matrix %s" % (etree, ref)))
                    if not R.postordered_ok(etree, n):
                        bad.append(("etree-postordered", "reported etree %s is not postordered (j < parent j <= n, contiguous subtrees)" % etree))
                    if sym and cnt is not None and colcnt != cnt:
                        bad.append(("colcnt_h=cholesky-counts", "colcnt_h %s, column counts of the Cholesky factor of Pc(A+A')Pc' %s" % (colcnt, cnt)))
                    if (not sym) and ref is not None and etree == ref and cfin is not None:
                        h = R.householder_colcnt(m, n, cfin, etree)
                        if h is not None:
                            acc.corr_inc("colcnt_h = Householder row-path counts (zero-free diagonal)")
                            if colcnt != h:
                                bad.append(("colcnt_h=householder-counts", "colcnt_h %s, Householder column counts %s" % (colcnt, h)))
                if n >= 1 and not R.block_partition_ok(part, n):
                    bad.append(("part_super_h-block-partition", "part_super_h %s is not a partition of 0..n-1 into consecutive blocks" % part))
                if flags[0] != 1:
                    bad.append(("A-unchanged", "A's arrays / header were modified"))
                if flags[1] != 1:
                    bad.append(("AC-shares-A", "AC does not share nzval/rowind/nnz with A"))
                if flags[2] != 1:
                    bad.append(("AC-header", "AC header or options fields wrong"))
                if flags[3] != 1:
                    bad.append(("no-write-past-end", "etree/colcnt_h/part_super_h/perm_c written past their n entries"))
                for oname, msg in bad:
                    k = {"op": "CO", "sym": sym, "oracle": oname}
                    if oname == "no-write-past-end" and (n == 0 or m > n):
                        k = {"op": "CO", "class": "n=0" if n == 0 else "m>n", "oracle": "memory-safe"}
                    acc.failure("sp_colorder: " + msg, k, rc, True, {"build": b, "CO": got, "CX": r["CX"]})
                acc.corr_inc("sp_colorder C(%s) = model (colbeg, colend, perm_c, etree)" % b)
                if mo is None or mo != got:
                    acc.failure("sp_colorder: C (%s) and model differ: C=%s model=%s" % (b, got, mo), {"op": "CO", "sym": sym, "oracle": "C=model"}, rc, bool(bad))
                if b == both(cid)[0][0]:
                    so = mres.get(case["_chk"].get(("spec", cid)), {}).get("SS" if sym else "SP")
                    if ("spec", cid) in case["_chk"]:
                        acc.corr_inc("sp_colorder etree = Coq definitional spec on the final A*Pc")
                    if ("spec", cid) in case["_chk"] and (so is None or ints(so) != etree):
                        acc.failure("sp_colorder etree %s differs from the Coq spec %s" % (etree, so), {"op": "CO", "sym": sym, "oracle": "etree=coqspec"}, rc,
                                    any(o == "etree=definition-on-final-A*Pc" for o, _ in bad))
                    v = mres.get(case["_chk"].get(("cop", cid)), {}).get("CP", "").strip()
                    acc.corr_inc("verified check_perm run on sp_colorder perm_c")
                    if v != ("1" if R.is_perm(pout, n) else "0"):
                        acc.failure("check_perm (Coq) and reference disagree on %s" % pout, {"op": "CP", "oracle": "checker"}, rc, False)
                    v = mres.get(case["_chk"].get(("cob", cid)), {}).get("CB", "").strip()
                    acc.corr_inc("verified check_blocks run on part_super_h")
                    if v != ("1" if R.block_partition_ok(part, n) else "0"):
                        acc.failure("check_blocks (Coq) and reference disagree on %s" % part, {"op": "CB", "oracle": "checker"}, rc, False)
            bb = both(cid)
            if len(bb) == 2 and (bb[0][1].get("CO") != bb[1][1].get("CO") or bb[0][1].get("CX") != bb[1][1].get("CX")):
                acc.failure("sp_colorder output differs between the -O2 and the sanitizer build (undefined behaviour?)",
                            {"op": "CO", "sym": sym, "oracle": "O2=asan"}, rc, False)
        if len(acc.samples) < 2 and case.get("_co") and n >= 3:
            cid = case["_co"][0][0]
            r = cres.get(cid) or ares.get(cid) or {}
            acc.samples.append({"kind": case["kind"], "m": m, "n": n, "colptr": colptr, "rowind": rowind, "perm_c_in": case["_co"][0][3],
                                "sym": case["_co"][0][2], "C_colbeg;colend;perm_c;etree": r.get("CO"), "C_colcnt_h;part_super_h;flags": r.get("CX"),
                                "model": mres.get(cid, {}).get("CO")})
    return acc.result()


def replay_case(case, op, pl):
    """a self-contained single-operation case that reproduces `op` on payload pl"""
    if op == "CO":
        return {"t": "pat", "kind": case["kind"], "m": pl["m"], "n": pl["n"], "colptr": pl["colptr"], "rowind": pl["rowind"],
                "orders": [], "co": [[pl["perm"], pl["sym"]]]}
    if op == "GP":
        return {"t": "pat", "kind": case["kind"], "m": pl["m"], "n": pl["n"], "colptr": pl["colptr"], "rowind": pl["rowind"],
                "orders": [pl["ispec"]], "co": []}
    if op == "CT":
        return {"t": "ct", "kind": case["kind"], "nr": pl["nr"], "nc": pl["nc"], "colbeg": pl["colbeg"], "colend": pl["colend"], "arow": pl["arow"]}
    if op == "ST":
        return {"t": "st", "kind": case["kind"], "n": pl["n"], "colbeg": pl["colbeg"], "colend": pl["colend"], "arow": pl["arow"]}
    return strip(case)


def strip(case):
    return {k: v for k, v in case.items() if not k.startswith("_")}


def eval_job(job):
    exes, spec = job
    try:
        if exes.get("abort") and os.path.exists(exes["abort"]):
            return {"fail": [], "corr": {"jobs skipped after repeated hangs of the C code": 1}, "hist": {}, "keys": [], "samples": []}
        if spec["t"] == "exh":
            cases = expand_exhaustive(spec)
        else:
            cases = spec["cases"]
        res = evaluate(exes, cases)
        for f in res["fail"]:
            f["case"] = strip(f["case"])
        return res
    except Exception as e:                       # never lose a worker silently
        import traceback
        return {"fail": [{"what": "check worker crashed: " + traceback.format_exc()[-800:], "key": {"op": "worker"}, "case": {}, "found": False,
                          "detail": None, "count": 1, "size": 0}], "corr": {}, "hist": {}, "keys": [], "samples": []}


# ====================================================================================== shrinking
def shrink(exes, rec, budget_s=20.0):
    """greedy: drop columns / rows / entries while a failure with the same key persists"""
    key = json.dumps(rec["key"], sort_keys=True)
    case = rec["case"]
    if case.get("t") != "pat" or case.get("probe") or (not case.get("co") and not case.get("orders")):
        return case
    t0 = time.time()

    last = {}

    def still(c):
        r = evaluate(exes, [json.loads(json.dumps(c))])
        for f in r["fail"]:
            if json.dumps(f["key"], sort_keys=True) == key:
                last["what"], last["detail"] = f["what"], f.get("detail")
                return True
        return False

    def cols_of(c):
        return [c["rowind"][c["colptr"][j]:c["colptr"][j + 1]] for j in range(c["n"])]

    def rebuild(c, cols, m, perms):
        cp, ri = csc(m, cols)
        d = dict(c)
        d.update({"m": m, "n": len(cols), "colptr": cp, "rowind": ri})
        d["co"] = [[p, s] for (p, s) in perms]
        return d

    def drop_from_perm(p, j):
        if isinstance(p, str):
            return p
        v = p[j]
        return [x - (1 if x > v else 0) for i, x in enumerate(p) if i != j]

    changed = True
    while changed and time.time() - t0 < budget_s:
        changed = False
        cols = cols_of(case)
        square = case["m"] == case["n"]
        # drop a column (and the same row when square, to keep the shape class)
        for j in range(case["n"] - 1, -1, -1):
            if time.time() - t0 > budget_s:
                break
            nc = [list(c) for i, c in enumerate(cols) if i != j]
            m2 = case["m"]
            if square:
                nc = [[r - (1 if r > j else 0) for r in c if r != j] for c in nc]
                m2 -= 1
            perms = [(drop_from_perm(p, j), s) for p, s in case["co"]]
            cand = rebuild(case, nc, m2, perms)
            if still(cand):
                case, changed = cand, True
                break
        if changed:
            continue
        # drop a single entry
        for j in range(case["n"]):
            for k in range(len(cols[j])):
                if time.time() - t0 > budget_s:
                    break
                nc = [list(c) for c in cols]
                del nc[j][k]
                cand = rebuild(case, nc, case["m"], case["co"])
                if still(cand):
                    case, changed = cand, True
                    break
            if changed:
                break
    if "what" in last:
        rec["what"], rec["detail"] = last["what"], last["detail"]
    return case


# ====================================================================================== run / replay
def build_all(ctx):
    lib, fl = ctx.build_lib("hooks")
    exe = ctx.cc_harness("etree_harness", ["etree_harness.c", "sp_ienv_verif.c"], lib, fl)
    liba, fla = ctx.build_lib("asan", extra=["-fsanitize-recover=address"])
    exea = ctx.cc_harness("etree_harness_asan", ["etree_harness.c", "sp_ienv_verif.c"], liba, fla)
    drv = ctx.ocaml_model("etree")
    return {"c": exe, "asan": exea, "drv": drv}


def report(ctx, exes, results, do_shrink=True):
    """merge worker results into ctx; returns number of failures"""
    fails = {}
    for res in results:
        for k, v in res["corr"].items():
            ctx.corr(k, v)
        for key, nontriv, kind in res["keys"]:
            ctx.count(key, nontrivial=nontriv, kind=kind)
        for s in res["samples"]:
            ctx.sample(s)
        for f in res["fail"]:
            ks = json.dumps(f["key"], sort_keys=True)
            g = fails.get(ks)
            if g is None:
                fails[ks] = dict(f)
            else:
                g["count"] += f["count"]
                if (f["found"] and not g["found"]) or (f["found"] == g["found"] and f["size"] < g["size"]):
                    cnt = g["count"]
                    g.update(f)
                    g["count"] = cnt
    nbad = 0
    for ks, f in sorted(fails.items(), key=lambda kv: (not kv[1]["found"], kv[0])):
        nbad += 1
        ctx.log("FAIL x%d %s: %s" % (f["count"], ks, f["what"][:400]))
        if f["found"]:
            case = f["case"]
            if do_shrink and ctx.match_known(f["key"]) is None and not f["what"].startswith("hang"):
                try:
                    case = shrink(exes, f)
                except Exception as e:
                    ctx.log("shrink failed:", e)
            rep = {"cases": [case], "key": f["key"], "what": f["what"], "detail": f.get("detail"), "occurrences": f["count"]}
            isnew = ctx.violation(f["what"][:600], rep, key=f["key"], found_input=True)
            if isnew:
                save_corpus(ctx, rep)
        else:
            ctx.broken.append("correspondence %s: %s" % (ks, f["what"][:300]))
            ctx.cov.setdefault("disagreements", []).append({"key": f["key"], "what": f["what"][:600], "case": f["case"]})
    return nbad


def save_corpus(ctx, rep):
    d = os.path.join(vf.VERIF, "corpus", "C10")
    os.makedirs(d, exist_ok=True)
    autos = glob.glob(os.path.join(d, "auto-*.json"))
    if len(autos) >= 24:
        return
    name = "auto-%s.json" % hashlib.sha1(json.dumps(rep["key"], sort_keys=True).encode()).hexdigest()[:10]
    with open(os.path.join(d, name), "w") as f:
        json.dump({"cases": rep["cases"], "key": rep["key"], "what": rep["what"][:300]}, f)


def run(ctx):
    quick = ctx.quick()
    ctx.cov["rule"] = (
        "corpus/C10 first; EXHAUSTIVE: every m x n 0/1 pattern with 0<=m,n<=4 (duplicate-free CSC): get_perm_c for ispec 0,1,3 (and 2 when "
        "square), sp_colorder non-symmetric and (square) symmetric with orderings rotating over MMD(A'A), MMD(A'+A), COLAMD and explicit "
        "permutations (thorough: all n! permutations and all orderings, both modes); RANDOM structured patterns (random density, zero-free "
        "diagonal, banded, arrowhead, block diagonal, disconnected blocks, dense rows, empty rows/columns, chain, star, 2-D grid, tall, wide, "
        "permuted symmetric; sorted and shuffled row indices) up to n~300 quick / ~900 thorough, each with 2-3 orderings; sp_coletree / "
        "sp_symetree called directly on NCP patterns with gaps and permuted storage; TreePostorder on forests (chain, star, all roots, "
        "binary, wide, near, random); malformed stream (non-permutations, non-partitions) for the extracted checkers only. "
        "non-trivial = n>=2 with at least one stored entry (forests: n>=2).")
    ctx.cov["partial"] += [
        "symmetric mode: totality (c10_colorder_sym_total), at_plus_a = off-diagonal pattern of A+A' (c10_at_plus_a_pattern) and "
        "'the reported etree is symetree_spec of Pc(A+A')Pc'' (c10_colorder_sym_etree_is_spec) are proved for square patterns with "
        "monotone column pointers (EtreeSymProofs.v; without monotonicity the model - and the C code - index out of range: "
        "at_plus_a_needs_monotone); also compared on every generated square pattern (C vs model vs extracted spec vs reference)",
        "MMD (mmd.c), COLAMD (colamd.c), getata/at_plus_a as used by get_perm_c, qrnzcnt.c, cholnzcnt.c are not modelled: the verified "
        "checkers check_perm / check_blocks and the reference column counts are run on their outputs for every generated pattern",
        "sp_colorder for m > n (and for n = 0) is run in the campaign only when the sanitizer probes of these classes are clean "
        "(qrnzcnt indexes n-sized arrays by row index: findings/C10-qrnzcnt-rectangular.md, C10-n0-overflow.md); otherwise only the "
        "probes run and sp_coletree / TreePostorder are called directly on such patterns",
        "options->refact == YES (arrays reused) belongs to C08",
        "colcnt_h is compared with an independent count only in symmetric mode (Cholesky counts) and, in non-symmetric mode, for square "
        "patterns with zero-free diagonal (Householder row paths)",
        "the extracted definitional spec is evaluated only for patterns with nnz <= %d (cost ~ nnz^2); larger ones are compared with the "
        "independent reference only" % SPEC_CAP,
    ]
    ctx.cov["trusted_base"] += [
        "tools/etree_ref.py: independent bit-set reference (elimination game, postorder / partition predicates) used as the property oracle",
        "harness/etree_harness.c (+ AddressSanitizer/UBSan build of the library for the memory-safety side of the oracle)",
    ]
    ctx.assumptions += [
        "inputs are duplicate-free CSC patterns with 0 <= rowind < m and monotone colptr (the documented input contract)",
        "symmetric mode is exercised on square matrices only (at_plus_a indexes n-sized arrays by row index)",
    ]
    proofs_ok = ctx.coq_properties()
    exes = build_all(ctx)
    ctx.log("built: %s" % exes)

    # is sp_colorder usable for m > n / n = 0 on this tree?  (findings C10-qrnzcnt-rectangular, C10-n0-overflow)
    # probes run in the sanitizer build only; the classes are enabled for the campaign only when the probes are clean
    probes = []
    for (m_, n_) in ((2, 1), (4, 3), (7, 4), (12, 5), (40, 9)):
        cols_ = [[i for i in range(m_) if (i + 2 * j) % 3 != 1 or i == m_ - 1] for j in range(n_)]
        cols_[0] = list(range(m_))
        cp_, ri_ = csc(m_, cols_)
        probes.append({"t": "pat", "kind": "probe-tall", "m": m_, "n": n_, "colptr": cp_, "rowind": ri_, "orders": [],
                       "co": [[list(range(n_)), 0]], "probe": True})
    for m_ in (0, 3):
        probes.append({"t": "pat", "kind": "probe-n0", "m": m_, "n": 0, "colptr": [0], "rowind": [], "orders": [],
                       "co": [[[], 0]] + ([[[], 1]] if m_ == 0 else []), "probe": True})
    exes["tall"] = exes["n0"] = False
    exes["abort"] = os.path.join(ctx.bdir, "abort-%d" % os.getpid())
    if os.path.exists(exes["abort"]):
        os.unlink(exes["abort"])
    with ProcessPoolExecutor(max_workers=min(vf.NCPU, len(probes))) as ex:
        pres = list(ex.map(eval_job, [(exes, {"t": "cases", "cases": [c]}) for c in probes]))
    cls_bad = set(f["key"].get("class") for r in pres for f in r["fail"])
    exes["tall"] = "m>n" not in cls_bad and not any(f["case"].get("m", 0) > f["case"].get("n", 0) for r in pres for f in r["fail"])
    exes["n0"] = "n=0" not in cls_bad and not any(f["case"].get("n", 1) == 0 for r in pres for f in r["fail"])
    ctx.log("probes: sp_colorder usable for m>n: %s, for n=0: %s" % (exes["tall"], exes["n0"]))
    ctx.cov["probes"] = {"sp_colorder_m_gt_n_enabled": exes["tall"], "sp_colorder_n0_enabled": exes["n0"]}

    jobs = []
    # corpus first
    corpus = []
    for f in sorted(glob.glob(os.path.join(vf.VERIF, "corpus", "C10", "*.json"))):
        try:
            corpus += json.load(open(f))["cases"]
        except Exception as e:
            ctx.broken.append("unreadable corpus file %s: %s" % (f, e))
    if corpus:
        jobs.append({"t": "cases", "cases": corpus})
    # exhaustive n, m <= 4
    for m in range(0, 5):
        for n in range(0, 5):
            tot = 1 << (m * n)
            step = 1024 if quick else 256
            for lo in range(0, tot, step):
                jobs.append({"t": "exh", "m": m, "n": n, "lo": lo, "hi": min(tot, lo + step), "full": not quick})
    # random structured
    rng = ctx.rng
    rnd = []
    npat = 420 if quick else 6000
    cap = 3000 if quick else 5000
    for i in range(npat):
        kind = PAT_KINDS[i % len(PAT_KINDS)]
        r = rng.random()
        if quick:
            n = rng.randint(2, 12) if r < 0.3 else rng.randint(13, 60) if r < 0.8 else rng.randint(61, 160) if r < 0.96 else rng.randint(200, 300)
        else:
            n = rng.randint(2, 12) if r < 0.2 else rng.randint(13, 80) if r < 0.7 else rng.randint(81, 300) if r < 0.97 else rng.randint(400, 900)
        if kind in ("denserow", "random", "zfd", "verytall", "tall", "wide") and n > 200:
            n = 200 + n // 8
        rnd.append(gen_pat_case(rng, kind, n, cap))
    for i in range(npat // 2):
        n = rng.randint(1, 40) if rng.random() < 0.7 else rng.randint(41, 250 if quick else 700)
        rnd.append(gen_forest(rng, FOREST_KINDS[i % len(FOREST_KINDS)], n))
    for i in range(npat // 3):
        n = rng.randint(1, 30) if rng.random() < 0.7 else rng.randint(31, 150 if quick else 400)
        rnd.append(gen_raw_ct(rng, n, i % 3 == 0, cap))
    rnd += gen_checker_cases(rng, 300 if quick else 3000)
    rnd.sort(key=lambda c: -case_size(c))
    nchunks = 48 if quick else 320
    chunks = [[] for _ in range(nchunks)]
    for i, c in enumerate(rnd):
        chunks[i % nchunks].append(c)
    for ch in chunks:
        if ch:
            jobs.append({"t": "cases", "cases": ch})
    ctx.log("%d jobs (%d random cases)" % (len(jobs), len(rnd)))
    t = time.time()
    # big jobs first for a balanced pool
    order = sorted(range(len(jobs)), key=lambda i: (0 if jobs[i]["t"] == "cases" else 1))
    with ProcessPoolExecutor(max_workers=min(vf.NCPU, 16)) as ex:
        results = list(ex.map(eval_job, [(exes, jobs[i]) for i in order]))
    ctx.log("evaluated in %.1fs" % (time.time() - t))
    aborted = os.path.exists(exes["abort"])
    if aborted:
        os.unlink(exes["abort"])
        ctx.log("the C code hung repeatedly: remaining jobs were skipped")
    exes["abort"] = None
    nbad = report(ctx, exes, pres + results)
    ctx.cov["traces_validated_against_impl"] = sum(v for k, v in ctx.cov["correspondence"].items() if "= model" in k)
    ctx.log("failures: %d; correspondence: %s" % (nbad, json.dumps(ctx.cov["correspondence"], indent=0)))


def replay(ctx, obj):
    rep = obj.get("replay", obj)
    if rep.get("kind") == "obligation" or "cases" not in rep:
        run(ctx)
        return ctx.finish()
    exes = build_all(ctx)
    exes["tall"] = exes["n0"] = True
    res = evaluate(exes, [json.loads(json.dumps(c)) for c in rep["cases"]])
    for f in res["fail"]:
        f["case"] = strip(f["case"])
    want = json.dumps(rep.get("key", {}), sort_keys=True)
    n = 0
    for f in res["fail"]:
        if f["found"] or json.dumps(f["key"], sort_keys=True) == want:
            n += 1
            ctx.violation(f["what"][:600], {"cases": [f["case"]], "key": f["key"], "what": f["what"]}, key=f["key"], found_input=f["found"])
    if n == 0:
        ctx.log("replay: the stored case no longer fails")
    return 1 if ctx.violations else 0
