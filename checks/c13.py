"""C13 -- refinement returns truthful backward errors and dominating forward bounds.

1. theorems of coq/Properties_C13.v (RefineModel.v / RefineProofs.v) re-checked;
2. K-exact, bit for bit, binary64: every dgsrfs call (the one made by pdgssvx and one made directly on a
   perturbed start vector, so that up to ITMAX correction steps are taken) is replayed by the PrimFloat
   instance of `gsrfs_cols` on the same A (equilibrated), B, X0, R, C, equed, trans; the outputs of the real
   dgstrs calls (recorded through ld --wrap) are fed back and the model's own requests (trans, right-hand
   side) are compared with the recorded inputs: residuals, number of steps, the dlacon_ sequence, final X,
   berr, ferr;
3. K-pred, exact rationals: berr against the true componentwise backward error of the returned X for the
   requested op(A) on the equilibrated system; berr <= slack*(n+1)*eps when cond < 1/sqrt(eps); ferr*slack >=
   true error against the exact solution when cond < 0.1/eps; slack = THRESH = 40 of TESTING/pddrive.c.
"""
import os, sys, json, math, time
from fractions import Fraction as Fr
sys.path.insert(0, os.path.join(os.path.dirname(os.path.abspath(__file__)), "..", "tools"))
import vf
import lacon_lib as ll
from checks import c12

MANIFEST = {
    "text": "Coq: dgsrfs as a fuelled loop over an abstract arithmetic with an abstract solve; theorems: at most ITMAX "
            "corrections / ITMAX+1 residuals and the loop continues only while berr halves (any arithmetic); exact "
            "arithmetic: the berr formula is the maximum of |r_i|/(|op(A)||x|+|b|)_i with the safe1 guard stated, it is an "
            "attained and (without guards) minimal Oettli-Prager perturbation size, both orientations of the sparse loops; "
            "|x - x*| <= |inv(op A)| W componentwise for the weights the code builds; the dlacon_ value never exceeds that "
            "exact norm (ferr_estimator_partial: domination itself is not a theorem). Tie: bit-exact PrimFloat replay of real "
            "dgsrfs runs + exact-rational oracle.",
    "note": "FERR x slack dominating the true error is decided by the oracle only (Hager's estimator has no guaranteed ratio). DOFACT calls are also entered with equed/R/C left by an unrelated equilibrated call (outputs of the call): the returned flag must be NOEQUIL.",
    "technique": "Coq model + vm_compute (PrimFloat) correspondence + exact rational certificate",
}
SLACK = 40.0            # TESTING/pddrive.c: #define THRESH 40.0


# ---------------------------------------------------------------------------------- helpers
def gsrfs_calls(r):
    """split the event list into dgsrfs calls: dicts with trans, equed, nrhs, X0, B, X1, ferr, berr, info, solves, direct"""
    calls, cur, direct = [], None, False
    for e in r["ev"]:
        if e[0] == "direct_rfs":
            direct = True
        elif e[0] == "gsrfs_in":
            cur = {"trans": e[1], "equed": e[2], "nrhs": e[3], "solves": [], "direct": direct}
        elif cur is not None:
            if e[0] == "gsrfs_X0":
                cur["X0"] = e[1]
            elif e[0] == "gsrfs_B":
                cur["B"] = e[1]
            elif e[0] == "gstrs_in" and e[2] == 1:
                cur["solves"].append([e[1], e[3], None])
            elif e[0] == "gstrs_out" and cur["solves"] and cur["solves"][-1][2] is None:
                cur["solves"][-1][2] = e[2]
                cur["solves"][-1].append(e[1])        # info left by the real dgstrs
            elif e[0] == "gsrfs_out":
                cur["info"] = e[1]
            elif e[0] == "gsrfs_X1":
                cur["X1"] = e[1]
            elif e[0] == "gsrfs_ferr":
                cur["ferr"] = e[1]
            elif e[0] == "gsrfs_berr":
                cur["berr"] = e[1]
                calls.append(cur); cur = None
    return calls


def ferr_estimator_steps(c, r, p):
    """inside ?gsrfs the forward-error estimate multiplies the estimator's request x by  diag(W) inv(op(A))^H diag(S)  (KASE = 1) or by
    diag(S) inv(op(A)) diag(W)  (KASE = 2), S = C for (NOTRANS, column scaling), R for (transposed, row scaling), else 1, W >= 0 the
    componentwise weights.  Logged per step: request, the vector handed to ?gstrs, what ?gstrs returned, the reply.  Checked, all
    precisions: KASE = 1: solver input = S .* request;  KASE = 2: reply = S .* solver output, solver input = W .* request with the SAME
    real non-negative W that KASE = 1 steps of this right-hand side used (reply = W .* solver output)."""
    cx = ll.is_cx(p); u = float(ll.U_ROUND[p]); n = c["n"]
    vec = (lambda fl: [complex(fl[2 * i], fl[2 * i + 1]) for i in range(len(fl) // 2)]) if cx else (lambda fl: list(fl))
    fails, nchk = [], 0
    cur = None; req = None; sin = None; sout = None; W = {}
    tol = 16 * u
    eta = 8 * (2.0 ** -126 if p in "sc" else 2.0 ** -1022)         # results in the subnormal range carry an absolute error
    def close(a, b):
        return abs(a - b) <= tol * max(abs(a), abs(b)) + eta or (a != a and b != b)
    for e in r["ev"]:
        if e[0] == "gsrfs_in":
            cur = {"trans": e[1], "equed": e[2]}; W = {}
        elif cur is None:
            continue
        elif e[0] == "gsrfs_out":
            cur = None
        elif e[0] == "fe_out":
            req = (e[1], vec(e[2])) if e[1] != 0 else None; sin = sout = None
            if e[1] == 0: W = {}
        elif e[0] == "fs_in" and req is not None:
            sin = vec(e[2])
        elif e[0] == "fs_out" and req is not None:
            sout = vec(e[2])
        elif e[0] == "fe_in" and req is not None and sin is not None and sout is not None:
            kase, x = req; y = vec(e[2]); req = None
            if not (len(x) == len(y) == len(sin) == len(sout) == n):
                continue
            notran = cur["trans"] == 0
            colequ = cur["equed"] in (2, 3); rowequ = cur["equed"] in (1, 3)
            S = r.get("C") if (notran and colequ) else (r.get("R") if ((not notran) and rowequ) else None)
            S = S if (S and len(S) >= n) else [1.0] * n
            nchk += 1
            bad = None
            if kase == 1:
                for i in range(n):
                    if not close(sin[i], x[i] * S[i]):
                        bad = "KASE = 1: the vector handed to ?gstrs is not diag(%s) times the request (entry %d: %r vs %r)" % ("C" if notran else "R", i, sin[i], x[i] * S[i]); break
                    if abs(sout[i]) > 1e6 * eta and abs(y[i]) > 1e6 * eta:
                        w = y[i] / sout[i]
                        w = w.real if cx else w
                        if i in W and not close(W[i], w) and abs(W[i] - w) > tol:
                            bad = "KASE = 1: weight of entry %d differs from the one used before (%r vs %r)" % (i, w, W[i]); break
                        W.setdefault(i, w)
            else:
                for i in range(n):
                    if not close(y[i], sout[i] * S[i]):
                        bad = "KASE = 2: the reply is not diag(%s) times what ?gstrs returned (entry %d: %r vs %r)" % ("C" if (notran and colequ) else ("R" if ((not notran) and rowequ) else "1"), i, y[i], sout[i] * S[i]); break
                    if i in W and abs(x[i]) > 1e6 * eta and abs(sin[i]) > 1e6 * eta and not close(sin[i], x[i] * W[i]) and abs(sin[i] - x[i] * W[i]) > 4 * tol * abs(sin[i]):
                        bad = "KASE = 2: the vector handed to ?gstrs is not diag(W) times the request (entry %d: %r vs %r, W from the KASE = 1 step)" % (i, sin[i], x[i] * W[i]); break
            if bad:
                fails.append(("ferr-estimator-step", "forward-error estimate inside ?gsrfs (trans %d, equed %d): %s" % (cur["trans"], cur["equed"], bad)))
                break
    return fails, nchk


def colsplit(v, n, nrhs, nv=1):
    return [v[k * n * nv:(k + 1) * n * nv] for k in range(nrhs)]


# ---------------------------------------------------------------------------------- oracle
def aval_of(r, call):
    """the matrix values ?gsrfs saw: the direct call may use values perturbed after the factorization"""
    return r["Aval2"] if (call["direct"] and "Aval2" in r) else r["Aval"]


def driver_oracle(c, r, p):
    """the USER's view: the berr the expert driver reports must be the componentwise backward error of the X it RETURNS for the
    system it was GIVEN (original A, B, trans, storage).  The componentwise backward error is invariant under the row and
    column scalings of equilibration, so the reported value has to cover it up to rounding of the scaling itself."""
    from fractions import Fraction as Fr
    n, cx = c["n"], ll.is_cx(p)
    nv = 2 if cx else 1
    if r.get("info") not in (0, n + 1) or "X" not in r or "berr" not in r:
        return []
    eps = r["mach"][0]
    A0 = ll.dense_from_cols(n, c["ptr"], c["ind"], ll.to_entries(c["val"], p), 0)
    M = A0 if c["stype"] == 0 else ll.transpose(A0)             # the user's matrix (row-wise storage: the lists are rows)
    if c["trans"] == 1 or (c["trans"] == 2 and not cx):
        M = ll.transpose(M)
    elif c["trans"] == 2:
        M = [[x.conjugate() for x in row] for row in ll.transpose(M)]
    Mx = ll.exact_matrix(M, cx)
    zero = (Fr(0), Fr(0)) if cx else Fr(0)

    def cmul(a, b):
        return (a[0] * b[0] - a[1] * b[1], a[0] * b[1] + a[1] * b[0]) if cx else a * b

    def abs1(a):
        return abs(a[0]) + abs(a[1]) if cx else abs(a)
    fails = []
    Bs = colsplit(c["b"], n, c["nrhs"], nv); Xs = colsplit(r["X"], n, c["nrhs"], nv)
    for k in range(c["nrhs"]):
        if any(v != v or v in (float("inf"), float("-inf")) for v in Xs[k]):
            fails.append(("berr-untruthful", "rhs %d: the returned X has non-finite entries" % k)); continue
        b = ll.exact_matrix([ll.to_entries(Bs[k], p)], cx)[0]; x = ll.exact_matrix([ll.to_entries(Xs[k], p)], cx)[0]
        omega = Fr(0)
        for i in range(n):
            ax = zero; den = abs1(b[i])
            for j in range(n):
                if Mx[i][j] != zero:
                    t = cmul(Mx[i][j], x[j]); ax = (ax[0] + t[0], ax[1] + t[1]) if cx else ax + t
                    den += abs1(Mx[i][j]) * abs1(x[j])
            res = abs1((b[i][0] - ax[0], b[i][1] - ax[1])) if cx else abs(b[i] - ax)
            if den == 0:
                if res != 0: omega = Fr(1)
                continue
            omega = max(omega, res / den)
        berr = r["berr"][k]
        tol = SLACK * (float(berr) + (n + 3) * eps * (4 if cx else 1))
        if float(omega) > tol:
            fails.append(("berr-untruthful", "rhs %d: the driver reports berr = %.6e, the X it returned has componentwise backward error %.6e "
                          "for the system it was given (equed %s)" % (k, berr, float(omega), r.get("equed"))))
    return fails


def oracle(c, r, p, call):
    fails, st = [], {}
    n, cx = c["n"], ll.is_cx(p)
    u = ll.U_ROUND[p]
    eps, safmin = r["mach"]
    nv = 2 if cx else 1
    if call.get("info", 0) != 0 or "X1" not in call or "B" not in call:
        return [("gsrfs-info", "?gsrfs info = %s" % call.get("info"))], st
    vals = ll.to_entries(aval_of(r, call), p)
    mismatched = call["direct"] and "Aval2" in r      # factors belong to another matrix: only truthfulness is claimed
    AAd = ll.dense_from_cols(n, c["ptr"], c["ind"], vals, 0)
    # the system the PROPERTY talks about: for the driver's call the transpose sense requested by the user
    # (reversed for row-wise storage, where the factored matrix is the transpose) on the equilibrated matrix
    trans = call["trans"]
    if not call["direct"]:
        exp_trans = c["trans"] if c["stype"] == 0 else (1 if c["trans"] == 0 else 0)
        if call["trans"] != exp_trans or call["equed"] != r.get("equed"):
            fails.append(("refine-wrong-system", "?gsrfs called with trans=%s equed=%d, the request needs trans=%s equed=%s"
                          % (c12.TRANS_NAME[call["trans"]], call["equed"], c12.TRANS_NAME[exp_trans], r.get("equed"))))
        trans = exp_trans
    # op(A) as a dense exact matrix (CONJ = conjugate transpose for complex, transpose for real).  For the driver's
    # call it is built from the USER's matrix and the USER's trans (row-wise storage: the stored lists are rows).
    def apply_op(M, t):
        if t == 0:
            return M
        if t == 1 or not cx:
            return ll.transpose(M)
        return [[x.conjugate() for x in row] for row in ll.transpose(M)]
    if call["direct"]:
        opd = apply_op(AAd, trans)
    else:
        opd = apply_op(AAd if c["stype"] == 0 else ll.transpose(AAd), c["trans"])
    opx = ll.exact_matrix(opd, cx)
    inv = ll.exact_inverse(opx, cx)
    if inv is None:
        st["exactly_singular"] = True
        return fails, st
    nlo, nhi = ll.norm_iv(opx, "inf")
    ilo, ihi = ll.norm_iv(inv, "inf")
    cond = float(nhi * ihi)
    st["cond"] = cond
    equed = r.get("equed", call["equed"]) if not call["direct"] else call["equed"]
    notran = trans == 0
    rowequ, colequ = equed in (1, 3), equed in (2, 3)
    sc = r["C"] if (notran and colequ) else (r["R"] if (not notran and rowequ) else None)

    def cmul(a, b):
        return (a[0] * b[0] - a[1] * b[1], a[0] * b[1] + a[1] * b[0]) if cx else a * b

    def csub(a, b):
        return (a[0] - b[0], a[1] - b[1]) if cx else a - b

    def cadd(a, b):
        return (a[0] + b[0], a[1] + b[1]) if cx else a + b

    def abs1(a):          # the modulus the library uses in ?gsrfs: |re| + |im| for complex
        return abs(a[0]) + abs(a[1]) if cx else abs(a)

    zero = (Fr(0), Fr(0)) if cx else Fr(0)
    Bs = colsplit(call["B"], n, call["nrhs"], nv)
    Xs = colsplit(call["X1"], n, call["nrhs"], nv)
    g = ll.gamma(n + 3, u * (4 if cx else 1))
    for k in range(call["nrhs"]):
        b = ll.exact_matrix([ll.to_entries(Bs[k], p)], cx)[0]
        x = ll.exact_matrix([ll.to_entries(Xs[k], p)], cx)[0]
        if any(v != v for v in Xs[k]):
            fails.append(("x-nan", "X has NaN entries")); continue
        berr, ferr = call["berr"][k], call["ferr"][k]
        # ---- true componentwise backward error of the returned x for op(A) x = b
        omega = Fr(0); bad_row = False
        for i in range(n):
            ax = zero; den = abs1(b[i])
            row = opx[i]
            for j in range(n):
                if (row[j] != zero):
                    ax = cadd(ax, cmul(row[j], x[j])); den += abs1(row[j]) * abs1(x[j])
            res = abs1(csub(b[i], ax))
            if den == 0:
                if res != 0:
                    bad_row = True
                continue
            omega = max(omega, res / den)
        om = float(omega)
        st.setdefault("omega", []).append(om)
        if berr != berr or berr < 0 or bad_row:
            fails.append(("berr-nan", "berr = %r" % berr)); continue
        if not (om * (1 - g) - g <= berr <= om * (1 + g) + g):
            fails.append(("berr-untruthful", "rhs %d: berr = %.6e, true componentwise backward error of the returned X = %.6e "
                          "(op = %s, equed %d, tolerance %.2e)" % (k, berr, om, c12.TRANS_NAME[trans], equed, g)))
        # ---- berr is O((n+1) eps) when the matrix is not ill conditioned to working precision
        if cond < 1.0 / math.sqrt(u) and not mismatched:
            st["tight_checked"] = st.get("tight_checked", 0) + 1
            if berr > SLACK * (n + 1) * eps:
                fails.append(("berr-large", "rhs %d: berr = %.3e > %g*(n+1)*eps = %.3e with cond_inf = %.3e < 1/sqrt(eps)"
                              % (k, berr, SLACK, SLACK * (n + 1) * eps, cond)))
        # ---- forward bound against the exact solution of the (equilibrated) system, in the scaling of the user's X
        if cond < 0.1 / u and not mismatched:
            xs = [zero] * n
            for i in range(n):
                acc = zero
                for j in range(n):
                    if b[j] != zero:
                        acc = cadd(acc, cmul(inv[i][j], b[j]))
                xs[i] = acc
            w = [Fr(v) for v in sc] if sc is not None else [Fr(1)] * n
            errhi = max(w[i] * ll.abs_iv(csub(x[i], xs[i]))[1] for i in range(n))
            xnlo = max(w[i] * ll.abs_iv(x[i])[0] for i in range(n))
            st["ferr_checked"] = st.get("ferr_checked", 0) + 1
            if xnlo > 0:
                rel = float(errhi / xnlo)
                st.setdefault("ferr_ratio", []).append(rel / ferr if ferr > 0 else (0.0 if rel == 0 else math.inf))
                if ferr != ferr or rel > SLACK * ferr * (1 + 1e-9):
                    fails.append(("ferr-not-dominating", "rhs %d: true relative error %.6e > %g * ferr = %.6e (cond_inf %.3e, op = %s, equed %d)"
                                  % (k, rel, SLACK, SLACK * ferr, cond, c12.TRANS_NAME[trans], equed)))
    return fails, st


# ---------------------------------------------------------------------------------- K-exact (d)
def coq_expr(c, r, call):
    n = c["n"]
    cols = "csc_cols %d %s %s %s" % (n, ll.coqzl(c["ptr"]), ll.coqzl(c["ind"]), ll.coql(aval_of(r, call)))
    tape = [s[2] for s in call["solves"] if s[2] is not None]
    bs = colsplit(call["B"], n, call["nrhs"])
    xs = colsplit(call["X0"], n, call["nrhs"])
    lst = lambda vs: "[" + "; ".join(ll.coql(v) for v in vs) + "]"
    return "gsrfs_replay FArith %d %d %s %s %d (%s) %s %s %s %s %s" % (
        call["trans"], call["equed"], ll.coql(r["R"]), ll.coql(r["C"]), n, cols,
        ll.coqf(r["mach"][0]), ll.coqf(r["mach"][1]), lst(tape), lst(bs), lst(xs))


def compare(c, r, call, val):
    outs, asked, rest, infos = val
    dis = []
    real_infos = [s[3] if len(s) > 3 else None for s in call["solves"]]
    k = min(len(infos), len(real_infos))
    if list(infos)[:k] != real_infos[:k]:
        dis.append("dgstrs info codes: model %s real %s" % (list(infos), real_infos))
    n = c["n"]
    if len(outs) != call["nrhs"]:
        return ["model handles %d right-hand sides, real %d" % (len(outs), call["nrhs"])]
    if rest != 0 or len(asked) != len(call["solves"]):
        dis.append("model makes %d dgstrs calls, real %d" % (len(asked) + 0, len(call["solves"])))
    else:
        for i, (a, s) in enumerate(zip(asked, call["solves"])):
            if a[0] != s[0] or not ll.same_vec(list(a[1]), s[1]):
                dis.append("dgstrs call #%d: model (trans %s) real (trans %s)%s" % (
                    i, a[0], s[0], "" if a[0] != s[0] else ", right-hand sides differ"))
                break
    X1 = colsplit(call["X1"], n, call["nrhs"])
    for k, o in enumerate(outs):
        x, be, fe, cnt, berrs, raw, napp, ok = o
        if not ok:
            dis.append("rhs %d: model ran out of fuel" % k)
        if not ll.same_vec(list(x), X1[k]):
            dis.append("rhs %d: X differs" % k)
        if not ll.same(be, call["berr"][k]):
            dis.append("rhs %d: berr model %r real %r (model iterates %s)" % (k, be, call["berr"][k], list(berrs)))
        if not ll.same(fe, call["ferr"][k]):
            dis.append("rhs %d: ferr model %r real %r" % (k, fe, call["ferr"][k]))
    return dis


# ---------------------------------------------------------------------------------- run
def gen_cases(ctx, p, count):
    rng = ctx.rng
    single = p in "sc"
    kinds = ["graded"] * 5 + ["illcond"] * 3 + ["sparse"] * 4 + ["scaled"] * 4 + ["tri", "diag"]
    order = list(kinds); rng.shuffle(order)
    combos = [(s, t) for s in (0, 1) for t in (0, 1, 2)]
    cases = []
    for k in range(count):
        kind = order[k % len(order)]
        big = (not ctx.quick()) and rng.random() < 0.2
        n = rng.choice([1, 2, 3, 4, 5, 7, 8, 10, 12, 13, 16] if not big else [24, 30, 40])
        if ll.is_cx(p) and n > 16:
            n = 16
        stype, trans = combos[k % 6]
        fact = rng.choice([0, 1, 1])
        if k < 6:
            # every precision sees an equilibrated system in both storage orientations and all three transposes
            kind = "scaled"; fact = 1
        u = rng.choice([1.0, 1.0, 0.5, 0.1, rng.uniform(0.1, 1.0)])
        nprocs = 1 if k % 4 != 3 else rng.choice([2, 4])
        nrhs = rng.choice([1, 1, 2, 3])
        gk = "nearsing" if kind == "illcond" else kind     # cond ~ 1/eps: slow convergence, several correction steps
        if kind == "illcond" and n < 3:
            n = 5
        c = c12.make_case(rng, "%s%d" % (p, k), p, gk, n, stype, trans, fact, u, nprocs, rng.choice([0, 1, 2, 3]), nrhs)
        c["kind"] = kind
        # relative perturbation of the start vector of the direct ?gsrfs call: from rounding level to 10%
        mag = 10.0 ** rng.uniform(-3 if single else -9, -1)
        c["xpert"] = [mag * rng.uniform(-1, 1) for _ in range(n * nrhs)]
        if nrhs >= 2 and rng.random() < 0.4:
            # a right-hand side that is zero (or tiny) BEFORE one that needs refinement: the per-column state of the
            # refinement loop (count, lstres) must not leak from one column into the next
            nv = 2 if ll.is_cx(p) else 1
            j0 = rng.randrange(nrhs - 1)
            sc = rng.choice([0.0, 0.0, 1e-30 if not single else 1e-20])
            for i in range(n * nv):
                v = c["b"][(j0 * n) * nv + i] * sc
                c["b"][(j0 * n) * nv + i] = ll.to_single(v) if single else v
            c["kind"] = kind + "+zerocol"
        if nrhs >= 2 and k % 2 == 1:
            # B and X with different leading dimensions (both larger than n): every column of X must be refined against ITS
            # right-hand side, and nothing outside the n leading rows may be touched
            c["ldb"] = n + rng.choice([1, 2, 5]); c["ldx"] = n + rng.choice([3, 4, 7])
        if k % 3 == 0:
            # direct call with a matrix that differs from the factored one by up to 5..45 % per entry:
            # linear convergence, 2..ITMAX correction steps, the halving test and the iteration cap are exercised
            am = rng.choice([0.003, 0.01, 0.03, 0.06, 0.1, 0.15, 0.25, 0.35, 0.45])
            c["apert"] = [am * rng.uniform(-1, 1) for _ in range(len(c["ind"]))]
        if c["fact"] == 0 and k % 2 == 0:
            # fact = DOFACT with the caller's equed / R / C variables still holding the outcome of an earlier, unrelated call that
            # equilibrated: they are outputs of this call; the system refined must be the (unscaled) one that was factored
            c["stale"] = rng.choice([1, 2, 3])
        cases.append(c)
    return cases


def eval_batch(ctx, p, exe, cases, tag, ienv=None):
    env = {"VERIF_IENV": ienv} if ienv else None
    rc, res, se = ll.run_harness(ctx, exe, cases, tag, env=env, timeout=900)
    byid = {r["id"]: r for r in res}
    if rc != 0:
        bad = next((c for c in cases if not byid.get(c["id"], {}).get("complete")), None)
        ctx.violation("harness/p%sgssvx crashed (rc=%d) on case %s: %s" % (p, rc, bad and bad["id"], se[-300:]),
                      {"kind": "ssvx", "prec": p, "case": bad, "ienv": ienv},
                      key={"class": "crash", "arith": "complex" if ll.is_cx(p) else "real"}, found_input=bad is not None)
    work, exprs = [], []
    for c in cases:
        r = byid.get(c["id"])
        if not r or not r.get("complete"):
            continue
        if r.get("padbad"):
            ctx.violation("p%sgssvx wrote %d values outside the n leading rows of B or X (ldb = %s, ldx = %s)" % (p, r["padbad"], c.get("ldb"), c.get("ldx")),
                          {"kind": "ssvx", "prec": p, "case": c, "ienv": ienv}, key={"class": "padding", "prec": p})
        if c.get("stale") and c["fact"] == 0 and r.get("equed") not in (0, None):
            ctx.violation("p%sgssvx(fact=DOFACT) returned equed = %s although it did not equilibrate: the caller's old value (%d, with R and C "
                          "of another matrix) survived and is handed to ?gsrfs and to a later FACTORED call" % (p, r.get("equed"), c["stale"]),
                          {"kind": "ssvx", "prec": p, "case": c, "ienv": ienv}, key={"class": "stale-equed", "prec": p})
        real_conj = False      # since the fix of F3 (s/dgstrs accept CONJ) real CONJ is checked like TRANS, NC and NR
        calls = gsrfs_calls(r)
        for ci, call in enumerate(calls):
            if "X1" not in call or "B" not in call or "X0" not in call:
                continue
            work.append((c, r, ci, call, real_conj))
            if p == "d":
                exprs.append(coq_expr(c, r, call))
    vals = ll.coq_batch(ctx, "rfs_" + tag, ["Consts", "LaconModel", "RefineModel"], exprs) if exprs else []
    vi = 0
    for c, r, ci, call, real_conj in work:
        steps = len([s for s in call["solves"]])
        kind = "%s-%s%s" % (p, c["kind"], "-direct" if call["direct"] else "")
        nontriv = c["n"] > 1
        ctx.count(("rfs", p, c["id"], ci, c["kind"], c["n"], c["stype"], c["trans"], c["fact"], c["nrhs"]), nontrivial=nontriv, kind=kind)
        h = ctx.cov["histogram"]
        h["op-%s/equed%d" % (c12.TRANS_NAME[call["trans"]], call["equed"])] = h.get("op-%s/equed%d" % (c12.TRANS_NAME[call["trans"]], call["equed"]), 0) + 1
        fails, st = ([], {})
        if real_conj:
            # dgstrs rejects CONJ (finding F3 of C07): X is not a solution; only the bit-exact replay is meaningful
            ctx.corr("real CONJ calls (oracle skipped: finding F3 / C07)")
        else:
            fails, st = oracle(c, r, p, call)
            if ci == 0:
                f2, nst = ferr_estimator_steps(c, r, p)
                fails = fails + f2
                if nst:
                    ctx.corr("forward-error estimator steps inside ?gsrfs checked (%s)" % p, nst)
            if not call["direct"] and not fails and c.get("mode", "ssvx") == "ssvx":
                dfl = driver_oracle(c, r, p)
                if dfl:
                    fails = dfl
                else:
                    ctx.corr("oracle: driver-level berr covers the backward error of the returned X for the user's system")
        if st.get("tight_checked"):
            ctx.corr("oracle: berr <= 40 (n+1) eps checked (cond < 1/sqrt(eps))", st["tight_checked"])
        if st.get("ferr_checked"):
            ctx.corr("oracle: 40*ferr >= true error checked (cond < 0.1/eps)", st["ferr_checked"])
        if st.get("omega"):
            ctx.corr("oracle: berr truthful (exact rationals)", len(st["omega"]))
        ctx.sample({"case": c["id"], "prec": p, "kind": c["kind"], "n": c["n"], "op": c12.TRANS_NAME[call["trans"]],
                    "equed": call["equed"], "direct": call["direct"], "berr": call.get("berr"), "ferr": call.get("ferr"),
                    "true_backward_error": st.get("omega"), "true_err/ferr": st.get("ferr_ratio"), "cond_inf": st.get("cond")})
        for slug, msg in fails:
            ctx.violation("%s [%s %s n=%d %s/%s fact=%d nrhs=%d%s]: %s" % (
                slug, p, c["kind"], c["n"], "NC" if c["stype"] == 0 else "NR", c12.TRANS_NAME[c["trans"]], c["fact"], c["nrhs"],
                " direct ?gsrfs" if call["direct"] else "", msg),
                {"kind": "ssvx", "prec": p, "case": c, "ienv": ienv, "failure": slug},
                key={"class": slug, "arith": "complex" if ll.is_cx(p) else "real",
                     "op": (c12.TRANS_NAME[c["trans"]] if not call["direct"] else c12.TRANS_NAME[call["trans"]]) if ll.is_cx(p) else "any",
                     "storage": "NC" if c["stype"] == 0 else "NR"})
        if p == "d":
            dis = compare(c, r, call, vals[vi]); vi += 1
            nsol = len(call["solves"])
            if not dis:
                ctx.corr("dgsrfs replay bit-exact (X, berr, ferr, every dgstrs request)")
                ctx.corr("  refinement steps + estimator solves replayed", nsol)
                ctx.cov["traces_validated_against_impl"] += 1
                cnts = [o[3] for o in vals[vi - 1][0]]
                for cn in cnts:
                    h["refine-steps-%d" % cn] = h.get("refine-steps-%d" % cn, 0) + 1
            elif not fails:
                ctx.broken.append("correspondence dgsrfs (%s call %d): %s" % (c["id"], ci, "; ".join(dis)[:400]))
                ctx.sample({"mismatch": c["id"], "what": dis[:3]})
            else:
                ctx.log("  model/implementation disagreement on failing case %s: %s" % (c["id"], dis[:2]))
    return len(work)


def run(ctx):
    ctx.cov["rule"] = ("expert-driver cases as in C12 (graded singular values, sparse, badly scaled so that ROW/COL/BOTH equilibration "
                       "fires, triangular, diagonal), n in 1..16 (quick) / ..40, NC/NR x NOTRANS/TRANS/CONJ, DOFACT/EQUILIBRATE, "
                       "u in [0.1,1], 1-3 right-hand sides, 1-4 threads; every case gives two ?gsrfs calls: the driver's and a direct "
                       "one started from the ?gstrs solution perturbed by 1e-9..1e-1 relative (1..ITMAX correction steps). "
                       "Oracle: exact rational residual/denominators of the returned X (|.| = |re|+|im| for complex, as the library), "
                       "tolerance gamma(n+3); exact solution by exact inverse; slack 40 (TESTING/pddrive.c THRESH); reference system = "
                       "the equilibrated one, error measured in the user's scaling (weights C or R as dgsrfs normalises).")
    ctx.cov["trusted_base"] += [
        "GNU ld --wrap (call logging of dgsrfs/dgstrs/dlacon_ without editing /repo)",
        "Coq primitive floats = IEEE binary64 = gcc -O2 -ffp-contract=off SSE2 doubles",
        "python Fractions (exact residuals, inverse, solution)",
    ]
    ctx.cov["partial"] += [
        "ferr_estimator_partial: 'FERR x slack dominates the true error' is decided by the oracle only (no guaranteed ratio for Hager's estimator)",
        "berr_small: 'berr = O((n+1)eps) for cond < 1/sqrt(eps)' (Skeel) is not proved; oracle only",
        "dgstrs is abstract in the model (recorded outputs replayed); s/c/z: oracle only",
        "row-wise storage with complex CONJ is solved as A**T X = B by p{c,z}gssvx (known finding F21)",
    ]
    ctx.coq_properties()
    lib, fl = ctx.build_lib("hooks")
    exes = {p: ll.build_harness(ctx, lib, fl, p) for p in "dszc"}
    q = ctx.quick()
    cdir = os.path.join(vf.VERIF, "corpus", "C13")
    if os.path.isdir(cdir):
        for f in sorted(os.listdir(cdir)):
            if f.endswith(".json"):
                replay(ctx, json.load(open(os.path.join(cdir, f))), quiet=True)
    small_ienv = "3,2,4,200,100,-50,-50,-30"
    plan = [("d", 60 if q else 400, None), ("d", 30 if q else 200, small_ienv),
            ("z", 16 if q else 100, None), ("s", 24 if q else 160, None), ("c", 12 if q else 80, small_ienv)]
    for i, (p, cnt, ienv) in enumerate(plan):
        cases = gen_cases(ctx, p, cnt)
        for c in cases:
            c["id"] = "%s_%d" % (c["id"], i)
        t = time.time()
        k = eval_batch(ctx, p, exes[p], cases, "%s%d" % (p, i), ienv)
        ctx.log("precision %s ienv=%s: %d ?gsrfs calls in %.1fs" % (p, ienv, k, time.time() - t))
    if ctx.broken and any(v["found"] for v in ctx.violations):
        ctx.violation("proof obligation or correspondence no longer checks: %s" % "; ".join(ctx.broken)[:1500],
                      {"kind": "obligation", "broken": ctx.broken}, key={"class": "broken-obligation"}, found_input=False)


def replay(ctx, obj, quiet=False):
    rp = obj.get("replay", obj)
    lib, fl = ctx.build_lib("hooks")
    if rp.get("kind") == "ssvx" and rp.get("case"):
        p = rp["prec"]
        exe = ll.build_harness(ctx, lib, fl, p)
        before = len(ctx.violations) + len(ctx.broken)
        eval_batch(ctx, p, exe, [rp["case"]], "replay", rp.get("ienv"))
        bad = len(ctx.violations) + len(ctx.broken) > before
        if bad and not ctx.violations:
            ctx.violation("replayed case still disagrees: %s" % "; ".join(ctx.broken)[:300], rp, found_input=True)
        return 1 if bad else 0
    if rp.get("kind") == "obligation":
        ok = ctx.coq_properties()
        if not ok:
            ctx.violation("proof obligation still broken: %s" % "; ".join(ctx.broken)[:300], rp, found_input=False)
        return 0 if ok else 1
    return 0
