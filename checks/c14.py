"""C14 - workspace modes and allocation failure are handled without corruption.

1. theorems of coq/Properties_C14.v (UstackModel.v / UstackProofs.v)
2. K-exact correspondence, function level: the real p?gstrf_SetupSpace / ?user_malloc / ?user_free /
   p?gstrf_MemInit / p?gstrf_WorkInit / p?gstrf_WorkFree / superlu_?TempSpace / p?gstrf_memory_use of the
   current tree against the extracted model (offsets relative to the buffer base, return codes, exit / crash / hang
   class under the failing allocator), four precisions, lwork aimed at every boundary of the model's case split;
   on every block set the implementation hands out the property's own oracle (extracted blocks_okb, proved sound
   and complete) is evaluated.
3. driver level: p?gssvx / p?gstrf with a guarded user buffer (canaries, asan flavour), prediction of the
   return code by the model from the inputs of MemInit (computed with the library's own sp_colorder /
   pxgstrf_relax_snode / ?PresetMap), comparison with the internally allocated mode.
4. fault enumeration (supporting evidence, not a proof): fail request k and all later ones during p?gssv /
   p?gssvx / p?gstrf, k = 1..K, outcome classes, crashing sites keyed by allocation site.
"""
import os, sys, re, json, glob, time, threading
from concurrent.futures import ThreadPoolExecutor
import vf
sys.path.insert(0, os.path.join(vf.VERIF, "tools"))
import ustack_sites

MANIFEST = {
    "text": "Coq theorems about an executable model of p?memory.c (two-ended user stack, MemInit with its retry loop, "
            "WorkInit/WorkFree, float-rounded return codes, info plumbing of p?gstrf/p?gssvx): query has no side effect, "
            "allocator safety under stack discipline, termination bound, failure code > n, sufficient buffer => all 13 arrays "
            "inside, disjoint, aligned; P threads on the user stack, EVERY interleaving of their locked sections over the whole run "
            "(WorkInit, work, WorkFree), any buffer alignment and element size: blocks of different threads never overlap, stay in "
            "the tail region and are double-word aligned, the alignment fix-up of WorkInit is unreachable (after the repairs "
            "d0e97e1 and 8832b60; the earlier _refuted witnesses of these two defects are replaced by these theorems); plus the "
            "remaining _refuted theorems (vm_compute witnesses) where the faithful model of the current code violates the "
            "property text. Tied to /repo by a K-exact correspondence executed on every run.",
    "note": "?user_malloc / ?user_free (two-ended user stack, alignment of tail blocks, capacity tests, critical section checked per path) are RE-TRANSLATED from p?memory.c on every run (coq/UstackGen.v) and proved equal to the model (UstackTie.v, no hypotheses; c14_source_ustack_is_model, c14_source_block_inside_buffer, c14_source_tail_block_aligned). partial: the factorization itself is not modelled here (capacities only); system-allocator failure at an "
            "arbitrary site is enumerated (fault flavour), not proved; int_t overflow / float->int conversion beyond 2^31 "
            "not modelled; thread interleavings inside WorkInit are modelled (run_sched) but only observed at call granularity.",
    "technique": "Coq theorems about a Gallina model whose allocator core is proved equal to a translation of the C source regenerated on every run + executed model-vs-C correspondence (K-exact) + "
                 "extracted, proved block oracle on the implementation's offsets + fault enumeration",
    "design_ref": "DESIGN.md section 5 / C14",
}

DW = {0: 4, 1: 8, 2: 8, 3: 16}
PCH = "sdcz"
FAULT_EXTRA = ["-Dmalloc=ledger_plain_malloc", "-Dfree=ledger_plain_free"]
ENV_DEFAULT = [0, 20, 6, 200, 200, 100, -50, -50, -30]
RUN_ENV = dict(os.environ, ASAN_OPTIONS="detect_leaks=0:exitcode=99:abort_on_error=0:allocator_may_return_null=1",
               UBSAN_OPTIONS="print_stacktrace=0")


def make_threadsafe(ctx):
    """ctx.violation / count / ... are not re-entrant (replay file names, VIOLATION lines): serialise them"""
    if getattr(ctx, "_c14_lock", None):
        return
    ctx._c14_lock = threading.RLock()
    for name in ("violation", "count", "sample", "corr", "log", "replay_path"):
        orig = getattr(ctx, name)

        def wrapped(*a, _o=orig, **k):
            with ctx._c14_lock:
                return _o(*a, **k)
        setattr(ctx, name, wrapped)


def strip_redirect(fl):
    return [f for f in fl if not f.startswith("-Dmalloc=") and not f.startswith("-Dfree=")]


class Tools:
    """lazily built libraries / harnesses for the current tree"""

    def __init__(self, ctx):
        self.ctx = ctx
        self.cache = {}
        self.model = None

    def lib(self, flavor):
        k = ("lib", flavor)
        if k not in self.cache:
            if flavor in ("fault", "faultasan"):
                lib, fl = self.ctx.build_lib(flavor, extra=FAULT_EXTRA)
            elif flavor == "faultplain":
                lib, fl = self.ctx.build_lib("fault")
            else:
                lib, fl = self.ctx.build_lib(flavor)
            self.cache[k] = (lib, fl)
        return self.cache[k]

    def exe(self, kind, prec, flavor="hooks"):
        k = (kind, prec, flavor)
        if k in self.cache:
            return self.cache[k]
        lib, fl = self.lib(flavor)
        fl = strip_redirect(fl) + ["-DVPREC=%d" % prec]
        faulty = flavor.startswith("fault")
        src = {"fn": "ustack_harness.c", "drv": "ustack_drv_harness.c"}[kind]
        srcs = [src, "sp_ienv_verif.c"]
        link = []
        if kind == "drv":
            srcs += ["lock_jitter.c"]            # schedule perturbation before every mutex lock (on when VERIF_LOCK_JITTER is set)
            link = ["-Wl,--wrap=pthread_mutex_lock"]
        if faulty:
            srcs += ["verif_malloc.c", "ledger_trace.c"]
            fl = fl + ["-DVERIF_FAULT"]
            link = link + ["-no-pie", "-Wl,--wrap=verif_malloc"]
        if "asan" in flavor:
            fl = fl + ["-DVERIF_ASAN"]
        e = self.ctx.cc_harness("ustack_%s_%s_%d" % (kind, flavor, prec), srcs, lib, fl, extra_link=link)
        self.cache[k] = e
        return e

    def model_drv(self):
        if self.model is None:
            self.model = self.ctx.ocaml_model("ustack")
        return self.model


# ----------------------------------------------------------------------------- running and parsing
def run_cases(exe, text, alarm=4, timeout=600, args=(), jitter=0):
    env = dict(RUN_ENV, VERIF_ALARM=str(alarm))
    if jitter:
        env["VERIF_LOCK_JITTER"] = str(jitter)
    rc, o, e = vf.sh2([exe] + list(args), inp=text, timeout=timeout, env=env)
    return o.split("\n")


def split_cases(lines, comments=False):
    """{id: [lines]} in order; '#' comment lines (model-side classification) kept separately"""
    res, cur, cid, com = {}, None, None, {}
    for ln in lines:
        if ln.startswith("CASE "):
            cid = ln.split()[1]
            cur = []
            res[cid] = cur
            com[cid] = []
        elif cur is not None:
            if ln.startswith("#"):
                com[cid].append(ln)
            elif ln.strip():
                cur.append(ln)
    return (res, com) if comments else res


def kv(line):
    return dict(t.split("=", 1) for t in line.split()[1:] if "=" in t)


# ----------------------------------------------------------------------------- function level: generator
def fn_sizes(n, annz, nzlumax, dword, env, dyn):
    g = lambda f: -f * annz if f < 0 else f
    nzu, nzl = g(env[7]), g(env[8])
    nzlu = g(env[6]) if dyn else nzlumax
    return [(n + 1) * 4, n * 4, (n + 1) * 4, (n + 1) * 4, n * 4, (n + 1) * 4, n * 4, (n + 1) * 4, n * 4,
            nzlu * dword, nzu * dword, nzl * 4, nzu * 4], (nzlu, nzu, nzl)


def gen_fn_case(rng, cid, prec, force=None):
    """one random scenario; returns (lines, kind)"""
    dword = DW[prec]
    n = rng.choice([1, 2, 3, 5, 8, 10, 17, 33, 100, 257])
    annz = rng.choice([n, 2 * n, 3 * n + 1, n * n // 2 + 1, 1, 2, 0, 7])
    w = rng.choice([1, 2, 4, 8, 20])
    P = rng.randint(1, 4)
    env = list(ENV_DEFAULT)
    env[1] = w
    env[3] = rng.choice([4, 20, 200]); env[4] = rng.choice([8, 200])
    env[6] = rng.choice([-50, -5, -1, 300]); env[7] = rng.choice([-50, -3, -1, 500]); env[8] = rng.choice([-30, -2, -1, 200])
    dyn = rng.random() < 0.3
    nzlumax = rng.choice([0, annz, 4 * annz + 3, 20 * annz])
    ba = rng.choice([0, 0, 0, 4, 1, 2, 3, 5, 6, 7])
    sz, _ = fn_sizes(n, annz, nzlumax, dword, env, dyn)
    pre = [0]
    for x in sz:
        pre.append(pre[-1] + x)
    total = pre[-1]
    isz = (2 * w + 8) * n * 4
    dsz = (n * w + max(2 * n, (env[3] + env[4]) * w)) * dword
    mode = force or rng.choices(["query", "system", "boundary", "tail", "ample", "stack"], [6, 12, 40, 25, 7, 10])[0]
    lines = ["CASE %s" % cid]
    if mode == "stack":
        lw = rng.choice([64, 1000, 4096, 12345])
        lines.append("S %d %d" % (ba, lw))
        for _ in range(rng.randint(3, 14)):
            if rng.random() < 0.8:
                lines.append("M %d %d" % (rng.choice([0, 1, 7, 8, 16, lw // 3, lw // 2, lw - 1, lw, lw + 1, rng.randint(0, lw)]), rng.randint(0, 1)))
            else:
                lines.append("F %d %d" % (rng.choice([0, 8, 16, rng.randint(0, lw)]), rng.randint(0, 1)))
        lines += ["C", "END"]
        return lines, mode
    if mode == "query":
        lwork = -1
    elif mode == "system":
        lwork = 0
    elif mode == "boundary":
        lwork = max(1, rng.choice(pre) + rng.choice([-9, -8, -7, -4, -1, 0, 1, 2, 3, 4, 7, 8, 9, 15, 16, 17]))
    elif mode == "tail":
        k = rng.randint(0, P)
        lwork = max(1, total + 16 + k * (isz + dsz) + rng.choice([-9, -8, -1, 0, 1, 7, 8, 9, isz, isz - 1, isz + 1]))
    else:
        lwork = total + P * (isz + dsz) + 64 + rng.randint(0, 4096)
    for j in (3, 4, 6, 7, 8):
        lines.append("ENV %d %d" % (j, env[j]))
    fault = False
    if (lwork == 0 and rng.random() < 0.8) or (lwork > 0 and rng.random() < 0.06):
        lines.append("A %d" % rng.randint(1, 16))
        fault = True
    lines.append("I %d %d %d %d 0 %d %d %d %d" % (n, annz, P, w, int(dyn), nzlumax, lwork, ba))
    if lwork != -1:
        nthr = P
        for t in range(nthr):
            lines.append("W %d %d" % (n, w))
            if lwork > 0 and t >= 1 and rng.random() < 0.1:
                lines.append("RK %d" % rng.randint(0, t))        # a thread that finishes early
        lines.append("R")
        if rng.random() < 0.4:
            lines.append("L")
            lw2 = rng.choice([lwork, -1, max(1, lwork // 2), lwork + 64]) if lwork > 0 else rng.choice([0, -1])
            lines.append("I %d %d %d %d 1 %d %d %d %d" % (n, annz, P, w, int(dyn), nzlumax, lw2, ba))
            lines.append("W %d %d" % (n, w))
    lines.append("T %d %d %d" % (n, w, P))
    lines.append("U %d %d %d" % (rng.randint(0, 10 ** rng.randint(1, 8)), rng.randint(0, 10 ** rng.randint(1, 8)), rng.randint(0, 10 ** rng.randint(1, 8))))
    lines.append("C")
    lines.append("END")
    return lines, mode + ("+fault" if fault else "")


def fn_case_params(lines):
    """(n, dword-independent) data needed by the oracle: the first MemInit op of the case"""
    for l in lines:
        if l.startswith("I "):
            a = list(map(int, l.split()[1:]))
            return {"n": a[0], "annz": a[1], "P": a[2], "w": a[3], "refact": a[4], "dyn": a[5], "nzlumax": a[6], "lwork": a[7], "ba": a[8]}
    return None


def case_env(lines):
    env = list(ENV_DEFAULT)
    for l in lines:
        if l.startswith("ENV "):
            _, k, v = l.split()
            env[int(k)] = int(v)
    return env


# ----------------------------------------------------------------------------- function level: oracle on the C output
def oracle_queries(case_lines, out_lines, prec):
    """block sets handed out by the implementation in one case -> list of (tag, lwork, [(off,size)...])"""
    dword = DW[prec]
    env = case_env(case_lines)
    qs = []
    ops = [l for l in case_lines if not l.startswith("CASE") and not l.startswith("END")]
    glu, live, lwork, n, w = [], [], None, None, None
    for op, res in zip(ops, out_lines):
        t = op.split()
        if t[0] == "I" and res.startswith("I code=0") and " refact " not in res and int(t[8]) > 0:
            d = kv(res)
            n = int(t[1]); lwork = int(t[8])
            try:
                names = ["xsup", "xsup_end", "supno", "xlsub", "xlsub_end", "xlusup", "xlusup_end", "xusub", "xusub_end"]
                isz = [(n + 1) * 4, n * 4, (n + 1) * 4, (n + 1) * 4, n * 4, (n + 1) * 4, n * 4, (n + 1) * 4, n * 4]
                glu = [(int(d[nm]), s) for nm, s in zip(names, isz)]
                glu += [(int(d["lusup"]), int(d["nzlumax"]) * dword), (int(d["ucol"]), int(d["nzumax"]) * dword),
                        (int(d["lsub"]), int(d["nzlmax"]) * 4), (int(d["usub"]), int(d["nzumax"]) * 4)]
                qs.append(("I", lwork, list(glu)))
            except (KeyError, ValueError):      # NULL / sys pointer in a successful user-space MemInit
                qs.append(("I-null", lwork, None))
                glu = []
            live = []
        elif t[0] == "I":
            if res.startswith("I code=0") and " refact " in res:
                # arrays unchanged; the tail (work arrays of the previous factorization) is reclaimed by this MemInit
                live = []
                if lwork is None or not glu:
                    # refactorization without a successful first factorization in a user workspace: outside the contract
                    lwork = None; glu = []
                    continue
                if lwork is not None and len(t) > 8 and int(t[8]) > 0 and int(t[8]) != lwork:
                    # a re-factorization must be given the workspace that holds L and U: another lwork is outside the contract
                    # (the block oracle is not evaluated on what follows; model and C are still compared)
                    lwork = None; glu = []
                    continue
            else:
                glu, live = [], []
            if len(t) > 8 and int(t[8]) > 0:
                lwork = int(t[8])
            if not res.startswith("I code=0"):
                # MemInit FAILED: p?gstrf returns at once, no caller goes on to p?gstrf_WorkInit with the half-built stack of
                # a failed MemInit; the block oracle is not evaluated on such a continuation (model and C are still compared)
                lwork = None
        elif t[0] == "W" and res.startswith("W ret=0") and lwork and lwork > 0:
            d = kv(res)
            n = int(t[1]); w = int(t[2])
            try:
                isize = (2 * w + 8) * n * 4
                dsize = (n * w + max(2 * n, (env[3] + env[4]) * w)) * dword
                live = [(int(d["iwork"]), isize), (int(d["dwork"]), dsize)] + live
                qs.append(("W", lwork, list(glu) + list(live)))
            except (KeyError, ValueError):
                pass
        elif t[0] == "R":
            live = []
        elif t[0] == "RK":
            k = int(t[1])
            live = [b for i, b in enumerate(live) if i // 2 != k]
    return qs


def eval_oracle(tools, queries):
    """queries: list of (lwork, blocks) -> list of bool via the extracted blocks_okb"""
    if not queries:
        return []
    txt = "CASE o\n" + "\n".join("B %d %s" % (lw, " ".join("%d %d" % b for b in bl)) for lw, bl in queries) + "\nEND\n"
    out = run_cases(tools.model_drv(), txt, args=["8"])
    res = [l.split()[1] == "ok" for l in out if l.startswith("B ")]
    if len(res) != len(queries):
        raise vf.CheckError("oracle driver returned %d answers for %d queries" % (len(res), len(queries)))
    return res


def meminit_site(prec):
    """name of the allocation site of the ?expanders header in the current source"""
    f = os.path.join(vf.REPO, "SRC", "p%smemory.c" % PCH[prec])
    fn = "p%sgstrf_MemInit" % PCH[prec]
    al = ustack_sites.alloc_lines(f).get(fn, [])
    try:
        src = open(f, errors="replace").read().split("\n")
        for i, l in enumerate(al):
            if "ExpHeader" in src[l - 1] or "expanders" in src[l - 1]:
                return "p%smemory.c:%s:%d" % (PCH[prec], fn, i + 1)
    except OSError:
        pass
    return "p%smemory.c:%s:1" % (PCH[prec], fn)


def check_fn_batch(ctx, tools, prec, cases, fault, stats):
    """cases: list of (lines, kind).  Runs C and model, compares, evaluates the oracle.  Returns nothing;
    reports through ctx."""
    if not cases:
        return
    text = "\n".join("\n".join(c) for c, _ in cases) + "\n"
    exe = tools.exe("fn", prec, "fault" if fault else "hooks")
    cout = split_cases(run_cases(exe, text, alarm=3))
    mout, mcom = split_cases(run_cases(tools.model_drv(), text, args=[str(DW[prec])]), comments=True)
    all_q, q_owner = [], []
    per_case = {}
    for lines, kind in cases:
        cid = lines[0].split()[1]
        co, mo = cout.get(cid, []), mout.get(cid, [])
        # a spurious timeout of the C side under machine load: run again alone with a long alarm
        if co and co[-1].endswith("signal=14") and not (mo and mo[-1].endswith("signal=14")):
            co = split_cases(run_cases(exe, "\n".join(lines) + "\n", alarm=30)).get(cid, [])
        per_case[cid] = (lines, kind, co, mo, mcom.get(cid, []))
        body = co[:-1] if co and co[-1].startswith("END") else co
        for tag, lw, bl in oracle_queries(lines, body, prec):
            if bl is None:
                per_case[cid] += (("null",),)
            else:
                all_q.append((lw, bl)); q_owner.append((cid, tag))
    answers = eval_oracle(tools, all_q)
    bad_by_case = {}
    for (cid, tag), ok in zip(q_owner, answers):
        if not ok and cid not in bad_by_case:
            bad_by_case[cid] = tag
    for cid, tup in per_case.items():
        lines, kind, co, mo, com = tup[:5]
        agree = (co == mo)
        stats["lines"] += len(co)
        stats["cases"] += 1
        par = fn_case_params(lines)
        ctx.count({"fn": lines[1:], "prec": prec}, nontrivial=True, kind="fn:" + kind)
        end = co[-1] if co else "END ? missing"
        replay = {"part": "fn", "prec": prec, "fault": fault, "case": "\n".join(lines) + "\n"}
        key = None
        what = None
        if cid in bad_by_case or len(tup) > 5:
            # the property's own oracle fails on the implementation's blocks
            first = bad_by_case.get(cid, "I")
            defect = "unmodelled"
            if agree:
                ibad = any("blocks=bad" in c for c in com)
                if first.startswith("I") or ibad:
                    # retries > 0: the retry loop "freed" blocks that were never handed out; retries = 0: some of the nine
                    # integer arrays are NULL (their ?user_malloc results are not tested) while the L/U arrays fitted
                    defect = "meminit_retry_overfree" if any(re.search(r"retries=[1-9]", c) for c in com) else "meminit_unchecked_int_arrays"
                elif any(l.startswith("RK") for l in lines):
                    defect = "workfree_resets_live_tail"
                    if os.environ.get("VERIF_DEBUG_C14"):
                        ctx.log("DEBUG workfree case: " + " | ".join(lines) + " || C: " + " | ".join(co))
                else:
                    defect = "workinit_align_overlap"
                    if os.environ.get("VERIF_DEBUG_C14"):
                        ctx.log("DEBUG align case: " + " | ".join(lines) + " || C: " + " | ".join(co) + " || first=" + str(first))
            key = {"kind": "user_workspace", "defect": defect, "prec": PCH[prec]}
            diff = next(((a, b) for a, b in zip(co + ["<eof>"], mo + ["<eof>"]) if a != b), ("", ""))
            what = "blocks handed out by the real p%sgstrf_MemInit/WorkInit are outside [0,lwork) or overlap (%s; model %s)" % (
                PCH[prec], defect, "agrees" if agree else "DISAGREES on this case: C '%s' / model '%s'" % (diff[0][:90], diff[1][:90]))
        elif end.endswith("signal=14"):
            mh = bool(mo) and mo[-1].endswith("signal=14")
            key = {"kind": "hang", "defect": "meminit_retry_loop_annz_le_1" if (agree and mh and par and par["annz"] <= 1) else "unmodelled", "prec": PCH[prec]}
            what = "p%sgstrf_MemInit does not return (retry loop) under a failing allocator" % PCH[prec]
        elif re.search(r"signal=\d+", end):
            mc = bool(mo) and mo[-1].endswith("signal=11")
            if agree and mc:
                key = {"kind": "alloc_site", "site": meminit_site(prec)}
                what = "unchecked SUPERLU_MALLOC result (?expanders header) dereferenced: crash predicted by the model and observed"
            else:
                key = {"kind": "crash", "defect": "unmodelled", "prec": PCH[prec]}
                what = "crash of the real workspace routines not predicted by the model: %s" % end
        if key is not None:
            stats["oracle_fail"] += 1
            ctx.violation(what, replay, key=key)
            if not agree:
                stats["disagree"] += 1
                ctx.broken.append("correspondence ustack fn-level (prec %s): C and model differ on a failing case" % PCH[prec])
        elif not agree:
            stats["disagree"] += 1
            # oracle passes on the implementation: harmless rewrite or model bug
            diff = next(((a, b) for a, b in zip(co + ["<eof>"], mo + ["<eof>"]) if a != b), ("?", "?"))
            ctx.log("fn-level disagreement prec=%s case=%s\n   C: %s\n   M: %s" % (PCH[prec], " | ".join(lines), diff[0], diff[1]))
            ctx.broken.append("correspondence ustack fn-level prec=%s: C '%s' vs model '%s'" % (PCH[prec], diff[0][:120], diff[1][:120]))
            p = ctx.replay_path("corr")
            json.dump({"property": "C14", "replay": replay, "C": co, "model": mo}, open(p, "w"), indent=1)
        if len(ctx.cov["samples"]) < 2 and par and par["lwork"] > 0 and agree:
            ctx.sample({"fn_case": lines, "C_and_model_output": co})


# ----------------------------------------------------------------------------- driver level
def gen_matrix(rng, n, dens):
    cols = []
    for j in range(n):
        rows = {j}
        for i in range(n):
            if rng.random() < dens:
                rows.add(i)
        cols.append(sorted(rows))
    colptr, rowind, vals = [0], [], []
    for j, rows in enumerate(cols):
        for i in rows:
            rowind.append(i)
            vals.append(round(n + 2.0 + rng.random(), 4) if i == j else round(rng.uniform(-1, 1), 3))
        colptr.append(len(rowind))
    return colptr, rowind, vals


def drv_case(cid, call, P, lwork, mat, n, balign=0, fail=0, poison=1, permc=1, env=None, fact=1, nr=0):
    colptr, rowind, vals = mat
    ls = ["CASE %s" % cid, "CALL %s" % call, "P %d" % P, "LWORK %d" % lwork, "BALIGN %d" % balign, "FACT %d" % fact,
          "PERMC %d" % permc, "FAIL %d" % fail, "POISON %d" % poison, "NR %d" % nr]
    for k, v in sorted((env or {}).items()):
        ls.append("ENV %d %d" % (k, v))
    ls.append("MAT %d %d" % (n, len(rowind)))
    ls.append(" ".join(map(str, colptr)))
    ls.append(" ".join(map(str, rowind)))
    ls.append(" ".join(repr(v) for v in vals))
    ls.append("END")
    return "\n".join(ls) + "\n"


def parse_drv(lines):
    """{id: {"probe":{}, "ref":{}, "res":{}|None, "site":str|None, "end": "exit:0", "diag": str}}"""
    res = {}
    for l in lines:
        t = l.split()
        if len(t) < 2:
            continue
        r = res.setdefault(t[1], {"probe": None, "ref": None, "res": None, "site": None, "end": None, "diag": ""})
        if t[0] == "PROBE":
            r["probe"] = kv(l)
        elif t[0] == "REF":
            r["ref"] = kv(l)
        elif t[0] == "RES":
            r["res"] = kv(l)
            m = re.search(r"frames=([0-9a-fx,]+)", l)
            if m:
                r["site"] = m.group(1)
        elif t[0] == "SITE":
            m = re.search(r"frames=([0-9a-fx,]+)", l)
            if m:
                r["site"] = m.group(1)
            m = re.search(r"last:.*frames=([0-9a-fx,]+)", l)
            if m:
                r["site_last"] = m.group(1)
        elif t[0] == "END":
            m = re.search(r"status=(\S+) diag=\"(.*)\"", l)
            if m:
                r["end"], r["diag"] = m.group(1), m.group(2).strip()
    return res


def model_predict(tools, prec, probe, P, lwork, ba):
    """run the model on MemInit + P x WorkInit with the inputs the library computed itself"""
    n, annz, nzlumax = int(probe["n"]), int(probe["annz"]), int(probe["nzlumax"])
    w = int(probe["w"])
    lines = ["CASE p"]
    for k, name in ((3, "maxsuper"), (4, "rowblk"), (6, "f6"), (7, "f7"), (8, "f8")):
        lines.append("ENV %d %d" % (k, int(probe[name])))
    lines.append("I %d %d %d %d 0 %d %d %d %d" % (n, annz, P, w, int(probe["dyn"]), nzlumax, lwork, ba))
    for _ in range(P):
        lines.append("W %d %d" % (n, w))
    lines.append("U 0 0 0")
    lines.append("END")
    return lines


def classify_prediction(mlines, mcom, P):
    """-> dict(kind= 'fail'|'ok'|'workfail'|'wild'|'overlap', code=.., codes=set)"""
    il = next((l for l in mlines if l.startswith("I ")), None)
    if il is None:
        return {"kind": "stop", "end": mlines[-1] if mlines else "?"}
    d = kv(il)
    if d["code"] != "0":
        return {"kind": "fail", "code": int(d["code"])}
    if any("blocks=bad" in c for c in mcom):
        return {"kind": "wild", "retries": any(re.search(r"retries=[1-9]", c) for c in mcom)}
    ws = [kv(l) for l in mlines if l.startswith("W ")]
    if any("live=bad" in c for c in mcom):
        return {"kind": "overlap"}
    rets = [int(x["ret"]) for x in ws]
    if all(r == 0 for r in rets) and len(rets) == P:
        return {"kind": "ok", "glu": d}
    return {"kind": "workfail", "rets": sorted(set(r for r in rets if r)), "some_ok": any(r == 0 for r in rets), "glu": d}


def f32(z):
    import struct
    return int(struct.unpack("f", struct.pack("f", float(z)))[0])


def drv_workspace_sweep(ctx, tools, rng, prec, stats, flavor="hooks"):
    """user-workspace runs of p?gssvx / p?gstrf with prediction by the model"""
    quick = ctx.quick()
    exe = tools.exe("drv", prec, flavor)
    nmat = 2 if quick else 6
    jobs = []
    for mi in range(nmat):
        n = rng.choice([6, 12, 20, 30] if quick else [4, 9, 16, 25, 40, 60])
        mat = gen_matrix(rng, n, rng.choice([0.1, 0.2, 0.3]))
        small = rng.random() < 0.75
        env = {1: rng.choice([1, 2, 4]), 2: rng.choice([1, 2, 4]), 3: rng.choice([2, 4, 8]), 4: rng.choice([2, 4, 8])} if small else {}
        if rng.random() < 0.3:
            env[8] = rng.choice([-2, -3, -30])
            env[7] = rng.choice([-1, -5, -50])
        P = rng.choice([1, 2, 2, 3, 4])   # (P >= 3 was excluded until the WorkFree defect F17 was repaired, d0e97e1)
        call = rng.choice(["gssvx", "gssvx", "gstrf"])
        ba = rng.choice([0, 0, 4, 1, 3, 7])
        if "asan" in flavor and ba % 4:
            # a work[] that is not even int-aligned makes every int_t store undefined behaviour in C terms (UBSan stops the run at
            # the first one, e.g. Glu->xsup[nsuper] = jcol); it works on this machine and is exercised in the plain flavours only
            ba = 4 * (ba % 3)
        # first: the inputs of MemInit for this matrix
        o = parse_drv(run_cases(exe, drv_case("probe", call, 1, 0, mat, n, env=env), alarm=20))
        pr = o.get("probe", {}).get("probe")
        if not pr:
            ctx.broken.append("driver harness gave no PROBE line (prec %s)" % PCH[prec])
            continue
        dword = DW[prec]
        envl = list(ENV_DEFAULT)
        for k in ("maxsuper", "rowblk", "f6", "f7", "f8"):
            envl[{"maxsuper": 3, "rowblk": 4, "f6": 6, "f7": 7, "f8": 8}[k]] = int(pr[k])
        sz, _ = fn_sizes(n, int(pr["annz"]), int(pr["nzlumax"]), dword, envl, int(pr["dyn"]))
        pre = [0]
        for x in sz:
            pre.append(pre[-1] + x)
        w = int(pr["w"])
        isz = (2 * w + 8) * n * 4
        dsz = (n * w + max(2 * n, (envl[3] + envl[4]) * w)) * dword
        total = pre[-1]
        lws = {total + P * (isz + dsz) + 4096, total + 16 + P * (isz + dsz) + rng.choice([1, 8, 9]),
               total + 16 + P * (isz + dsz) - rng.choice([1, 8, 64]), total + 16 + (isz + dsz) // 2, total + rng.choice([-1, 0, 1, 15, 16]),
               pre[-2] + rng.choice([-1, 1]), pre[-3] + rng.choice([-1, 1, 8]), pre[10] + rng.choice([-8, 0, 8]), pre[9] + 4, pre[5], 64, 1}
        if not quick:
            lws |= {p + d for p in pre for d in (-1, 1)} | {total // 2, total * 3 // 4, total + 16 + (P - 1) * (isz + dsz) + 8}
        tightlo, tighthi = total + 16 + (P - 1) * (isz + dsz), total + 16 + P * (isz + dsz) + 16
        for lw in sorted(x for x in lws if x > 0):
            # buffers in which the LAST worker's arrays just do or do not fit are run several times (P >= 2): whether two workers
            # reach ?user_malloc together depends on the schedule (random delay before every lock)
            for _rep in range(6 if (P >= 2 and tightlo <= lw <= tighthi) else 1):
                jobs.append((call, P, lw, ba, mat, n, env, pr))
        jobs.append(("gssvx", P, -1, ba, mat, n, env, pr))      # the workspace query through the expert driver
    if not jobs:
        return
    # the query runs with L.Store = U.Store = NULL: it must not touch them
    text = "".join(drv_case("j%d" % i, j[0], j[1], j[2], j[4], j[5], balign=j[3], env=j[6], poison=1 if j[2] == -1 else 0) for i, j in enumerate(jobs))
    # every mutex lock of the library is preceded by a random delay: two workers reach ?user_malloc / WorkInit together
    if os.environ.get("VERIF_DEBUG_C14"):
        open("/tmp/c14_drv_batch_%s_%s.txt" % (prec, flavor), "w").write(text)
    out = parse_drv(run_cases(exe, text, alarm=30, timeout=1800, jitter=300))
    # model predictions
    mtext = ""
    for i, j in enumerate(jobs):
        ml = model_predict(tools, prec, j[7], j[1], j[2], j[3])
        ml[0] = "CASE j%d" % i
        mtext += "\n".join(ml) + "\n"
    mo, mc = split_cases(run_cases(tools.model_drv(), mtext, args=[str(DW[prec])]), comments=True)
    for i, j in enumerate(jobs):
        call, P, lw, ba, mat, n, env, pr = j
        cid = "j%d" % i
        r = out.get(cid)
        if r is None or r["end"] is None:
            ctx.broken.append("driver harness produced no result for a case (prec %s)" % PCH[prec])
            continue
        if r["end"].startswith("signal:14"):        # machine load? run it again alone with a long alarm before believing a hang
            r2 = parse_drv(run_cases(exe, drv_case(cid, call, P, lw, mat, n, balign=ba, env=env, poison=1 if lw == -1 else 0), alarm=90)).get(cid)
            if r2 and r2["end"]:
                r = r2
        pred = classify_prediction(mo.get(cid, []), mc.get(cid, []), P)
        stats["drv_cases"] += 1
        ctx.count({"drv": [call, P, lw, ba, n, mat[1], sorted(env.items())], "prec": prec, "fl": flavor}, kind="drv:%s:%s" % (flavor, pred["kind"]))
        replay = {"part": "drv", "prec": prec, "flavor": flavor, "P": P, "lwork": lw,
                  "case": drv_case(cid, call, P, lw, mat, n, balign=ba, env=env, poison=1 if lw == -1 else 0)}
        if pred["kind"] == "fail":
            replay["expect_info"] = pred["code"]
        res = r["res"]
        if call == "gssvx" and r["ref"] is None and res is None and r["end"] in ("exit:255", "exit:97") and "exceeded" in r["diag"]:
            # the reference run in system space already stopped through the abort path (fill estimate sp_ienv(6..8) too
            # small for this matrix): nothing to compare
            stats["drv_ref_abort"] = stats.get("drv_ref_abort", 0) + 1
            continue
        aborted = r["end"] in ("exit:255", "exit:97", "exit:1") and bool(r["diag"])     # SUPERLU_ABORT / intMalloc exit with a diagnostic
        crashed = not r["end"].startswith("exit:0") and not aborted
        canary_bad = bool(res) and res.get("canary") == "bad"
        info = int(res["info"]) if res else None
        symptom = None
        if crashed:
            symptom = "terminated with %s %s" % (r["end"], r["diag"][:80])
        elif canary_bad:
            symptom = "wrote %s bytes outside the user buffer (canaries)" % res.get("canary_bytes", "?")
        elif res and str(res.get("ustack", "")).startswith("bad"):
            symptom = "the two-ended user stack lost its invariant (top1 <= top2, used = top1 + size - top2 <= size): %s" % res.get("ustack")
        elif info == 0 and res.get("inbuf") == "bad":
            symptom = "returned info=0 with L/U arrays outside the user buffer"
        elif info == 0 and float(res.get("relerr", "nan")) > (1e-3 if prec in (0, 2) else 1e-9):
            symptom = "returned info=0 with a wrong solution (relerr %s)" % res.get("relerr")
        elif lw == -1 and res and pred["kind"] == "fail" and (info != pred["code"] or int(float(res.get("total_needed", "nan"))) != f32(pred["code"] - n)):
            symptom = "workspace query returned info=%s total_needed=%s, the model of MemInit says %d" % (info, res.get("total_needed"), pred["code"])
        elif info is not None and 0 < info <= n:
            symptom = "returned info=%d (<= n: 'singular') for a nonsingular matrix" % info
        elif info is not None and info < 0:
            symptom = "returned info=%d" % info
        elif info == 0 and P == 1 and res.get("xmatch") == "0":
            symptom = "solution differs bitwise from the internally allocated mode at one thread"
        if symptom:
            stats["drv_oracle_fail"] += 1
            us = str(res.get("ustack", "")) if res else ""
            if pred["kind"] == "wild" or (us.startswith("bad") and re.search(r"used=-|top1=-", us)):
                # the retry loop of MemInit gave back blocks it never received: used / top1 below zero (known finding C14-overfree)
                defect = "meminit_retry_overfree"
            elif pred["kind"] == "overlap":
                defect = "workinit_align_overlap"
            else:
                defect = "unpredicted"
            ctx.violation("p%s%s with a user workspace of %d bytes: %s (model prediction: %s)" % (PCH[prec], call, lw, symptom, pred["kind"]),
                          replay, key={"kind": "user_workspace", "defect": defect, "prec": PCH[prec]})
            continue
        # no symptom: the return code must be the one the model predicts (K-exact on info)
        stats["drv_compared"] += 1
        if aborted:
            stats["drv_aborted"] = stats.get("drv_aborted", 0) + 1
            # "Storage for ... exceeded" (Glu_alloc) is a legitimate stop once MemInit has succeeded: capacities are estimates
            if pred["kind"] == "fail" or (pred["kind"] == "ok" and "exceeded" not in r["diag"]):
                ctx.broken.append("correspondence ustack driver-level prec=%s: model predicts %s, p?%s stopped through the abort path: %s (lwork %d)" % (PCH[prec], pred["kind"], call, r["diag"][:80], lw))
                _store_corr(ctx, replay, r, pred)
        elif pred["kind"] == "ok":
            if info != 0:
                ctx.broken.append("correspondence ustack driver-level prec=%s: model predicts success, p?%s returned info=%s (lwork %d)" % (PCH[prec], call, info, lw))
                _store_corr(ctx, replay, r, pred)
        elif pred["kind"] == "fail":
            if info != pred["code"]:
                ctx.broken.append("correspondence ustack driver-level prec=%s: model predicts info=%d, p?%s returned %s (lwork %d)" % (PCH[prec], pred["code"], call, info, lw))
                _store_corr(ctx, replay, r, pred)
        elif pred["kind"] == "workfail":
            # with several threads the outcome depends on timing: a thread that has finished has released the tail
            # before a late one asks for its arrays; info = 0 is then legitimate if at least one thread fits
            if info == 0 and P > 1 and pred.get("some_ok"):
                stats["drv_timing_dependent"] = stats.get("drv_timing_dependent", 0) + 1
            elif info is None or info <= n:
                ctx.broken.append("correspondence ustack driver-level prec=%s: model predicts a WorkInit failure, p?%s returned %s (lwork %d)" % (PCH[prec], call, info, lw))
                _store_corr(ctx, replay, r, pred)
        elif pred["kind"] in ("wild", "overlap"):
            # the defect exists but left no trace this time (e.g. the overlapped entries were never used)
            stats["drv_silent_defect"] += 1
        if len(ctx.cov["samples"]) < 4 and pred["kind"] in ("ok", "fail"):
            ctx.sample({"driver_case": {"call": "p%s%s" % (PCH[prec], call), "n": n, "P": P, "lwork": lw, "balign": ba},
                        "predicted": pred["kind"], "observed": res})


def _store_corr(ctx, replay, r, pred):
    p = ctx.replay_path("corr")
    json.dump({"property": "C14", "replay": replay, "observed": r, "predicted": {k: v for k, v in pred.items() if k != "glu"}}, open(p, "w"), indent=1, default=str)


def drv_meminit_failure(ctx, tools, rng, prec, stats):
    """F4: p?gssvx after a MemInit failure with L/U as a caller that never factored has them"""
    exe = tools.exe("drv", prec, "hooks")
    n = 10
    mat = gen_matrix(rng, n, 0.2)
    text = drv_case("f4", "gssvx", 1, 300, mat, n, poison=1)
    r = parse_drv(run_cases(exe, text, alarm=20)).get("f4")
    stats["drv_cases"] += 1
    ctx.count({"drv_f4": prec}, kind="drv:meminit-failure")
    if r and r["end"] and not r["end"].startswith("exit:0"):
        ctx.violation("p%sgssvx: MemInit fails (user buffer of 300 bytes), no L/U is built, superlu_%sQuerySpace still reads L->Store: %s" % (PCH[prec], PCH[prec], r["end"]),
                      {"part": "drv", "prec": prec, "flavor": "hooks", "P": 1, "lwork": 300, "case": text, "expect": "info>n"},
                      key={"kind": "driver", "defect": "gssvx_queryspace_after_meminit_failure", "prec": PCH[prec]})


def drv_thread_stress(ctx, tools, rng, prec, stats, runs):
    """an AMPLE, aligned user buffer and P in {3,4}: p?gstrf_WorkFree of the first thread that finishes resets the whole
    tail of the user stack (top2 = size) while other threads still work; a thread that starts late is then handed their
    blocks (theorem workfree_overlap_refuted; deterministic at function level: W W RK W).  Here the real threads race."""
    exe = tools.exe("drv", prec, "hooks")
    n = 12
    mat = gen_matrix(rng, n, 0.25)
    env = {1: 4, 2: 1, 3: 8, 4: 4}
    per = 200
    texts = []
    for b in range(max(1, runs // per)):
        P = 3 + b % 2
        texts.append((P, "".join(drv_case("s%d_%d" % (b, i), "gstrf", P, 80000, mat, n, env=env, poison=0) for i in range(per))))
    with ThreadPoolExecutor(4) as ex:
        outs = list(ex.map(lambda t: (t[0], parse_drv(run_cases(exe, t[1], alarm=20, timeout=900))), texts))
    bad = 0
    for P, out in outs:
        for cid, r in out.items():
            stats["stress_runs"] = stats.get("stress_runs", 0) + 1
            res = r["res"]
            sym = None
            if not r["end"] or not r["end"].startswith("exit:0") or not res:
                sym = "terminated with %s" % r["end"]
            elif res["info"] != "0":
                sym = "returned info=%s for a well conditioned nonsingular matrix" % res["info"]
            elif float(res["relerr"]) > (1e-3 if prec in (0, 2) else 1e-9):
                sym = "returned info=0 with a wrong solution (relerr %s)" % res["relerr"]
            elif res.get("canary") == "bad":
                sym = "wrote outside the user buffer"
            if sym:
                bad += 1
                ctx.violation("p%sgstrf, nprocs=%d, ample aligned user workspace (80000 bytes, n=12): %s; never observed with lwork=0 or nprocs<=2 "
                              "(attributed to WorkFree resetting the live tail, see workfree_overlap_refuted)" % (PCH[prec], P, sym),
                              {"part": "stress", "prec": prec, "P": P, "runs": 4000,
                               "case": drv_case("s", "gstrf", P, 80000, mat, n, env=env, poison=0)},
                              key={"kind": "user_workspace", "defect": "workfree_resets_live_tail", "prec": PCH[prec]})
    ctx.count({"stress": prec, "runs": runs}, kind="drv:stress-P3-4")
    stats["stress_bad"] = stats.get("stress_bad", 0) + bad


def drv_thread_timed(ctx, tools, rng, prec, stats):
    """the same defect made (nearly) deterministic: the observation hook of the tree is used for TIMING ONLY (harness
    delay_cb: the thread that takes the last panel is slow, threads 2,3 enter after another thread has run WorkFree).
    Controls with the same timing: nprocs = 2 (user space) and nprocs = 4 with lwork = 0 must be clean."""
    exe = tools.exe("drv", prec, "hooks")
    n = 12
    mat = gen_matrix(rng, n, 0.2)
    env = {1: 4, 2: 1, 3: 8, 4: 4}
    tol = 1e-3 if prec in (0, 2) else 1e-9

    def runs(P, lw, k):
        text = "".join(drv_case("t%d" % i, "gstrf", P, lw, mat, n, env=env, poison=0).replace("END\n", "DELAY 1\nEND\n") for i in range(k))
        out = parse_drv(run_cases(exe, text, alarm=30))
        bad = []
        for r in out.values():
            res = r["res"]
            if not res or not (r["end"] or "").startswith("exit:0"):
                bad.append("terminated with %s" % r["end"])
            elif res["info"] != "0":
                bad.append("info=%s for a nonsingular matrix" % res["info"])
            elif float(res["relerr"]) > tol:
                bad.append("info=0 with a wrong solution (relerr %s)" % res["relerr"])
        return bad, len(out)
    for P, lw, k, expect_clean in ((4, 200000, 4, False), (3, 200000, 4, False), (2, 200000, 3, True), (4, 0, 3, True)):
        bad, tot = runs(P, lw, k)
        stats["timed_runs"] = stats.get("timed_runs", 0) + tot
        ctx.count({"timed": [prec, P, lw]}, kind="drv:timed-P%d-%s" % (P, "user" if lw else "system"))
        if not bad:
            continue
        stats["timed_bad"] = stats.get("timed_bad", 0) + len(bad)
        case = drv_case("t", "gstrf", P, lw, mat, n, env=env, poison=0).replace("END\n", "DELAY 1\nEND\n")
        if expect_clean:
            ctx.violation("p%sgstrf nprocs=%d lwork=%d under the timed schedule: %s (%d of %d runs) - NOT explained by the WorkFree defect"
                          % (PCH[prec], P, lw, bad[0], len(bad), tot),
                          {"part": "timed", "prec": prec, "P": P, "lwork": lw, "case": case},
                          key={"kind": "user_workspace", "defect": "unpredicted", "prec": PCH[prec]})
        else:
            ctx.violation("p%sgstrf nprocs=%d, ample aligned user workspace, timed (legal) schedule: %s (%d of %d runs); clean with nprocs=2 and "
                          "with lwork=0 under the same timing" % (PCH[prec], P, bad[0], len(bad), tot),
                          {"part": "timed", "prec": prec, "P": P, "lwork": lw, "case": case},
                          key={"kind": "user_workspace", "defect": "workfree_resets_live_tail", "prec": PCH[prec]})


# ----------------------------------------------------------------------------- fault enumeration
def classify_fault(r, n):
    """outcome class of one child"""
    end = r["end"] or "?"
    if end.startswith("signal:14"):
        return "hang"
    if end.startswith("signal:"):
        return "crash"
    code = int(end.split(":")[1])
    if code == 99:
        return "crash"          # ASan report
    if code in (97, 1, 255) and r["diag"]:
        return "abort"
    if code == 98:
        return "crash"          # bad / double free detected by the interposer
    if code != 0:
        return "crash" if not r["diag"] else "abort"
    res = r["res"]
    if not res:
        return "crash"
    if res.get("failed") == "0":
        return "nofail"
    info = int(res["info"])
    if info > n + 1:
        return "info>n"
    return "false-success"


def fault_enumeration(ctx, tools, rng, prec, stats, flavor="fault"):
    exe = tools.exe("drv", prec, flavor)
    quick = ctx.quick()
    combos = [("gssv", 1), ("gssvx", 2), ("gstrf", 1)] if quick else [(c, p) for c in ("gssv", "gssvx", "gstrf") for p in (1, 2, 4)]
    for call, P in combos:
        n = rng.choice([5, 8, 11])
        mat = gen_matrix(rng, n, 0.25)
        variants = [dict(lwork=0, nr=0)]
        if not quick:
            variants.append(dict(lwork=0, nr=1) if call != "gstrf" else dict(lwork=1 << 20, nr=0))
            if call == "gssvx":
                variants.append(dict(lwork=1 << 20, nr=0))
        for var in variants:
            poison = 0 if call == "gssvx" else 1      # F4 (QuerySpace after a MemInit failure) is checked separately
            dry = parse_drv(run_cases(exe, drv_case("dry", call, P, var["lwork"], mat, n, poison=poison, nr=var["nr"]), alarm=20)).get("dry")
            if not dry or not dry["res"]:
                ctx.broken.append("fault enumeration: dry run of p%s%s failed (%s)" % (PCH[prec], call, dry and dry["end"]))
                continue
            K = int(dry["res"]["nalloc"])
            text = "".join(drv_case("k%d" % k, call, P, var["lwork"], mat, n, fail=k, poison=poison, nr=var["nr"]) for k in range(1, K + 1))
            out = parse_drv(run_cases(exe, text, alarm=10, timeout=1200))
            hist = {}
            for k in range(1, K + 1):
                r = out.get("k%d" % k)
                if not r or r["end"] is None:
                    continue
                cl = classify_fault(r, n)
                if cl == "hang":        # confirm (machine load)
                    r2 = parse_drv(run_cases(exe, drv_case("k%d" % k, call, P, var["lwork"], mat, n, fail=k, poison=poison, nr=var["nr"]), alarm=40)).get("k%d" % k)
                    if r2 and r2["end"]:
                        r, cl = r2, classify_fault(r2, n)
                hist[cl] = hist.get(cl, 0) + 1
                stats["fault_runs"] += 1
                # a process that dies most likely dereferenced the NULL of the most recent failed request;
                # a false success is attributed to the first failed one
                fr = r.get("site_last") if cl in ("crash", "hang") and r.get("site_last") else r["site"]
                site = ustack_sites.site_of(exe, fr.split(",")) if fr else "unknown"
                ctx.count({"fault": [call, P, k, var, n, mat[1]], "prec": prec}, nontrivial=(cl != "nofail"), kind="fault:" + cl)
                if cl in ("crash", "hang", "false-success"):
                    stats["fault_bad"] += 1
                    ctx.violation("fault enumeration (supporting evidence): p%s%s nprocs=%d, request %d (%s) and all later ones fail -> %s %s %s"
                                  % (PCH[prec], call, P, k, site, cl, r["end"], (r["res"] or {}).get("info", "")),
                                  {"part": "fault", "prec": prec, "flavor": flavor, "call": call, "k": k, "n": n, "expect_site": site,
                                   "case": drv_case("k%d" % k, call, P, var["lwork"], mat, n, fail=k, poison=poison, nr=var["nr"])},
                                  key={"kind": "alloc_site", "site": site})
            stats["fault_hist"]["p%s%s/P%d/lw%d/nr%d" % (PCH[prec], call, P, var["lwork"], var["nr"])] = dict(hist, K=K)


def mixed_allocator_check(ctx, tools, rng, stats):
    """USER_MALLOC / USER_FREE override points with an allocator that keeps a header (no plain-call redirect)"""
    lib, fl = tools.lib("faultplain")
    exe = ctx.cc_harness("ustack_drv_faultplain_1", ["ustack_drv_harness.c", "sp_ienv_verif.c", "verif_malloc.c", "ledger_trace.c"],
                         lib, fl + ["-DVPREC=1", "-DVERIF_FAULT"], extra_link=["-no-pie", "-Wl,--wrap=verif_malloc"])
    n = 6
    mat = gen_matrix(rng, n, 0.3)
    text = drv_case("mixed", "gssv", 1, 0, mat, n, poison=1)
    r = parse_drv(run_cases(exe, text, alarm=20)).get("mixed")
    ctx.count({"mixed": 1}, kind="override-points")
    stats["mixed"] = r["end"] if r else "?"
    if r and r["end"] and not (r["end"] == "exit:0" and r["res"] and r["res"]["info"] == "0"):
        ctx.violation("USER_MALLOC/USER_FREE override points: pdgssv with an interposed allocator (no failure injected) ends with %s %s: "
                      "the library frees SUPERLU_MALLOC'ed blocks with plain free() and plain malloc'ed blocks with SUPERLU_FREE" % (r["end"], r["diag"][:80]),
                      {"part": "mixed", "case": text}, key={"kind": "user_malloc_override", "defect": "mixed_plain_malloc_free"})


def expand_preserves(ctx, rng, stats):
    """p?gstrf_MemXpand called directly (no driver reaches it on the current tree): growing lusup / ucol / usub / lsub keeps their
    contents, keeps them inside work[] and disjoint, in both workspace modes and every precision (harness/memxpand_harness.c)"""
    lib, fl = ctx.build_lib("hooks")
    nrun = 0
    for pi, pch in enumerate("sdcz"):
        exe = ctx.cc_harness("memxpand_" + pch, ["memxpand_harness.c", "sp_ienv_verif.c"], lib, fl + ["-DVPREC=%d" % pi])
        combos = [(20, 60, 0, 0), (20, 60, 200000, 0), (33, 140, 400000, 4), (8, 20, 60000, 0)]
        combos += [(rng.randint(5, 60), rng.randint(10, 300), rng.choice([0, 300000, 900000]), rng.choice([0, 4, 8])) for _ in range(2 if ctx.quick() else 20)]
        for (n, annz, lw, ba) in combos:
            rc, out, err = vf.sh2([exe, str(n), str(annz), str(lw), str(ba)], timeout=60)
            nrun += 1
            ctx.count(("memxpand", pch, n, annz, lw, ba), kind="memxpand-%s" % ("user" if lw else "system"))
            bad = [l for l in out.split("\n") if l.startswith("FAIL")]
            if rc != 0 or bad or not (out.strip().endswith("OK") or out.strip().endswith("SKIP")):
                what = bad[0][5:] if bad else "harness ended with rc %s: %s" % (rc, (err or out)[-160:])
                ctx.violation("p%sgstrf_MemXpand (n=%d, annz=%d, lwork=%d, base+%d): %s" % (pch, n, annz, lw, ba, what),
                              {"part": "memxpand", "prec": pch, "args": [n, annz, lw, ba]}, key={"kind": "expand", "what": what[:32]})
    stats["memxpand_runs"] = nrun
    ctx.corr("memxpand_contents_preserved", nrun)


# ----------------------------------------------------------------------------- corpus
def load_corpus():
    res = []
    for f in sorted(glob.glob(os.path.join(vf.VERIF, "corpus", "C14", "*.json"))):
        try:
            res.append((os.path.basename(f), json.load(open(f))))
        except ValueError:
            pass
    return res


# ----------------------------------------------------------------------------- entry points
def new_stats():
    return {"lines": 0, "cases": 0, "oracle_fail": 0, "disagree": 0, "drv_cases": 0, "drv_compared": 0, "drv_oracle_fail": 0,
            "drv_silent_defect": 0, "fault_runs": 0, "fault_bad": 0, "fault_hist": {}, "mixed": None}


def run(ctx):
    ctx.cov["rule"] = ("function level: random scenarios over (n, annz, w, P, sp_ienv(3,4,6,7,8), dynamic bound, nzlumax, base alignment) "
                       "with lwork drawn at the prefix sums of the 13 MemInit requests and of the per-thread WorkInit requests +-{0..17}, "
                       "-1 (query), 0 (system space, with the k-th system request failing), refactorization and early WorkFree sequences, "
                       "raw malloc/free sequences; driver level: random diagonally dominant sparse matrices, lwork at the same boundaries "
                       "computed from the library's own PresetMap; fault enumeration k=1..K.  Non-trivial = distinct scenario.")
    ctx.cov["partial"] += [
        "factorization proper not modelled in this property (capacities and block layout only)",
        "system-allocator failure at an arbitrary site is enumerated with the fault flavour, not proved",
        "int_t overflow and float->int conversion above 2^31 (info for > 2 GB) not modelled",
        "p?gstrf_expand with no_expand != 0 / p?gstrf_MemXpand not modelled (no caller in SRC)",
        "interleavings of WorkInit/WorkFree are modelled (run_sched: safety for every schedule, alignment and element size; refinement "
        "lemma to the sequential work_init) but the real threads are only observed at call granularity; the real threads are raced with "
        "a timed schedule and with random delays before every lock (lock_jitter), tight buffers repeated",
        "fault flavour is compiled with -Dmalloc=ledger_plain_malloc -Dfree=ledger_plain_free because the library mixes plain and "
        "SUPERLU_ allocation calls (reported as finding user_malloc_override)",
    ]
    ctx.cov["trusted_base"] += [
        "harness/ustack_harness.c, ustack_drv_harness.c, ledger_trace.c, extract/ustack_driver.ml, tools/ustack_sites.py (addr2line)",
        "offsets are compared relative to the buffer base; binary32/binary64 arithmetic on integers modelled by rnd 24 / rnd 53 "
        "(validated by the K-exact comparison of TempSpace / memory_use on random arguments)",
    ]
    stats = new_stats()
    make_threadsafe(ctx)
    proofs_ok = ctx.coq_properties()
    tools = Tools(ctx)
    quick = ctx.quick()
    rng = ctx.rng
    t0 = time.time()

    # ---- corpus first
    for name, obj in load_corpus():
        if obj.get("part") == "fn":
            lines = obj["case"].strip().split("\n")
            check_fn_batch(ctx, tools, obj["prec"], [(lines, "corpus")], obj.get("fault", False), stats)

    # ---- function level
    N = 260 if quick else 2500
    batches = []
    for prec in range(4):
        plain, faulty = [], []
        for i in range(N):
            lines, kind = gen_fn_case(rng, "c%d" % i, prec)
            (faulty if any(l.startswith("A ") for l in lines) else plain).append((lines, kind))
        # directed: the hang (annz <= 1, system space, persistent failure from the first L/U array on)
        for j, k in enumerate((11, 12) if quick else (11, 12, 13, 14)):
            faulty.append((["CASE h%d" % j, "A %d" % k, "I 1 1 1 1 0 0 1 0 0", "END"], "system+fault-hang"))
        faulty.append((["CASE x0", "A 1", "I 10 30 1 4 0 0 200 5000 0", "END"], "user+expanders-null"))
        batches.append((prec, plain, False))
        batches.append((prec, faulty, True))
    # build everything before going parallel (the build functions are not re-entrant)
    for prec in range(4):
        tools.exe("fn", prec, "hooks"); tools.exe("fn", prec, "fault")
    tools.model_drv()
    with ThreadPoolExecutor(8) as ex:
        list(ex.map(lambda b: check_fn_batch(ctx, tools, b[0], b[1], b[2], stats), batches))
    ctx.corr("fn_level_cases_compared", stats["cases"])
    ctx.corr("fn_level_lines_compared", stats["lines"])
    ctx.corr("fn_level_disagreements", stats["disagree"])
    ctx.corr("fn_level_oracle_failures_on_implementation", stats["oracle_fail"])
    ctx.log("function level: %d cases, %d lines, %d disagreements, %d oracle failures (%.1fs)" % (
        stats["cases"], stats["lines"], stats["disagree"], stats["oracle_fail"], time.time() - t0))

    # ---- driver level
    t1 = time.time()
    for prec in range(4):
        tools.exe("drv", prec, "hooks")
    for prec in range(4):
        drv_workspace_sweep(ctx, tools, rng, prec, stats)
        drv_meminit_failure(ctx, tools, rng, prec, stats)
    for prec in range(4):
        drv_thread_timed(ctx, tools, rng, prec, stats)
    ctx.corr("driver_level_timed_schedule_runs", stats.get("timed_runs", 0))
    ctx.corr("driver_level_timed_schedule_bad", stats.get("timed_bad", 0))
    for prec in ([] if quick else [0, 1, 2, 3]):
        drv_thread_stress(ctx, tools, rng, prec, stats, 12000)
    ctx.corr("driver_level_thread_stress_runs", stats.get("stress_runs", 0))
    ctx.corr("driver_level_thread_stress_bad", stats.get("stress_bad", 0))
    # guarded buffer with ASan red zones
    for prec in ([1] if quick else [0, 1, 2, 3]):
        tools.exe("drv", prec, "asan")
        drv_workspace_sweep(ctx, tools, rng, prec, stats, flavor="asan")
    ctx.corr("driver_level_cases", stats["drv_cases"])
    ctx.corr("driver_level_return_codes_compared", stats["drv_compared"])
    ctx.corr("driver_level_oracle_failures", stats["drv_oracle_fail"])
    ctx.log("driver level: %d cases, %d return codes compared, %d oracle failures, %d silent (%.1fs)" % (
        stats["drv_cases"], stats["drv_compared"], stats["drv_oracle_fail"], stats["drv_silent_defect"], time.time() - t1))

    # ---- fault enumeration (supporting evidence)
    t2 = time.time()
    for prec in range(4):
        tools.exe("drv", prec, "fault")
    with ThreadPoolExecutor(4) as ex:
        list(ex.map(lambda p: fault_enumeration(ctx, tools, __import__("random").Random(ctx.seed * 7 + p), p, stats), range(4)))
    if not quick:
        tools.exe("drv", 1, "faultasan")
        fault_enumeration(ctx, tools, __import__("random").Random(ctx.seed * 11), 1, stats, flavor="faultasan")
    mixed_allocator_check(ctx, tools, rng, stats)
    expand_preserves(ctx, rng, stats)
    ctx.corr("fault_enumeration_runs", stats["fault_runs"])
    ctx.corr("fault_enumeration_crash_hang_falsesuccess", stats["fault_bad"])
    ctx.cov["fault_enumeration (supporting evidence, not a proof)"] = stats["fault_hist"]
    ctx.cov["override_points_plain_run"] = stats["mixed"]
    ctx.log("fault enumeration: %d runs, %d bad outcomes (%.1fs)" % (stats["fault_runs"], stats["fault_bad"], time.time() - t2))
    ctx.cov["traces_validated_against_impl"] = stats["cases"] + stats["drv_compared"]
    ctx.cov["violation_keys"] = sorted(v["sig"] for v in ctx.violations)


def replay(ctx, obj):
    """re-run a stored case against the current tree; 1 if it still fails"""
    rp = obj.get("replay", obj)
    make_threadsafe(ctx)
    tools = Tools(ctx)
    stats = new_stats()
    part = rp.get("part")
    if part == "fn":
        lines = rp["case"].strip().split("\n")
        check_fn_batch(ctx, tools, rp["prec"], [(lines, "replay")], rp.get("fault", False), stats)
    elif part == "drv":
        prec = rp["prec"]
        exe = tools.exe("drv", prec, rp.get("flavor", "hooks"))
        r = parse_drv(run_cases(exe, rp["case"], alarm=30))
        r = next(iter(r.values())) if r else None
        n = None
        res = r and r["res"]
        bad = (not r) or (not r["end"].startswith("exit:0")) or (res and (res.get("canary") == "bad" or (res.get("info") == "0" and res.get("inbuf") == "bad")))
        if not bad and int(rp.get("P", 1)) >= 2:
            # a schedule-dependent failure: the case is repeated under the random delays before every lock that the sweep uses
            m0 = re.search(r"CASE (\S+)", rp["case"])
            text = "".join(rp["case"].replace("CASE " + m0.group(1), "CASE %s_%d" % (m0.group(1), i)) for i in range(120)) if m0 else rp["case"]
            mm = re.search(r"MAT (\d+)", rp["case"])
            nn = int(mm.group(1)) if mm else None
            for rr in parse_drv(run_cases(exe, text, alarm=120, jitter=300)).values():
                rs = rr["res"]
                if (not rr["end"].startswith("exit:0")) or (rs and (rs.get("canary") == "bad" or str(rs.get("ustack", "")).startswith("bad")
                                                                    or (rs.get("info") not in (None, "0") and nn and 0 < int(rs["info"]) <= nn))):
                    r, res, bad = rr, rs, True
                    break
        if res and not bad and res.get("info") == "0":
            bad = float(res.get("relerr", "nan")) > (1e-3 if prec in (0, 2) else 1e-9) or res.get("xmatch") == "0" and rp.get("P") == 1
        if res and not bad and "expect_info" in rp:
            bad = int(res["info"]) != int(rp["expect_info"])
        if bad:
            ctx.violation("replay: p%s driver with user workspace still fails: %s %s" % (PCH[prec], r and r["end"], res), rp,
                          key=obj.get("key") or {"kind": "user_workspace", "defect": "replay", "prec": PCH[prec]})
    elif part == "fault":
        prec = rp["prec"]
        exe = tools.exe("drv", prec, rp.get("flavor", "fault"))
        r = parse_drv(run_cases(exe, rp["case"], alarm=40))
        r = next(iter(r.values())) if r else None
        cl = classify_fault(r, rp.get("n", 0)) if r else "crash"
        if cl in ("crash", "hang", "false-success"):
            fr = (r.get("site_last") if cl in ("crash", "hang") else None) or (r and r["site"])
            site = ustack_sites.site_of(exe, fr.split(",")) if fr else "unknown"
            ctx.violation("replay: request %s (%s) and later fail -> %s" % (rp.get("k"), site, cl), rp, key={"kind": "alloc_site", "site": site})
    elif part == "stress":
        prec = rp["prec"]
        exe = tools.exe("drv", prec, "hooks")
        N = int(rp.get("runs", 4000))
        texts = ["".join(rp["case"].replace("CASE s", "CASE s%d_%d" % (b, i)) for i in range(200)) for b in range(N // 200)]
        with ThreadPoolExecutor(4) as ex:
            outs = list(ex.map(lambda t: parse_drv(run_cases(exe, t, alarm=20, timeout=900)), texts))
        nbad = 0
        for out in outs:
            for r in out.values():
                res = r["res"]
                if not res or res["info"] != "0" or float(res["relerr"]) > (1e-3 if prec in (0, 2) else 1e-9):
                    nbad += 1
        ctx.log("replay stress: %d bad of %d runs" % (nbad, N))
        if nbad:
            ctx.violation("replay: %d of %d runs with nprocs=%s and an ample user workspace gave a wrong result" % (nbad, N, rp.get("P")), rp,
                          key=obj.get("key") or {"kind": "user_workspace", "defect": "workfree_resets_live_tail", "prec": PCH[prec]})
    elif part == "timed":
        prec = rp["prec"]
        exe = tools.exe("drv", prec, "hooks")
        text = "".join(rp["case"].replace("CASE t", "CASE t%d" % i) for i in range(6))
        out = parse_drv(run_cases(exe, text, alarm=30))
        nbad = sum(1 for r in out.values() if not r["res"] or r["res"]["info"] != "0" or float(r["res"]["relerr"]) > (1e-3 if prec in (0, 2) else 1e-9))
        if nbad:
            ctx.violation("replay: %d of %d timed runs with nprocs=%s lwork=%s gave a wrong result" % (nbad, len(out), rp.get("P"), rp.get("lwork")), rp,
                          key=obj.get("key") or {"kind": "user_workspace", "defect": "workfree_resets_live_tail", "prec": PCH[prec]})
    elif part == "mixed":
        mixed_allocator_check(ctx, tools, ctx.rng, stats)
    else:
        ctx.log("replay: nothing to re-run for", part)
        return 0
    return 1 if (ctx.violations or ctx.known_hit) else 0
