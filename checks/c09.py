"""C09 -- returned L, U and permutations are well-formed data structures.

1. Coq (Properties_C09.v): wf_LU spells out every clause of the property text over records mirroring SCPformat/NCPformat;
   check_wf_LU is proved sound AND complete for it; fixupL/countnz are modelled in place, with fixupL_correct_if_ordered and the
   vm_compute witness fixupL_unordered_refuted (F1); the dependency-order clauses are derived theorems.
2. K-pred: the harness runs p?gstrf (4 precisions, nprocs in {1,2,4,8}, first-time and refactored, internal and user workspace,
   4 orderings, varied panel/relax/maxsuper) on generated matrices and dumps L, U, perm_r, perm_c as integers; the EXTRACTED
   check_wf_LU decides (it is the property's own oracle, by the soundness/completeness theorem).
3. K-exact: the real fixupL and countnz of SRC/util.c run on synthetic GlobalLU images -- ordered, with gaps, and with storage
   order different from the supernode numbers -- and must agree with the extracted models entry for entry.
"""
import os, json, time
import vf

MANIFEST = {
    "text": "Coq: boolean checker check_wf_LU proved sound and complete for the predicate wf_LU (every clause of the property text); "
            "in-place models of fixupL/countnz with fixupL_correct_if_ordered and the refuted witness for unordered storage (F1); "
            "derived dependency-order theorems. Executed on every run: the extracted checker on the structures returned by p?gstrf "
            "for 4 precisions x nprocs{1,2,4,8} x refactorization x workspace modes, and model-vs-C equality for fixupL/countnz.",
    "note": "That every complete run ends in wf_LU (final_state_wf) is not a theorem here (it needs the worker/scheduler model); "
            "it is enforced at run time by the proved checker on every returned factor. fixupL and countnz are RE-TRANSLATED from util.c on every run (coq/WellFormedGen.v) and proved equal to the models for every n, perm_r and image, with no hypotheses (WellFormedTie.v; c09_source_fixupL_countnz_is_model); they are also tied K-exact on synthetic "
            "images and on the pre-finalize GlobalLU image of every real run (hook H13).",
    "technique": "Coq proof (sound+complete checker, list-transformer models proved equal to a translation of the C source regenerated on every run) + extracted checker on real factors + K-exact on util.c",
}

PRECS = {"d": "-DPREC_D", "s": "-DPREC_S", "c": "-DPREC_C", "z": "-DPREC_Z"}


# ----------------------------------------------------------------------------------- generators
def gen_matrix(rng, nmax):
    kind = rng.choice(["band", "arrow", "rand", "rand", "blockdiag", "grid", "dense", "tridiag", "star", "chainblocks"])
    n = rng.randint(2, nmax)
    pat = set((i, i) for i in range(n))
    if kind == "dense":
        n = min(n, 24)
        pat = set((i, j) for i in range(n) for j in range(n))
    elif kind == "band":
        bw = rng.randint(1, 5)
        pat |= set((i, j) for i in range(n) for j in range(n) if abs(i - j) <= bw and rng.random() < 0.9)
    elif kind == "tridiag":
        pat |= set((i, j) for i in range(n) for j in range(n) if abs(i - j) == 1)
    elif kind == "arrow":
        pat |= set((n - 1, j) for j in range(n)) | set((i, n - 1) for i in range(n))
        pat |= set((0, j) for j in range(n) if rng.random() < 0.4)
    elif kind == "star":
        pat |= set((i, 0) for i in range(n)) | set((0, j) for j in range(n))
    elif kind == "blockdiag":
        b = rng.randint(2, 7)
        pat |= set((i, j) for i in range(n) for j in range(n) if i // b == j // b)
    elif kind == "chainblocks":
        b = rng.randint(2, 5)
        pat |= set((i, j) for i in range(n) for j in range(n) if i // b == j // b or (i // b == j // b + 1 and rng.random() < 0.5))
    elif kind == "grid":
        k = max(2, int(n ** 0.5))
        n = k * k
        pat = set((i, i) for i in range(n))
        for r in range(k):
            for c in range(k):
                i = r * k + c
                if c + 1 < k:
                    pat |= {(i, i + 1), (i + 1, i)}
                if r + 1 < k:
                    pat |= {(i, i + k), (i + k, i)}
    else:
        d = rng.choice([0.05, 0.1, 0.2, 0.4])
        pat |= set((i, j) for i in range(n) for j in range(n) if rng.random() < d)
    pat = set((i, j) for (i, j) in pat if i < n and j < n)
    colptr, rowind, val = [0], [], []
    dom = rng.random() < 0.6
    for j in range(n):
        for i in sorted(i for (i, jj) in pat if jj == j):
            rowind.append(i)
            v = rng.uniform(-1, 1)
            if i == j:
                v += (n if dom else rng.choice([0.0, 2.0]))
            val.append(v if v != 0 else 0.5)
        colptr.append(len(rowind))
    return {"n": n, "colptr": colptr, "rowind": rowind, "val": val, "kind": kind}


def gen_branchchain(rng):
    """a long upper-bidiagonal chain X (columns 0..m-1) and a short dense chain Y (columns m..m+y-1) that meet at a branch column K
    which brings no row not seen before (natural order = postorder): whether K starts a supernode is decided by the etree alone,
    and with several workers Y is numbered long before the top of X"""
    m = rng.randint(40, 160); y = rng.randint(2, 3); K = m + y; n = K + rng.randint(2, 3)
    pat = set((j, j) for j in range(n)) | set((j - 1, j) for j in range(1, m))
    for j in range(m, m + y):
        pat |= set((i, j) for i in range(j, n))
    pat |= {(m - 1, K)} | set((i, K) for i in range(K, n))
    for j in range(K + 1, n):
        pat |= set((i, j) for i in range(K, n))
    colptr, rowind, val = [0], [], []
    for j in range(n):
        for i in sorted(i for (i, jj) in pat if jj == j):
            rowind.append(i); val.append(10.0 + rng.random() if i == j else rng.uniform(0.5, 1.5))
        colptr.append(len(rowind))
    return {"n": n, "colptr": colptr, "rowind": rowind, "val": val, "kind": "branchchain"}


def gen_run(rng, idx, nmax, quick):
    if idx % 8 == 5:
        M = gen_branchchain(rng)
        return dict(M, op="factor", id="f%d" % idx, nprocs=rng.choice([2, 3, 4]), permc=0, panel=1, relax=1, maxsuper=rng.choice([8, 100]),
                    refact=0, lwork=0, perturb=rng.randint(1, 10 ** 6))
    M = gen_matrix(rng, nmax)
    n = M["n"]
    refact = 1 if rng.random() < 0.3 else 0
    # enough for the fill estimates the harness sets (200*nnz values/indices per array, 16 bytes per complex value) and the threads' work arrays
    lwork = 0 if rng.random() < 0.7 else 10000 * len(M["val"]) + 40000 * n + 1000000
    return dict(M, op="factor", id="f%d" % idx, nprocs=rng.choice([1, 2, 4, 8]), permc=rng.choice([0, 1, 2, 3]),
                panel=rng.choice([1, 2, 4, 8, 16]), relax=rng.choice([1, 2, 4, 8]), maxsuper=rng.choice([1, 2, 4, 8, 32, 100]),
                refact=refact, lwork=lwork, perturb=(rng.randint(1, 10 ** 6) if rng.random() < 0.6 else 0))


def gen_glu(rng, idx, mode):
    """synthetic image of the GlobalLU fields fixupL/countnz read.  mode: ordered | gaps | shuffled"""
    ns = rng.randint(1, 7)
    widths = [rng.choice([1, 1, 2, 3, 4]) for _ in range(ns)]
    n = sum(widths)
    if n < 2:
        widths[0] += 1
        n += 1
    xsup, xsup_end, f = [], [], 0
    for w in widths:
        xsup.append(f); xsup_end.append(f + w); f += w
    lists = []
    for s in range(ns):
        below = [i for i in range(xsup_end[s], n) if rng.random() < 0.5]
        rng.shuffle(below)
        lists.append(list(range(xsup[s], xsup_end[s])) + below)
    order = list(range(ns))
    if mode == "shuffled":
        rng.shuffle(order)
    lsub, xlsub, xlsub_end = [], [0] * (n + 1), [0] * n
    for s in order:
        if mode != "ordered":
            lsub += [rng.randint(0, n - 1) for _ in range(rng.randint(0, 3))]      # pruned-graph remnants between the lists
        xlsub[xsup[s]] = len(lsub)
        lsub += lists[s]
        xlsub_end[xsup[s]] = len(lsub)
    lsub += [rng.randint(0, n - 1) for _ in range(rng.randint(0, 2))]
    perm_r = list(range(n))
    rng.shuffle(perm_r)
    supno = []
    for s, w in enumerate(widths):
        supno += [s] * w
    supno.append(ns - 1)
    xprune = [xlsub_end[j] for j in range(n)]
    return {"op": "glu", "id": "g%d" % idx, "mode": mode, "n": n, "nsuper": ns - 1, "perm_r": perm_r, "xsup": xsup, "xsup_end": xsup_end,
            "supno": supno, "lsub": lsub, "xlsub": xlsub, "xlsub_end": xlsub_end, "xprune": xprune, "nextu": rng.randint(0, 50),
            "order": order}


# ----------------------------------------------------------------------------------- I/O
def iv(v):
    return " ".join(str(int(x)) for x in v)


def lv(v):
    return "%d %s" % (len(v), iv(v))


def to_c(c):
    if c["op"] == "factor":
        return "factor %s %d %d %d %d %d %d %d %d %d %d %s %s %s\n" % (
            c["id"], c["nprocs"], c["permc"], c["panel"], c["relax"], c["maxsuper"], c["refact"], c["lwork"], c.get("perturb", 0),
            c["n"], len(c["val"]),
            iv(c["colptr"]), iv(c["rowind"]), " ".join(float(x).hex() for x in c["val"]))
    return ("fixupl %sF %d %d %s %s %s %s %s %s\n" % (c["id"], c["n"], c["nsuper"], iv(c["perm_r"]), iv(c["xsup"]), iv(c["xsup_end"]),
                                                    lv(c["lsub"]), iv(c["xlsub"]), iv(c["xlsub_end"])) +
            "countnz %sC %d %d %s %s %s %s %s %d\n" % (c["id"], c["n"], c["nsuper"], iv(c["xsup"]), iv(c["xsup_end"]), iv(c["xlsub"]),
                                                     iv(c["xlsub_end"]), iv(c["xprune"]), c["nextu"]))


def to_model_glu(c):
    return ("fixupl %sF %d %s %s %s %s %s %s %s\n" % (c["id"], c["n"], lv(c["perm_r"]), lv(c["xsup"]), lv(c["xsup_end"]), lv(c["supno"]),
                                                    lv(c["lsub"]), lv(c["xlsub"]), lv(c["xlsub_end"])) +
            "countnz %sC %d %s %s %s %s %s %d\n" % (c["id"], c["n"], lv(c["xsup"]), lv(c["xsup_end"]), lv(c["supno"]), lv(c["xlsub"]),
                                                  lv(c["xlsub_end"]), c["nextu"]))


def run_lines(exe, inp, timeout=900, env=None):
    rc, out, err = vf.sh2([exe], inp=inp, timeout=timeout, env=env)
    res = {}
    for ln in out.split("\n"):
        if ln.startswith("R "):
            t = ln.split()
            res[t[1]] = t[2:]
    return rc, res, err


def parse_dump(tok):
    """tokens after the id of a 'factor' result -> (info, n, 'wf' command payload or None)"""
    info, n = int(tok[0]), int(tok[1])
    if info != 0:
        return info, n, None
    return info, n, " ".join(tok[1:-2])        # n Lnnz Lnsuper Lnzlen <vectors...> : exactly the driver's wf layout


def struct_summary(tok):
    n = int(tok[1])
    return {"n": n, "L_nnz": int(tok[2]), "nsuper": int(tok[3])}


# ----------------------------------------------------------------------------------- check
def harness(ctx, prec):
    lib, fl = ctx.build_lib("hooks")
    return ctx.cc_harness("wellformed_" + prec, ["wellformed_harness.c", "sp_ienv_verif.c"], lib, fl + [PRECS[prec]])


def vkey(c, prec, symptom, clause):
    """identification of a failing run.  User-workspace runs are keyed by the workspace mode (the known defects of the user-space
    memory manager -- findings C08-user-workspace-thread-overlap, C14-meminit-retry-overfree -- surface here as malformed factors)"""
    if c["lwork"] > 0:
        return {"class": "user_workspace", "threads": "multi" if c["nprocs"] > 1 else "single", "symptom": symptom}
    return {"class": "wf_LU" if symptom == "malformed" else "crash", "clause": clause, "prec": prec}


def check_runs(ctx, drv, prec, runs, label):
    """factor every run, feed the dumps to the extracted checker; returns number of structures checked"""
    exe = harness(ctx, prec)
    t0 = time.time()
    res, pending = {}, list(runs)
    while pending:
        rc, r1, err = run_lines(exe, "".join(to_c(c) for c in pending))
        res.update(r1)
        if rc == 0:
            break
        # the harness died inside the library: the first run without a result line is the culprit; go on with the rest
        k = next((i for i, c in enumerate(pending) if c["id"] not in r1), len(pending))
        if k < len(pending):
            c = pending[k]
            if rc in (255, -6) and ("exceeded" in err or "Not enough memory" in err or "Need at least" in err):
                # SUPERLU_ABORT of the static memory manager: no structure is returned (properties C05/C14, not C09)
                ctx.count({"run": c["id"], "prec": prec, "abort": "memory-estimate"}, nontrivial=False, kind=prec + ":abort-memory-estimate")
            else:
                ctx.violation("p%sgstrf crashed (rc=%s, nprocs=%d, lwork=%d) on a generated matrix: %s" % (prec, rc, c["nprocs"], c["lwork"], err[-300:]),
                              {"kind": "factor", "prec": prec, "case": c, "repeat": 3}, key=vkey(c, prec, "crash", None))
        pending = pending[k + 1:]
    wf_inp, meta = "", {}
    for c in runs:
        if c["id"] not in res:
            continue
        info, n, payload = parse_dump(res[c["id"]])
        kind = "%s:np%d:%s%s%s" % (prec, c["nprocs"], c["kind"], ":refact" if c["refact"] else "", ":userwork" if c["lwork"] else "")
        if payload is None:
            ctx.count({"run": c["id"], "prec": prec, "info": info}, nontrivial=False, kind=prec + ":info!=0")
            continue
        wf_inp += "wf %s %s\n" % (c["id"], payload)
        meta[c["id"]] = (c, kind)
    # K-exact on REAL pre-finalize images (hook H13): the extracted fixupL / countnz applied to the GlobalLU image captured at the
    # entry of p?gstrf_thread_finalize must give exactly the subscripts, extents and nnz fields the library returns
    pre_inp, pre_meta = "", {}
    for cid in meta:
        pk = cid + "P"
        if pk not in res:
            continue
        t = res[pk]
        n_, nsuper_, nextu_ = int(t[0]), int(t[1]), int(t[2])
        vecs, p = [], 3
        for _ in range(7):
            k = int(t[p]); vecs.append(t[p + 1:p + 1 + k]); p += 1 + k
        perm_r_, xsup_, xsup_end_, supno_, lsub_, xlsub_, xlsub_end_ = vecs
        lvv = lambda v: "%d %s" % (len(v), " ".join(v))
        pre_inp += "fixupl %sF %d %s %s %s %s %s %s %s\n" % (cid, n_, lvv(perm_r_), lvv(xsup_), lvv(xsup_end_), lvv(supno_), lvv(lsub_),
                                                            lvv(xlsub_), lvv(xlsub_end_))
        pre_inp += "countnz %sC %d %s %s %s %s %s %d\n" % (cid, n_, lvv(xsup_), lvv(xsup_end_), lvv(supno_), lvv(xlsub_), lvv(xlsub_end_), nextu_)
        pre_meta[cid] = (n_, [int(x) for x in xsup_])
    if pre_inp:
        rc, pres, err = run_lines(drv, pre_inp)
        if rc != 0:
            raise vf.CheckError("extracted fixupL/countnz failed: " + err[-400:])
        for cid, (n_, xsup_) in pre_meta.items():
            d = res[cid]                       # info n Lnnz nsuper lenv nzbeg nzend rowind ribeg riend ...
            p = 5
            got = []
            for _ in range(5):
                k = int(d[p]); got.append([int(x) for x in d[p + 1:p + 1 + k]]); p += 1 + k
            rowind_, ribeg_, riend_ = got[2], got[3], got[4]
            # U.nnz follows the three supernode vectors
            for _ in range(3):
                k = int(d[p]); p += 1 + k
            lnnz_, unnz_ = int(d[2]), int(d[p])
            mt = pres[cid + "F"]
            q, mv = 0, []
            for _ in range(3):
                k = int(mt[q]); mv.append([int(x) for x in mt[q + 1:q + 1 + k]]); q += 1 + k
            ml, mxl, mxe = mv
            nextl = mxl[n_]
            ok = ml[:len(rowind_)] == rowind_ and nextl >= len(rowind_) and all(mxl[f] == ribeg_[f] and mxe[f] == riend_[f] for f in xsup_) \
                and [int(x) for x in pres[cid + "C"][:2]] == [lnnz_, unnz_]
            ctx.corr("K-exact:fixupL+countnz on real pre-finalize images (H13)", 1)
            if not ok:
                ctx.broken.append("correspondence fixupL/countnz on the pre-finalize image of run %s (%s): model and library disagree" % (cid, prec))
    rc, wres, err = run_lines(drv, wf_inp)
    if rc != 0:
        raise vf.CheckError("extracted checker failed: " + err[-400:])
    nchk = 0
    for cid, (c, kind) in meta.items():
        ok, clause = int(wres[cid][0]), int(wres[cid][1])
        nchk += 1
        ninv = int(res[cid][-2])
        if ninv > 0:
            ctx.corr("runs with storage order <> supernode-number order (F1 window hit)", 1)
        ctx.count({"prec": prec, "run": {k: v for k, v in c.items() if k != "val"}, "dump": vf.sha(" ".join(res[cid]))}, kind=kind)
        ctx.corr("check_wf_LU:" + prec, 1)
        if not ok:
            ctx.violation("structure returned by p%sgstrf (info=0, nprocs=%d, refact=%d, lwork=%d) violates clause #%d of wf_LU (%s)"
                          % (prec, c["nprocs"], c["refact"], c["lwork"], clause, CLAUSES[clause] if clause < len(CLAUSES) else "?"),
                          {"kind": "factor", "prec": prec, "case": c, "dump": res[cid], "clause": clause, "repeat": 20},
                          key=vkey(c, prec, "malformed", clause))
    ctx.log("%s: %d structures checked by the extracted check_wf_LU (%s precision) in %.1fs" % (label, nchk, prec, time.time() - t0))
    return nchk


CLAUSES = ["0<n", "0<ns<=n", "len col_to_sup", "len sup_to_col", "len nzval_col", "len rowind_col", "len U col", "perm_r bijection",
           "perm_c bijection", "every supernode is a non-empty column range inside 0..n", "col_to_sup names a supernode whose range holds the column",
           "every column of a supernode's range names that supernode", "row list inside rowind, at least width rows",
           "row list begins with own columns in order", "remaining rows larger and < n", "remaining rows distinct", "U extents inside arrays",
           "U rows in range, strictly above the supernode", "U rows distinct", "rowind extents pairwise disjoint",
           "nzval column pointers = block layout", "nzval blocks inside array", "nzval blocks pairwise disjoint", "U extents pairwise disjoint",
           "rows below a supernode's block belong to later-numbered supernodes", "rows of a U column belong to earlier-numbered supernodes",
           "L.nnz = counted entries", "U.nnz = counted entries"]


def glu_exact(ctx, drv, cases):
    exe = harness(ctx, "d")
    rc, cres, err = run_lines(exe, "".join(to_c(c) for c in cases))
    if rc != 0:
        ctx.broken.append("correspondence fixupL/countnz: C harness rc=%s %s" % (rc, err[-200:]))
    rc, mres, err = run_lines(drv, "".join(to_model_glu(c) for c in cases))
    if rc != 0:
        raise vf.CheckError("extracted model failed: " + err[-400:])
    for c in cases:
        for suf, name in (("F", "fixupL"), ("C", "countnz")):
            k = c["id"] + suf
            ctx.count({"glu": c, "fn": name}, kind="%s:%s" % (name, c["mode"]))
            ctx.corr("K-exact:" + name, 1)
            if k not in cres or cres[k] != mres.get(k):
                # the property's oracle for this routine: on ORDERED images the result must be the declarative compaction
                why = glu_oracle(c, cres.get(k), name)
                if why:
                    ctx.violation("%s of SRC/util.c: %s" % (name, why), {"kind": "glu", "case": c}, key={"class": name, "mode": c["mode"]})
                else:
                    ctx.broken.append("correspondence %s (%s, %s image): model %s..., C %s..." % (name, c["id"], c["mode"],
                                      " ".join((mres.get(k) or [])[:12]), " ".join((cres.get(k) or [])[:12])))
            elif c["mode"] != "shuffled":
                why = glu_oracle(c, cres[k], name)
                if why:
                    ctx.violation("%s of SRC/util.c: %s" % (name, why), {"kind": "glu", "case": c}, key={"class": name, "mode": c["mode"]})


def glu_oracle(c, tok, name):
    """declarative expectation (only meaningful when the storage order equals the supernode order)"""
    if tok is None:
        return "no result"
    if name == "countnz":
        nl = sum((c["xlsub_end"][f] - c["xlsub"][f]) * w - w * (w - 1) // 2 for f, w in
                 ((c["xsup"][s], c["xsup_end"][s] - c["xsup"][s]) for s in range(c["nsuper"] + 1)))
        nu = c["nextu"] + sum(w * (w + 1) // 2 for w in (c["xsup_end"][s] - c["xsup"][s] for s in range(c["nsuper"] + 1)))
        return None if [int(tok[0]), int(tok[1])] == [nl, nu] else "nnzL,nnzU = %s, expected %d %d" % (tok[:2], nl, nu)
    if c["mode"] == "shuffled":
        return None
    p = 0
    n0 = int(tok[p]); lsub = [int(x) for x in tok[p + 1:p + 1 + n0]]; p += 1 + n0
    n1 = int(tok[p]); xl = [int(x) for x in tok[p + 1:p + 1 + n1]]; p += 1 + n1
    n2 = int(tok[p]); xe = [int(x) for x in tok[p + 1:p + 1 + n2]]
    o = 0
    for s in range(c["nsuper"] + 1):
        f = c["xsup"][s]
        want = [c["perm_r"][r] for r in c["lsub"][c["xlsub"][f]:c["xlsub_end"][f]]]
        if xl[f] != o or xe[f] != o + len(want) or lsub[o:o + len(want)] != want:
            return "supernode %d: list/extent after fixupL differs from the original list mapped through perm_r" % s
        o += len(want)
    return None if xl[c["n"]] == o else "xlsub[n] = %d, expected %d" % (xl[c["n"]], o)


def load_corpus():
    d = os.path.join(vf.VERIF, "corpus", "C09")
    return [json.load(open(os.path.join(d, f))) for f in sorted(os.listdir(d)) if f.endswith(".json")] if os.path.isdir(d) else []


def run(ctx):
    ctx.cov["rule"] = (
        "matrices: 10 structural kinds (band, tridiagonal, arrow, star, block diagonal, chained blocks, 2-D grid, dense, random at 4 "
        "densities) n<=40 (quick) / n<=120 (thorough), diagonally dominant or not; each run draws nprocs from {1,2,4,8}, ordering from "
        "{natural, MMD(A'A), MMD(A'+A), COLAMD}, panel/relax/maxsuper from small grids, refactorization (30%) and user workspace (30%); "
        "all four precisions.  A run is non-trivial when info=0 (a structure is returned).  fixupL/countnz: synthetic GlobalLU images "
        "with 1..7 supernodes, ordered / with pruned-graph gaps / storage order shuffled against supernode numbers.")
    quick = ctx.quick()
    ctx.coq_properties()
    drv = ctx.ocaml_model("wellformed")
    rng = ctx.rng
    # corpus first
    for c in load_corpus():
        if c.get("op") == "factor":
            check_runs(ctx, drv, c.get("prec", "d"), [c] * 5, "corpus")
    nmax = 40 if quick else 120
    nruns = {"d": 800, "s": 250, "c": 250, "z": 250} if quick else {"d": 4000, "s": 1200, "c": 1200, "z": 1200}
    idx = 0
    for prec in ("d", "s", "c", "z"):
        runs = []
        for _ in range(nruns[prec]):
            idx += 1
            runs.append(gen_run(rng, idx, nmax, quick))
        check_runs(ctx, drv, prec, runs, "generated")
    # K-exact: util.c
    cases = []
    for i in range(60 if quick else 600):
        cases.append(gen_glu(rng, i, ["ordered", "gaps", "shuffled"][i % 3]))
    glu_exact(ctx, drv, cases)
    ctx.sample({"example_run": {k: v for k, v in gen_run(rng, 0, 6, True).items() if k != "val"}})
    ctx.sample({"example_glu": cases[2]})
    ctx.cov["partial"] += [
        "final_state_wf (every complete run with info=0 ends in wf_LU) is not proved -- needs the worker/scheduler model of C03/C04; "
        "enforced by running the proved-sound-and-complete checker on every returned structure",
        "array capacities behind nzval/rowind are not observable from the returned SuperMatrix: 'inside their arrays' is checked against "
        "the extent actually dumped (max end pointer) for nzval, exact lengths for the index arrays",
    ]
    ctx.cov["trusted_base"] += ["wellformed_harness.c copies the integer arrays of L->Store / U->Store verbatim (rowind_colbeg/colend only at "
                                "first columns of supernodes, the only entries the library defines)"]
    return 0


def replay(ctx, obj):
    rp = obj.get("replay", obj)
    drv = ctx.ocaml_model("wellformed")
    if rp.get("kind") == "factor":
        n0 = len(ctx.violations)
        check_runs(ctx, drv, rp.get("prec", "d"), [dict(rp["case"], id="r%d" % i) for i in range(rp.get("repeat", 20))], "replay")
        return 1 if len(ctx.violations) > n0 else 0
    if rp.get("kind") == "glu":
        glu_exact(ctx, drv, [rp["case"]])
        return 1 if ctx.violations or ctx.broken else 0
    print("replay: nothing to re-run")
    return 0
