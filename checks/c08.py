"""C08 - re-factorization and factor reuse stay correct over any call history."""
import os, sys, json, glob, time
from multiprocessing import Pool

sys.path.insert(0, os.path.join(os.path.dirname(os.path.dirname(os.path.abspath(__file__))), "tools"))
import vf
import persist_lib as pl

MANIFEST = {
    "text": "In any sequence of calls on matrices sharing one sparsity pattern (first factorization, re-factorizations reusing "
            "ordering/etree/L-U storage with or without pivot reuse, solves reusing factors) every call returns a correct "
            "factorization and solution of the values current at that call; pivot reuse keeps perm_r when the old pivots pass; "
            "factor-reusing calls modify neither A, L, U nor the permutations.",
    "note": "Coq: PersistModel.v models the file-static / function-static state of p?memory.c, p?gstrf_thread_init.c, "
            "p?gstrf_bmod2D.c and the drivers' use of it (MemInit both branches, user stack, expanders, QuerySpace, the pivot rule); "
            "theorems by induction over arbitrary op lists.  Correspondence on every run: persist_harness.c runs random op sequences "
            "(4 precisions, 1-4 threads varying per call, system and user workspace, expert driver and p?gstrf_init/p?gstrf/?gstrs) "
            "against the library built from the current tree; after every call exact-rational oracles (|PrAPc-LU|<=gamma_n|L||U|, "
            "componentwise backward error), perm_r/usepr rule decided in exact arithmetic, checksums around FACTORED calls, and "
            "K-exact comparison of the observable persistent record and state-dependent outputs with the extracted model.  Dynamic storage scheme: re-factorizations with the values and pivot rows of the first factorization must succeed (oracles only).",
    "technique": "machine-checked proof (Coq 8.16.1) + executed correspondence (extracted OCaml model vs C library)",
}

HARNESS_SRC = ["persist_harness.c", "sp_ienv_verif.c"]
WRAP = ["-Wl,--wrap=fixupL,--wrap=psgstrf_WorkInit,--wrap=psgstrf_WorkFree,--wrap=pdgstrf_WorkInit,--wrap=pdgstrf_WorkFree,--wrap=pcgstrf_WorkInit,--wrap=pcgstrf_WorkFree,--wrap=pzgstrf_WorkInit,--wrap=pzgstrf_WorkFree"]


def build(ctx, flavor="hooks"):
    lib, fl = ctx.build_lib(flavor)
    exe = ctx.cc_harness("persist_harness_" + flavor, HARNESS_SRC, lib, fl, extra_link=WRAP)
    return exe


# ----------------------------------------------------------------------------------------- one case (runs in a worker process)
def eval_case(arg):
    exe, drv, cj, wd, tag, want_model = arg
    case = pl.case_from_json(cj)
    t0 = time.time()
    rc, res, err = pl.run_case(exe, case, wd, tag)
    fails, st = pl.evaluate_case(case, rc, res, err)
    mm = []
    if want_model and drv:
        script, lf = pl.model_script(case, res)
        mrc, mout, merr = vf.sh2([drv], inp=script, timeout=60)
        if mrc != 0:
            mm = [(-1, "model driver failed rc=%d %s" % (mrc, merr[:200]))]
        else:
            mm = pl.compare_with_model(case, res, mout, lf)
            st["state_records_compared"] = sum(1 for x in lf if x is not None)
            attribute_stale_array(case, res, mout, lf, fails)
    return {"tag": tag, "fails": [f.as_dict() for f in fails], "stats": st, "mm": mm, "rc": rc, "nres": len(res),
            "nops": len(case["ops"]), "wall": time.time() - t0, "err": (err or "")[-1500:]}


def attribute_stale_array(case, res, mout, lf, fails):
    """a crash/abort in a refactorization that runs in user-workspace mode while the model says stack.array still names the
    workspace of ANOTHER factorization is the stale-stack.array defect (findings/C08-refact-user-workspace-stale-stack.md)"""
    lines = [pl.parse_model_line(l) for l in mout.strip().split("\n") if l.strip()]
    for f in fails:
        if f.key.get("kind") != "abort_or_crash" or f.op >= len(case["ops"]): continue
        o = case["ops"][f.op]
        if o["op"] != "refact": continue
        # a refactorization whose relax differs from the one of the first factorization of that session
        firsts = [q for q in range(f.op) if case["ops"][q]["op"] == "first" and case["ops"][q]["slot"] == o["slot"]]
        if firsts and case["ops"][firsts[-1]]["relax"] != o["relax"]:
            f.key = {"kind": "refact_relax_overflow"}
            f.what = "refactorization with relax=%d after a first factorization with relax=%d: %s" % (o["relax"], case["ops"][firsts[-1]]["relax"], f.what[:400])
            continue
        # state before the failing op = observation after the previous modelled op
        prev = None
        for q in range(f.op - 1, -1, -1):
            if lf[q] is not None and lf[q][0] < len(lines): prev = lines[lf[q][0]]; break
        if prev is None or not prev.get("obs") or o["lwork"] <= 0: continue
        # workspace id of this session = 1000 + index of its first op
        first = max(q for q in range(f.op) if case["ops"][q]["op"] == "first" and case["ops"][q]["slot"] == o["slot"])
        if int(prev["obs"]["array"]) != 1000 + first:
            f.key = {"kind": "refact_user_stack_stale_array"}
            f.what = "refactorization with user workspace while p?memory.c's stack.array still points to the workspace of another " \
                     "factorization (model: array id %s, this call's work id %d): %s" % (prev["obs"]["array"], 1000 + first, f.what[:400])


# ----------------------------------------------------------------------------------------- generators
def gen_twin_case(rng, nmax):
    """two sessions on ONE pattern and precision, each with its own L/U (and its own user workspace), interleaved"""
    prec = rng.choice("sdcz"); n = rng.randint(3, nmax)
    pat = pl.gen_pattern(rng, n); annz = len(pat["rowind"])
    ienv = list(pl.IENV_DEFAULT); ienv[0] = rng.choice([2, 4, 8]); ienv[1] = rng.choice([1, 4, 6])
    lw = [pl.lwork_enough(n, annz, prec, ienv, 2, ienv[0]) + 4096 * k for k in (0, 1)]
    user = [rng.random() < 0.8, rng.random() < 0.8]
    ops = []; have = [False, False]

    def fac(kind, slot, usepr=0):
        vals = pl.gen_vals(rng, pat, prec, "mixed")
        nrhs = 1
        ops.append(dict(op=kind, slot=slot, api=rng.choice([0, 1]), nprocs=rng.choice([1, 1, 2]), u=rng.choice([1.0, 0.1]), fact=0,
                        lwork=lw[slot] if user[slot] else 0, relax=ienv[1], panel=ienv[0], trans=rng.choice([0, 1]), nrhs=nrhs, usepr=usepr,
                        vals=vals, rhs=pl.gen_rhs(rng, prec, n, nrhs), style="mixed", permc=rng.choice([0, 1, 2, 3])))
        have[slot] = True
    fac("first", 0); fac("first", 1)
    for _ in range(rng.randint(2, 6)):
        s = rng.choice([0, 1]); c = rng.random()
        if not have[s]:
            fac("first", s)
        elif c < 0.5:
            fac("refact", s, usepr=rng.choice([0, 1]))
        elif c < 0.8:
            ops.append(dict(op="solve", slot=s, api=rng.choice([0, 1]), nprocs=1, trans=rng.choice([0, 1]), nrhs=1, rhs=pl.gen_rhs(rng, prec, n, 1)))
        else:
            ops.append(dict(op="destroy", slot=s)); have[s] = False
    return {"ienv": ienv, "slots": [{"sid": 0, "prec": prec, "pat": pat}, {"sid": 1, "prec": prec, "pat": pat}], "ops": ops,
            "meta": {"prec": prec, "n": n, "kind": pat["kind"], "user": any(user), "stream": "twin"}}


def gen_relax_case(rng, nmax):
    """refactorization called with a relax parameter different from the first factorization's"""
    prec = rng.choice("sdcz"); n = rng.randint(4, nmax)
    pat = pl.gen_pattern(rng, n)
    ienv = list(pl.IENV_DEFAULT); ienv[2] = 20
    r1, r2 = rng.choice([(1, 8), (1, 4), (2, 12), (8, 1), (6, 2)])
    ops = []
    for kind, rx in (("first", r1), ("refact", r2), ("refact", r1)):
        ops.append(dict(op=kind, slot=0, api=rng.choice([0, 1]), nprocs=1, u=1.0, fact=0, lwork=0, relax=rx, panel=ienv[0], trans=0, nrhs=1,
                        usepr=0, vals=pl.gen_vals(rng, pat, prec, "mixed"), rhs=pl.gen_rhs(rng, prec, n, 1), style="mixed",
                        permc=rng.choice([0, 1, 2, 3])))
    return {"ienv": ienv, "slots": [{"sid": 0, "prec": prec, "pat": pat}], "ops": ops,
            "meta": {"prec": prec, "n": n, "kind": pat["kind"], "user": False, "stream": "relax_change", "relax": [r1, r2]}}


def exactly_nonsingular(pat, prec, vals):
    """exact (complex rational) elimination: is the matrix with these values nonsingular?"""
    n = pat["n"]; A = pl.to_cq(vals, pl.NCOMP[prec])
    M = [dict() for _ in range(n)]             # rows as dict col -> CQ
    for j in range(n):
        for k in range(pat["colptr"][j], pat["colptr"][j + 1]):
            if not A[k].iszero():
                M[pat["rowind"][k]][j] = A[k]
    for j in range(n):
        pr = next((i for i in range(j, n) if j in M[i]), None)
        if pr is None:
            return False
        M[j], M[pr] = M[pr], M[j]
        piv = M[j][j]; den = piv.re * piv.re + piv.im * piv.im
        for i in range(j + 1, n):
            if j in M[i]:
                num = M[i][j] * piv.conj(); l = pl.CQ(num.re / den, num.im / den)
                for c, v in M[j].items():
                    if c > j:
                        t = M[i].get(c, pl.CQ(0, 0)) - l * v
                        if t.iszero():
                            M[i].pop(c, None)
                        else:
                            M[i][c] = t
                del M[i][j]
    return True


def gen_zero_pivot_case(rng, exe, wd, nmax, tag):
    """pivot reuse asked for although an OLD PIVOT IS NOW EXACTLY ZERO (threshold u = 0 included, where u*pivmax = 0 does not
    exclude it): first factorization, look at the permutations it returned, then a refactorization (usepr = YES) whose values
    have an exact zero at the old pivot of the column eliminated first (no update can touch it), then a solve."""
    for attempt in range(20):
        prec = rng.choice("sdcz"); n = rng.randint(3, nmax)
        pat = pl.gen_pattern(rng, n); nc = pl.NCOMP[prec]
        ienv = list(pl.IENV_DEFAULT); ienv[0] = rng.choice([1, 2, 8]); ienv[1] = rng.choice([1, 2, 6]); ienv[2] = 20
        v1 = pl.gen_vals(rng, pat, prec, rng.choice(["diagdom", "mixed"]))
        pc = rng.choice([0, 1, 2, 3]); u1 = rng.choice([1.0, 0.1, 0.0])
        first = dict(op="first", slot=0, api=1, nprocs=1, u=u1, fact=0, lwork=0, relax=ienv[1], panel=ienv[0], trans=0, nrhs=1, usepr=0,
                     vals=v1, rhs=pl.gen_rhs(rng, prec, n, 1), style="mixed", permc=pc)
        probe = {"ienv": ienv, "slots": [{"sid": 0, "prec": prec, "pat": pat}], "ops": [first], "meta": {}}
        rc, res, err = pl.run_case(exe, probe, wd, "probe_" + tag)
        if rc != 0 or not res or res[0].get("info") != 0 or not pl.is_perm(res[0].get("permr", []), n):
            continue
        j0 = res[0]["permc"].index(0); i0 = res[0]["permr"].index(0)
        ks = [k for k in range(pat["colptr"][j0], pat["colptr"][j0 + 1])]
        kp = [k for k in ks if pat["rowind"][k] == i0]
        if len(ks) < 2 or not kp:
            continue
        v2 = pl.gen_vals(rng, pat, prec, "perturb", base=v1, noise=rng.choice([0.0, 1e-3]))
        for c in range(nc):
            v2[kp[0] * nc + c] = 0.0
        if not exactly_nonsingular(pat, prec, v2):
            continue              # zeroing that entry made the matrix singular: info > 0 would be right
        ops = [first,
               dict(op="refact", slot=0, api=rng.choice([0, 1]), nprocs=rng.choice([1, 2]), u=rng.choice([0.0, 0.0, 0.1, 1.0]), fact=0, lwork=0,
                    relax=ienv[1], panel=ienv[0], trans=0, nrhs=1, usepr=1, vals=v2, rhs=pl.gen_rhs(rng, prec, n, 1), style="mixed"),
               dict(op="solve", slot=0, api=1, nprocs=1, trans=rng.choice([0, 1]), nrhs=1, rhs=pl.gen_rhs(rng, prec, n, 1))]
        return {"ienv": ienv, "slots": [{"sid": 0, "prec": prec, "pat": pat}], "ops": ops,
                "meta": {"prec": prec, "n": n, "kind": pat["kind"], "user": False, "stream": "zero_old_pivot"}}
    return None


# ----------------------------------------------------------------------------------------- shrinking
def still_fails(exe, drv, case, key, wd, tries=1):
    for t in range(tries):
        r = eval_case((exe, drv, pl.case_to_json(case), wd, "shr%d" % os.getpid(), True))
        if any(f["key"] == key for f in r["fails"]):
            return True
    return False


def shrink(exe, drv, case, key, failing_op, wd, budget=40):
    """drop ops after the failing one, then try to drop earlier ops one at a time (keeping the first op of each slot)"""
    ops = case["ops"][:failing_op + 1]
    best = dict(case, ops=ops)
    tries = 3 if key.get("kind") in ("fixupL_order", "user_workspace_thread_overlap") else 1
    if not still_fails(exe, drv, best, key, wd, tries):
        return case
    i = len(ops) - 2
    while i >= 1 and budget > 0:
        cand = dict(best, ops=best["ops"][:i] + best["ops"][i + 1:])
        budget -= 1
        if still_fails(exe, drv, cand, key, wd, tries):
            best = cand
        i -= 1
    return best


# ----------------------------------------------------------------------------------------- run
def run(ctx):
    quick = ctx.quick()
    ctx.cov["rule"] = ("random op sequences (length <= %d) over {first factor, refactor(usepr yes/no, fresh or perturbed values), "
                       "solve with existing factors (trans N/T, 1-3 rhs), destroy + first again, refactor with a zero column, "
                       "refactor with pivot reuse although the old pivot of the first eliminated column is now exactly zero (thresholds 0, .1, 1), superlu_?QuerySpace, lwork=-1 query (must leave A, L, U, perm_r, perm_c, etree/colcnt_h/part_super_h as they were)} on one session; precision s/d/c/z, n in 1..%d, 7 pattern families with a "
                       "zero-free diagonal, threads 1-4 varying per call, system or user workspace, expert driver or "
                       "p?gstrf_init/p?gstrf/?gstrs per call, panel/relax/maxsuper/rowblk/colblk per session; plus 'twin' sequences "
                       "(two sessions on one pattern and precision, ASan build) and 'relax_change' sequences.  Every op is one "
                       "evaluation; an op is non-trivial when an oracle or a state comparison was applied to it." % ((12, 14) if quick else (60, 20)))
    ctx.cov["partial"] += [
        "numerical kernels are not modelled: outputs are free terms over the read-set (PersistModel.freads); their correctness is checked "
        "per call by exact-rational oracles, to be replaced by the Coq-extracted certificate checkers of C01/C02",
        "trans = CONJ is excluded (real ?gstrs and complex sp_?trsv reject it: defect family F3 of C07)",
        "pivot rule: magnitudes are integers and the threshold a rational in the model; the C code compares rounded products, so the "
        "correspondence asserts only outside a relative margin (1e-7 double, 1e-3 single)",
        "allocation failure of the system allocator and the worker early-return path (F7) are not explored here (C14)",
        "p?gstrf_bmod2D caches sp_ienv(3),(4) in function statics: harmless only if sp_ienv is constant during the process (assumed)",
    ]
    ctx.assumptions += ["sp_ienv(3) and sp_ienv(4) do not change during the life of the process (library default: compiled-in constants)",
                        "user work buffers are 8-byte aligned (malloc)",
                        "byte counts returned through float stay below 2^24 in the K-exact comparison (small cases), so binary32 is exact"]
    ctx.cov["trusted_base"] += ["harness/persist_harness.c (hand-declared prototypes of the s/c/z entry points; --wrap=fixupL observer)",
                                "tools/persist_lib.py: exact oracles in python Fractions, transcription of ?PresetMap / pxgstrf_relax_snode used "
                                "to compute the model input fa_preset, translation of op sequences to model input"]
    proofs_ok = ctx.coq_properties()
    exe = build(ctx, "hooks")
    exe_asan = build(ctx, "asan")
    drv = ctx.ocaml_model("persist")
    wd = ctx.bdir

    jobs = []
    # corpus first
    for f in sorted(glob.glob(os.path.join(vf.VERIF, "corpus", "C08", "*.json"))):
        j = json.load(open(f))
        jobs.append((exe_asan if j.get("asan") else exe, drv, j["case"], wd, "corpus_" + os.path.basename(f)[:-5], True))
    ncases = 2500 if quick else 16000
    for k in range(ncases):
        if quick:
            L, nmax = ctx.rng.choice([4, 8, 8, 12]), ctx.rng.choice([8, 12, 14])
        else:
            L, nmax = ctx.rng.choice([6, 12, 12, 24, 60]), ctx.rng.choice([8, 12, 16, 20])
        case = pl.gen_c08_case(ctx.rng, L, nmax)
        case["meta"]["stream"] = "single"
        jobs.append((exe, drv, pl.case_to_json(case), wd, "g%d" % k, True))
    for k in range(150 if quick else 1000):
        jobs.append((exe_asan, drv, pl.case_to_json(gen_twin_case(ctx.rng, 10 if quick else 14)), wd, "t%d" % k, True))
    for k in range(20 if quick else 200):
        jobs.append((exe_asan, drv, pl.case_to_json(gen_relax_case(ctx.rng, 12)), wd, "r%d" % k, True))
    nz = 0
    for k in range(60 if quick else 500):
        zc = gen_zero_pivot_case(ctx.rng, exe, wd, 10 if quick else 16, "z%d" % k)
        if zc is not None:
            nz += 1
            jobs.append((exe, drv, pl.case_to_json(zc), wd, "z%d" % k, True))
    ctx.corr("zero_old_pivot_histories", nz)
    for k in range(100 if quick else 800):      # the single-session stream once more under ASan (stale pointers do not always crash)
        case = pl.gen_c08_case(ctx.rng, 8, 10)
        case["meta"]["stream"] = "single_asan"
        jobs.append((exe_asan, drv, pl.case_to_json(case), wd, "a%d" % k, True))

    # the dynamic supernode-storage scheme (SuperLU_DYNAMIC_SNODE_STORE set): only the relaxed supernodes are pre-set and lusup[] cannot
    # grow, so a re-factorization whose pivots differ may legitimately stop with the library's diagnostic.  One whose values AND pivot
    # rows are those of the first factorization (usepr = YES, same A) needs exactly the storage the first one used: the capacity of
    # lusup[] recorded in the persistent Glu must survive.  One thread, system workspace, oracles only (the ?PresetMap model used for
    # the K-exact comparison is the static one)
    for k in range(60 if quick else 400):
        case = pl.gen_c08_case(ctx.rng, 2, 14)
        f0 = next((o for o in case["ops"] if o["op"] == "first"), None)
        if f0 is None or case["ops"][0] is not f0:
            continue
        f0["nprocs"] = 1; f0["lwork"] = 0
        rf = dict(f0, op="refact", usepr=1); rf.pop("permc", None)
        sv = dict(op="solve", slot=f0["slot"], api=f0["api"] if f0["api"] != 2 else 0, nprocs=1, trans=0, nrhs=f0["nrhs"], rhs=f0["rhs"])
        case["ops"] = [f0, rf, dict(rf), sv]
        case["meta"]["stream"] = "dynamic_same_refact"; case["meta"]["user"] = False; case["meta"]["env"] = {"SuperLU_DYNAMIC_SNODE_STORE": "1"}
        jobs.append((exe, drv, pl.case_to_json(case), wd, "d%d" % k, False))

    t0 = time.time()
    with Pool(min(vf.NCPU, 16)) as pool:
        results = pool.map(eval_case, jobs, chunksize=4)
    ctx.log("ran %d cases in %.1fs" % (len(jobs), time.time() - t0))

    by_key = {}
    tot = {}
    mm_all = []
    for job, r in zip(jobs, results):
        cj = job[2]; meta = cj.get("meta", {})
        kind = "%s/%s/%s/%s" % (meta.get("stream", "corpus"), meta.get("prec", "?"), meta.get("kind", "?"), "user" if meta.get("user") else "system")
        for i in range(r["nres"]):
            ctx.count((r["tag"], i), nontrivial=True, kind=None)
        ctx.cov["histogram"][kind] = ctx.cov["histogram"].get(kind, 0) + 1
        for o in cj["ops"][:r["nres"]]:
            hk = "op:" + o["op"] + (":usepr" if o.get("usepr") else "")
            ctx.cov["histogram"][hk] = ctx.cov["histogram"].get(hk, 0) + 1
        for k, v in r["stats"].items(): tot[k] = tot.get(k, 0) + v
        if len(ctx.cov["samples"]) < 3 and r["nres"] >= 3 and not r["fails"]:
            ctx.sample({"meta": meta, "ops": [{k: v for k, v in o.items() if k not in ("vals", "rhs")} for o in cj["ops"][:6]]})
        for f in r["fails"]:
            ks = json.dumps(f["key"], sort_keys=True)
            by_key.setdefault(ks, []).append((job, r, f))
        for op, t in r["mm"]:
            mm_all.append((job, r, op, t))
    for k, v in tot.items(): ctx.corr(k, v)
    ctx.cov["traces_validated_against_impl"] = tot.get("state_records_compared", 0)

    # violations found by the property's own oracles on the implementation
    for ks, lst in by_key.items():
        key = json.loads(ks)
        job, r, f = min(lst, key=lambda x: (x[0][2]["ops"].__len__(), x[2]["op"]))
        case = pl.case_from_json(job[2])
        small = shrink(job[0], drv, case, key, f["op"], wd) if key.get("kind") not in ("fixupL_order", "user_workspace_thread_overlap") \
            else dict(case, ops=case["ops"][:f["op"] + 1])
        rep = {"case": pl.case_to_json(small), "asan": job[0] == exe_asan, "key": key, "what": f["what"], "occurrences": len(lst)}
        ctx.violation("%s  [%d occurrence(s)]" % (f["what"][:700], len(lst)), rep, key=key, found_input=True)

    # model / implementation disagreements: the property oracle already ran on these inputs (above)
    if mm_all:
        failing_tags = set(r["tag"] for lst in by_key.values() for (_, r, _) in lst)
        silent = [(job, r, op, t) for (job, r, op, t) in mm_all if r["tag"] not in failing_tags]
        ctx.log("model/implementation disagreements: %d (%d on inputs whose oracles pass)" % (len(mm_all), len(silent)))
        for job, r, op, t in mm_all[:5]:
            ctx.log("   %s op %d: %s" % (r["tag"], op, t))
        job, r, op, t = (silent or mm_all)[0]
        p = ctx.replay_path("corr")
        json.dump({"property": "C08", "kind": "correspondence", "case": job[2], "op": op, "text": t}, open(p, "w"), indent=1)
        ctx.broken.append("correspondence persist K-exact (PersistModel.step vs p?memory.c/p?gstrf_thread_init.c): %s [case %s op %d; %d more; %s]"
                          % (t, r["tag"], op, len(mm_all) - 1, p))
    # vf.Ctx.finish() prints the "no-failing-input-found" line only when no violation with an input exists; the findings of the
    # unchanged tree must not hide a broken proof or a broken correspondence
    if ctx.broken and any(v["found"] for v in ctx.violations):
        ctx.violation("proof obligation or correspondence no longer checks: %s" % "; ".join(ctx.broken)[:1500],
                      {"kind": "obligation", "broken": list(ctx.broken)}, key={"kind": "obligation"}, found_input=False)
    return 0


def replay(ctx, obj):
    rep = obj.get("replay", obj)
    if rep.get("kind") == "obligation":
        ok = ctx.coq_properties()
        if not ok:
            ctx.violation("proof obligation no longer checks: %s" % "; ".join(ctx.broken)[:800], rep, found_input=False)
            return 1
        return 0
    exe = build(ctx, "asan" if rep.get("asan") else "hooks")
    drv = ctx.ocaml_model("persist")
    key = rep.get("key", {})
    tries = 400 if key.get("kind") in ("fixupL_order", "user_workspace_thread_overlap") else 1
    for t in range(tries):
        r = eval_case((exe, drv, rep["case"], ctx.bdir, "replay", True))
        hit = [f for f in r["fails"] if f["key"] == key] or ([] if key else r["fails"])
        if hit:
            return 1 if ctx.violation(hit[0]["what"][:700], rep, key=key, found_input=True) else 0
    return 0
