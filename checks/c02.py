"""C02 -- Pr*A*Pc = L*U up to gamma(n)|L||U|, multipliers bounded by the pivot threshold, diagonal preference."""
import json, time, itertools
from fractions import Fraction
import vf, drv, gen, lu, cert

MANIFEST = {
    "text": "Coq theorems (Properties_C02.v): the pivot rule of p?gstrf_pivotL as a pure function -- chosen pivot is nonzero and "
            "meets the threshold, every multiplier is bounded by 1/u, the diagonal is preferred when admissible, old pivots are "
            "kept iff admissible (closed under the global context, all candidate lists); and the rounding-error theorem "
            "lu_backward: any factors related to A by the relational LU specification (every entry a rounded evaluation, in ANY "
            "summation order, with reciprocal scaling) satisfy |PrAPc - LU| <= gamma(n)|L||U| (Reals + Flocq rounding). Tie: "
            "every pivot search of every thread of real runs (hook) is replayed through the extracted pivot model; the "
            "conclusion of the theorem is decided EXACTLY (integer arithmetic on the IEEE values) on the factors returned by "
            "the real code for a sweep of thresholds, panel sizes, relaxation, supernode sizes, 1-D/2-D blocking cut-offs, "
            "vendor-BLAS and built-in kernel code paths, thread counts and seeded schedule perturbation.",
    "note": "The pivot search and pivot policy of p?gstrf_pivotL are RE-TRANSLATED from the current source on every run (tools/c2gal.py over the clang AST -> coq/PivotGen.v, four precisions, general nsupc) and proved equal to the hand-written model pivotL (PivotTie.v: loop induction + per-precision body lemmas; c02_source_pivot_is_model and the threshold / multiplier / singular theorems restated for the source); the routine prefix (nsupc, nsupr, the candidate rows and magnitudes) and thresh = u*pivmax are inputs of the translated slice.  The blocked numeric kernels are not modelled line by line: they are covered by the 'any summation order' "
            "quantification of the theorem plus the exact certificate on sampled inputs. FLX (no overflow/underflow) rounding "
            "model. Trusted: Coq kernel, Reals/Flocq axioms listed in the evidence, extraction, hooks, python integer certificate.",
    "technique": "Coq proof (pivot rule, proved equal to a translation of the C source regenerated on every run; backward error of relational LU, any summation order) + exact certificate and pivot-replay correspondence",
}

UPOW = {"d": 53, "s": 24, "z": 53, "c": 24}


def A_dict(c):
    A = {}
    for j in range(c["n"]):
        for p in range(c["colptr"][j], c["colptr"][j + 1]):
            A[(c["rowind"][p], j)] = c["vals"][p]
    return A


def pivot_lines(r, prec="d"):
    """model input lines for every pivot record of a result; returns (lines, expected)"""
    import math
    lines, exp = [], []
    for rec in r.get("pivots", []):
        vals = [float.fromhex(x) for x in rec["vals"]]
        mags = [abs(v) for v in vals]
        thr = float.fromhex(rec["thresh"])
        if not all(math.isfinite(v) for v in mags + [thr]):
            exp.append((None, None, None, rec))      # the records before it are still replayed; see replay_pivots
            break
        sing = rec["usepr_out"] == -1
        allv = mags + ([thr] if not sing else [])
        ints, _ = cert.to_scaled_ints(allv)
        mi = ints[:len(mags)]
        ti = ints[len(mags)] if not sing else 0
        toks = [str(rec["usepr"]), str(rec["old"]), str(rec["diag"]), bin(ti)[2:], str(len(mags))]
        for row, m in zip(rec["rows"], mi):
            toks += [str(row), bin(m)[2:]]
        lines.append(" ".join(toks))
        exp.append((rec["piv"], 0 if sing else rec["usepr_out"], 1 if sing else 0, rec))
    return lines, exp


def replay_pivots(ctx, pdrv, c, r):
    lines, exp = pivot_lines(r)
    nonfin = None
    if exp and exp[-1][0] is None:
        nonfin = "pivot search of column %d saw a non-finite candidate value" % exp[-1][3]["j"]
        exp = exp[:-1]
    if not lines:
        return nonfin, 0
    rc, out, err = vf.sh2([pdrv], inp="\n".join(lines) + "\n", timeout=600)
    got = [l.split() for l in out.strip().split("\n")] if out.strip() else []
    if rc != 0 or len(got) != len(exp):
        return "pivot model driver failed (%d lines for %d records) %s" % (len(got), len(exp), err[-200:]), 0
    u = c.get("thresh", 1.0)
    for g, (piv, usepr_out, sing, rec) in zip(got, exp):
        ptr, row, up, sg = int(g[0]), int(g[1]), int(g[2]), int(g[3])
        if not sing and sg == sing and c.get("nprocs", 1) > 1 and rec["usepr"] == 1 and usepr_out == 0 and up == 1:
            # options->usepr is ONE flag shared by all workers: another worker may drop pivot reuse between this worker's entry into
            # the search (where the hook read the flag) and its decision.  The implementation then decides as without reuse, which
            # the property allows (the old pivot is only tried); the model must agree with THAT decision.
            alt = lines[got.index(g)].split(); alt[0] = "0"
            rc2, out2, _ = vf.sh2([pdrv], inp=" ".join(alt) + "\n", timeout=60)
            g2 = out2.split()
            if rc2 == 0 and len(g2) >= 4 and int(g2[1]) == piv and int(g2[2]) == 0 and int(g2[3]) == 0:
                continue
        if sg != sing or (not sing and (row != piv or up != usepr_out)):
            return ("pivot search of column %d: implementation chose row %d (usepr %d, singular %d), model chose row %d "
                    "(usepr %d, singular %d)" % (rec["j"], piv, usepr_out, sing, row, up, sg)), 0
        if not sing:
            mags = [abs(float.fromhex(x)) for x in rec["vals"]]
            if float.fromhex(rec["thresh"]) != u * max(mags):
                return "column %d: thresh %s is not u*pivmax = %r" % (rec["j"], rec["thresh"], u * max(mags)), 0
    return nonfin, len(exp)


def oracle(c, r, prec="d", k_gamma=None):
    """the property's own oracle on the implementation's outputs; None = holds"""
    if r.get("timeout") or r.get("crash") is not None or r.get("missing") or r.get("parse_error"):
        return "run failed: %s" % {k: r.get(k) for k in ("timeout", "crash", "stderr", "parse_error")}
    if r["info"] != 0:
        return None     # C02 speaks about info = 0 only
    n = c["n"]
    if sorted(r["perm_r"]) != list(range(n)) or sorted(r["perm_c"]) != list(range(n)):
        return "perm_r / perm_c is not a permutation"
    try:
        L, U = lu.dense_LU(r)
    except (ValueError, IndexError, KeyError) as e:
        return "malformed L/U structure: %s" % e
    return cert.check_lu(n, A_dict(c), r["perm_r"], r["perm_c"], L, U, UPOW[prec], k_gamma=k_gamma, thresh_u=c.get("thresh", 1.0))


def ienv_choice(rng, k):
    """tuning parameters; relax <= maxsuper except for one case in 30 (configuration finding F13: the library silently
    produces wrong factors when a relaxed supernode may exceed maxsuper)"""
    w = rng.choice([1, 2, 3, 4, 8, 20]); relax = rng.choice([1, 2, 3, 4, 6, 20]); ms = rng.choice([1, 2, 4, 8, 200])
    if k % 30 != 7:
        ms = max(ms, relax)
    return [w, relax, ms, rng.choice([1, 2, 4, 200]), rng.choice([1, 2, 4, 100]), -50, -50, -30]


def vkey(c, bad):
    if c.get("ienv") and c["ienv"][1] > c["ienv"][2]:
        return {"kind": "config", "class": "relax_gt_maxsuper"}
    return {"kind": "lu_cert", "what": bad[:30]}


def gen_cases(ctx):
    rng = ctx.rng
    out, cid = [], 0
    kinds = ["random", "randomzd", "banded", "grid", "blockdiag", "arrow", "chain", "dense", "diagdom", "star"]
    N = 90 if ctx.quick() else 1200
    for k in range(N):
        kind = kinds[k % len(kinds)]
        n = rng.randint(1, 36 if ctx.quick() else 90)
        A = gen.matrix(rng, kind, n)
        cid += 1
        out.append(dict(id=cid, driver="gstrf", m=A["n"], n=A["n"], colptr=A["colptr"], rowind=A["rowind"], vals=A["vals"],
                        nrhs=0, rhs=[], nprocs=rng.choice([1, 2, 3, 4, 8]), colperm=rng.choice([0, 1, 2, 3]),
                        ienv=ienv_choice(rng, k),
                        thresh=rng.choice([1.0, 1.0, 0.5, 0.1, 0.01, 0.0]),
                        perturb=[rng.randint(1, 10 ** 6), rng.choice([0.0, 0.1, 0.4]), rng.choice([0, 50, 200])],
                        trace=2, dumplu=1, timeout=90, kind=kind))
    # pivot reuse requested on larger matrices with a positive threshold: the requested row is kept only if it passes u*max
    for k in range(N // 4):
        kind = kinds[k % len(kinds)]
        A = gen.matrix(rng, kind, rng.randint(3, 30 if ctx.quick() else 80))
        pr = list(range(A["n"]))
        for _ in range(rng.randint(0, 3)):        # the identity, or a few transpositions away from it
            a, b = rng.randrange(A["n"]), rng.randrange(A["n"]); pr[a], pr[b] = pr[b], pr[a]
        cid += 1
        out.append(dict(id=cid, driver="gstrf", m=A["n"], n=A["n"], colptr=A["colptr"], rowind=A["rowind"], vals=A["vals"],
                        nrhs=0, rhs=[], nprocs=rng.choice([1, 2, 4]), colperm=0, usepr=1, permr=pr, ienv=ienv_choice(rng, k),
                        thresh=rng.choice([1.0, 0.5, 0.1]), perturb=[rng.randint(1, 10 ** 6), rng.choice([0.0, 0.2]), rng.choice([0, 100])],
                        trace=2, dumplu=1, timeout=90, kind="usepr-" + kind))
    return out


def inpanel_cases(ctx, start_id):
    """the updates INSIDE a panel (p?gstrf_column_bmod): a supernode of b >= 5 columns that lies inside one panel and a later
    column of the same panel whose U-segment in it has length >= 4 and starts s >= 1 columns after the supernode's first
    column (the 'sup-col' branch with a partial segment; segments of length 1..3 take the unrolled branches).  Panels are
    halved for the last 12*panel_size columns (SPLIT_TOP), so panel_size 16..24 is used to get 8..12 columns per panel.
    Diagonally dominant values, natural order: the pivots stay on the diagonal and the pattern is the one built here."""
    rng = ctx.rng
    out, cid = [], start_id
    for rep in range(10 if ctx.quick() else 80):
        w = rng.choice([16, 20, 24]); half = w // 2
        b = rng.randint(5, half - 2)                 # columns of the in-panel supernode
        k0 = rng.choice([0, 0, 1, 2]) if b + 3 <= half else 0
        seglen = rng.randint(4, b - 1) if b > 4 else 4
        s_ = b - seglen                              # the segment starts s_ columns after the supernode's first column
        ntail = rng.randint(2, 6)
        n = half + rng.randint(0, half) + ntail
        ent = {}
        low = sorted(rng.sample(range(half, n), min(n - half, rng.randint(1, 4))))     # rows below the panel shared by the supernode
        for j in range(k0, k0 + b):
            for i in range(k0, k0 + b):
                ent[(i, j)] = gen.val(rng)
            for i in low:
                ent[(i, j)] = gen.val(rng)
        jc = k0 + b + rng.randint(0, max(0, half - (k0 + b) - 1))                        # a later column of the same panel
        for i in range(k0 + s_, k0 + b):
            ent[(i, jc)] = gen.val(rng)
        for i in low:
            ent[(i, jc)] = gen.val(rng)
        for j in range(n):
            if rng.random() < 0.3 and j + 1 < n:
                ent.setdefault((j + 1, j), gen.val(rng))
        cs = {}
        for (i, j), v in ent.items():
            if i != j:
                cs[j] = cs.get(j, 0.0) + abs(v)
        for j in range(n):
            ent[(j, j)] = (cs.get(j, 0.0) * 2 + 1.0) * rng.choice([1, -1])
        A = gen.from_entries(n, ent, "inpanel")
        cid += 1
        out.append(dict(id=cid, driver="gstrf", m=n, n=n, colptr=A["colptr"], rowind=A["rowind"], vals=A["vals"], nrhs=0, rhs=[],
                        nprocs=rng.choice([1, 2, 4]), colperm=0, ienv=[w, 1, max(b, rng.choice([8, 200])), 200, 100, -50, -50, -30],
                        thresh=rng.choice([1.0, 0.1, 0.0]), perturb=[rng.randint(1, 10 ** 6), rng.choice([0.0, 0.2]), rng.choice([0, 100])],
                        trace=2, dumplu=1, timeout=90, kind="inpanel"))
    return out


def forced_pivot_cases(ctx, start_id):
    """all 0/1 patterns with n <= 3 (thorough: sample of n = 4) under every forced pivot order (usepr, u = 0)"""
    rng = ctx.rng
    out, cid = [], start_id
    sizes = [1, 2, 3]
    for n in sizes + ([4] if not ctx.quick() else []):
        pats = list(range(1, 1 << (n * n)))
        if n == 3 and ctx.quick():
            pats = rng.sample(pats, 120)
        if n == 4:
            pats = rng.sample(pats, 1500)
        for pat in pats:
            ent = {}
            for i in range(n):
                for j in range(n):
                    if (pat >> (i * n + j)) & 1:
                        ent[(i, j)] = rng.choice([1.0, 2.0, 3.0, 5.0, 7.0, -1.5, 0.75, -4.0])
            if not any(all((p[j], j) in ent for j in range(n)) for p in itertools.permutations(range(n))):
                continue    # structurally singular pattern: info > 0, the domain of C06
            A = gen.from_entries(n, ent, "pattern")
            for pr in (itertools.permutations(range(n)) if n <= 3 else [tuple(rng.sample(range(n), n)) for _ in range(2)]):
                cid += 1
                out.append(dict(id=cid, driver="gstrf", m=n, n=n, colptr=A["colptr"], rowind=A["rowind"], vals=A["vals"], nrhs=0,
                                rhs=[], nprocs=rng.choice([1, 2]), colperm=0, usepr=1, permr=list(pr),
                                thresh=rng.choice([0.0, 0.0, 0.1, 0.5, 1.0]),     # u > 0: a requested row below u*max must be dropped
                                ienv=[rng.choice([1, 2]), rng.choice([1, 2]), 2, 1, 1, -50, -50, -30], trace=2, dumplu=1,
                                timeout=30, kind="forced-n%d" % n))
    return out


def run_cases(exe, cases, par):
    return drv.run_grouped(exe, cases, par=par)


def run(ctx):
    ctx.cov["rule"] = ("structured matrices (10 kinds, n<=36 quick / 90 thorough) x thresholds {1,.5,.1,.01,0} x panel/relax/"
                       "maxsuper/rowblk/colblk sweeps x nprocs 1..8 x orderings 0..3 x seeded perturbation, built-in and vendor-BLAS "
                       "code paths; all 0/1 patterns n<=2 (sample n=3; thorough n=4 sample) under every forced pivot order; "
                       "non-trivial = n>=3 and not diagonal; distinct by matrix+parameter hash")
    ctx.coq_properties()
    pdrv = ctx.ocaml_model("pivot")
    cases = gen_cases(ctx)
    cases += inpanel_cases(ctx, len(cases))
    cases += forced_pivot_cases(ctx, len(cases))
    npiv = 0
    ncert = 0
    for flavor in ("hooks", "vendor"):
        exe = drv.build(ctx, "d", flavor)
        sub = cases if flavor == "hooks" else [c for c in cases if c["id"] % 3 == 0]
        res = run_cases(exe, sub, max(1, vf.NCPU // 3))
        for c, r in zip(sub, res):
            nontriv = c["n"] >= 3 and len(c["rowind"]) > c["n"]
            ctx.count((flavor, c["kind"], c["n"], tuple(c["rowind"][:40]), tuple(c["vals"][:8]), c["nprocs"], c.get("thresh"), tuple(c.get("permr") or [])),
                      nontrivial=nontriv, kind="%s-%s" % (flavor, c["kind"]))
            bad = oracle(c, r)
            if bad is None and r.get("info") == 0:
                ncert += 1
            if bad is None:
                pb, k = replay_pivots(ctx, pdrv, c, r)
                npiv += k
                if pb and "non-finite" in pb and r.get("info") != 0:
                    pb = None       # Inf/NaN after a reported zero pivot are legitimate (C06's domain)
                if pb:
                    # a pivot decision differs from the model: is the property itself broken on this input?
                    ctx.broken.append("correspondence pivot replay: " + pb)
                    rec_ok = None
                    bad = "pivot rule: " + pb
            if bad:
                ctx.violation("C02 certificate on implementation output (%s build): %s" % (flavor, bad),
                              {"flavor": flavor, "case": c, "result": {k: v for k, v in r.items() if k not in ("pivots", "L", "U")}},
                              key=vkey(c, bad))
    ctx.cov["correspondence"]["pivot_searches_replayed"] = npiv
    ctx.cov["correspondence"]["exact_certificates_passed"] = ncert
    ctx.sample({k: cases[0][k] for k in ("kind", "n", "nprocs", "colperm", "ienv", "thresh", "perturb")})
    ctx.log("certificates: %d, pivot searches replayed: %d" % (ncert, npiv))
    ctx.cov["partial"] += ["blocked kernels bmod1D/2D, column_bmod, snode_bmod are covered by the any-order theorem + exact certificate, "
                           "not modelled line by line", "single/complex precision certificates use the same integer oracle with u=2^-24 "
                           "(complex: relaxed constant) -- see C01"]
    ctx.cov["trusted_base"] += ["python integer certificate lib/cert.py", "Reals/Flocq axioms as printed under assumptions_printed"]


def replay(ctx, obj):
    rp = obj.get("replay", obj)
    c = rp["case"]
    exe = drv.build(ctx, "d", rp.get("flavor", "hooks"))
    pdrv = ctx.ocaml_model("pivot")
    for i in range(20):
        r = drv.run_batch(exe, [c])[0]
        bad = oracle(c, r)
        if bad is None:
            bad, _ = replay_pivots(ctx, pdrv, c, r)
        if bad:
            ctx.violation("C02 certificate: " + bad, {"flavor": rp.get("flavor", "hooks"), "case": c}, key={"kind": "lu_cert", "what": bad[:30]})
            return 1
    return 0
