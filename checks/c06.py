"""C06 -- singular matrices are reported through info, never by crash or corruption."""
import json, struct
from fractions import Fraction
import vf, drv, gen
from checks import c01

MANIFEST = {
    "text": "Coq theorems (Properties_C06.v, closed under the global context): a column is reported exactly when all its "
            "candidate pivots are exactly zero; in that case no subscript outside the column's list is touched (the diagonal "
            "row is recorded for a column without candidates); the info returned by the factorization is the smallest nonzero "
            "per-column info for EVERY distribution of the columns over the workers and every processing order (schedule "
            "independence); and (over the reals, ElimRank.v) WHICH column is met first does not depend on the pivot choices: for any "
            "admissible row pivoting the next column has all candidates zero iff that column of A*Pc is a linear combination of "
            "the earlier ones, the eliminated prefix is independent, so the reported position is the least linearly dependent "
            "column -- the same for every threshold, tie-break, forced row order and schedule. Tie: InfoModel.gstrf_info (extracted) is fed with the per-worker sequences of pivot-search outcomes of "
            "every real run (hook, worker number) and must give the returned info, including runs in which a worker meets a later "
            "singular column before an earlier one (counted in the evidence); the pivot model is replayed on every pivot search of real runs (shared with C02); the real "
            "drivers p?gssv / p?gssvx (s/d/c/z, ASan build, 1..8 threads, seeded perturbation) are run on explicit zero columns, "
            "structurally empty columns/rows, structurally rank-deficient patterns, relaxed supernodes with fewer rows than "
            "columns and exact cancellation; info is compared with an exact rational elimination of A*Pc, B/X/A with pristine "
            "copies, and L, U are destroyed under ASan.",
    "note": "generic_first_deficient (info = first prefix with structural rank < k) is decided per input by the exact oracle, "
            "not proved (the numerical-rank characterisation is: c06_first_zero_column_is_least_dependent; it is what makes the "
            "oracle's own pivot choices irrelevant). Crashes of the unchanged code on structurally singular inputs (finding F22) are keyed by HOW the run dies, so another way of dying on such an input is reported. Only an exactly zero pivot column counts: subnormal columns with finite reciprocals before the zero column (tinycol, s and d). Trusted: Coq kernel, extraction, hooks, python exact oracle, AddressSanitizer.",
    "technique": "Coq proof (pivot rule singular branch, min-combination of per-thread info) + exact-rational oracle on real driver runs under ASan",
}


def first_dependent_column(n, cols):
    """cols: list (in A*Pc order) of dict row->Fraction/complex-pair.  Returns the 1-based index of the first column whose
    entries on the not-yet-pivoted rows are all exactly zero after exact elimination, or 0."""
    pivrow_of = []            # (row, reduced column dict) per processed column
    used = set()
    basis = []                # list of (pivot row, column dict normalised)
    for k, col in enumerate(cols):
        v = dict(col)
        for (pr, bcol) in basis:
            if pr in v and v[pr] != 0:
                f = v[pr] / bcol[pr]
                for r, x in bcol.items():
                    nv = v.get(r, 0) - f * x
                    if nv == 0:
                        v.pop(r, None)
                    else:
                        v[r] = nv
        cand = [r for r, x in v.items() if r not in used and x != 0]
        if not cand:
            return k + 1
        pr = cand[0]
        used.add(pr)
        basis.append((pr, v))
    return 0


def singular_case(rng, cid, prec, n, sub):
    ncomp = 2 if prec in "cz" else 1
    rnd = c01.f32 if prec in "sc" else (lambda v: v)
    base = gen.matrix(rng, rng.choice(["blockdiag", "blockdiag", "grid", "random"] if sub == "multizero" else ["random", "banded", "blockdiag", "arrow"]), n)
    n = base["n"]
    ent = {}
    for j in range(n):
        for p in range(base["colptr"][j], base["colptr"][j + 1]):
            ent[(base["rowind"][p], j)] = base["vals"][p]
    k = rng.randrange(n)
    if sub == "zerocol":
        for key in list(ent):
            if key[1] == k:
                ent[key] = 0.0
    elif sub == "emptycol":
        for key in list(ent):
            if key[1] == k:
                del ent[key]
    elif sub == "emptyrow":
        for key in list(ent):
            if key[0] == k:
                del ent[key]
    elif sub == "multizero":
        # several explicit zero columns: with >= 2 workers a worker can meet a LATER singular column before an earlier one
        for kk in rng.sample(range(n), min(n, rng.choice([2, 3, 4]))):
            for key in list(ent):
                if key[1] == kk:
                    ent[key] = 0.0
    elif sub == "zerorow":
        for key in list(ent):
            if key[0] == k:
                ent[key] = 0.0
    elif sub == "structdef":
        # three columns whose nonzeros lie in two rows
        if n >= 4:
            cs = rng.sample(range(n), 3); rs = rng.sample(range(n), 2)
            for c in cs:
                for key in list(ent):
                    if key[1] == c:
                        del ent[key]
                for r in rs:
                    if rng.random() < 0.8 or r == rs[0]:
                        ent[(r, c)] = gen.val(rng)
    elif sub == "cancel":
        ent = {(j, j): 2.0 for j in range(n)}
        if n >= 2:
            a, b = rng.sample(range(n), 2)
            ent[(a, a)] = 1.0; ent[(a, b)] = 1.0; ent[(b, a)] = 1.0; ent[(b, b)] = 1.0
    elif sub == "relaxdef":
        # the first columns form a relaxed supernode (chain) that has fewer rows than columns
        if n >= 5:
            for c in range(3):
                for key in list(ent):
                    if key[1] == c:
                        del ent[key]
                ent[(0, c)] = gen.val(rng); ent[(1, c)] = gen.val(rng)
    # threshold 0 with exactly zero diagonal entries (stored) in columns BEFORE the singular one: the diagonal is preferred only when
    # it is nonzero; a zero diagonal taken as pivot divides by zero and the NaN columns look singular too early
    zdiag = sub in ("zerocol", "cancel", "multizero") and rng.random() < 0.5
    if zdiag:
        for j in rng.sample(range(n), min(n, 3)):
            if (j, j) in ent and sum(1 for (i, jj), v in ent.items() if jj == j and i != j and v != 0) >= 1:
                ent[(j, j)] = 0.0
    # badly scaled AND singular without an empty row or column: the expert driver equilibrates (equed != NOEQUIL, B is scaled) before
    # it learns that the matrix is singular; X must still come back untouched.  Powers of two keep exact cancellations exact.
    scaled = sub in ("cancel", "structdef", "relaxdef") and rng.random() < 0.6
    if scaled:
        rs = [2.0 ** rng.randint(-12, 12) for _ in range(n)]; cs = [2.0 ** rng.randint(-12, 12) for _ in range(n)]
        ent = {(i, j): v * rs[i] * cs[j] for (i, j), v in ent.items()}
    A = gen.from_entries(n, ent, "singular-" + sub)
    vals = []
    for v in A["vals"]:
        vals += [rnd(v), rnd(gen.val(rng)) if v != 0 else 0.0] if ncomp == 2 else [rnd(v)]
    if scaled and ncomp == 2:
        # complex: the imaginary parts must follow the same scaling or the cancellation is lost
        vals = []
        for p_ in range(len(A["vals"])):
            v = A["vals"][p_]
            vals += [rnd(v), 0.0]
    nrhs = rng.choice([1, 2])
    rhs = [rnd(gen.val(rng)) for _ in range(n * nrhs * ncomp)]
    driver = "gssvx" if (scaled or zdiag) else rng.choice(["gssv", "gssvx"])
    thresh = 0.0 if zdiag else 1.0
    if sub == "multizero":
        return dict(id=cid, prec=prec, driver=driver, stype="NC", m=n, n=n, colptr=A["colptr"], rowind=A["rowind"], vals=vals,
                    nrhs=nrhs, rhs=rhs, nprocs=rng.choice([2, 3, 4, 8]), colperm=rng.choice([0, 1, 2, 3]),
                    ienv=[rng.choice([1, 2, 4]), rng.choice([1, 2, 4]), rng.choice([4, 8, 200]), 200, 100, -50, -50, -30],
                    perturb=[rng.randint(1, 10 ** 6), rng.choice([0.2, 0.5]), rng.choice([100, 400])],
                    fact=rng.choice([0, 1]), trans=0, dumplu=1, timeout=60, kind=sub, trace=2, thresh=thresh)
    return dict(id=cid, prec=prec, driver=driver, stype="NC", m=n, n=n, colptr=A["colptr"], rowind=A["rowind"], vals=vals,
                nrhs=nrhs, rhs=rhs, nprocs=rng.choice([1, 2, 4, 8]), colperm=rng.choice([0, 1, 2, 3]),
                ienv=[rng.choice([1, 2, 4, 8]), rng.choice([1, 2, 4, 6]), rng.choice([8, 200]), 200, 100, -50, -50, -30],
                perturb=[rng.randint(1, 10 ** 6), rng.choice([0.0, 0.2]), rng.choice([0, 100])],
                fact=1 if scaled else rng.choice([0, 1]), trans=0, dumplu=1, timeout=60, kind=sub, trace=2, thresh=thresh)


def thinsnode_case(rng, cid, prec):
    """a relaxed supernode of w columns supported on r <= w - 2 rows, in the middle of a block-diagonal matrix (banded nonsingular
    block, the thin block, diagonal block; natural order, relax >= w): the supernode's row list is shorter than its column count
    minus one -- the bookkeeping at the end of p?gstrf_factor_snode (subscripts kept for the pruned graph) works on an empty range"""
    ncomp = 2 if prec in "cz" else 1
    rnd = c01.f32 if prec in "sc" else (lambda v: v)
    a = rng.randint(2, 10); w = rng.randint(3, 6); r = rng.randint(1, w - 2); d = rng.randint(2, 8)
    n = a + w + d
    ent = {}
    for j in range(a):
        for i in range(max(0, j - 2), min(a, j + 3)):
            ent[(i, j)] = gen.val(rng) + (6.0 if i == j else 0.0)
    for j in range(a, a + w):
        for i in range(a, a + r):
            ent[(i, j)] = gen.val(rng)
    for j in range(a + w, n):
        ent[(j, j)] = gen.val(rng) + 2.0
    A = gen.from_entries(n, ent, "singular-thinsnode")
    vals = []
    for v in A["vals"]:
        vals += [rnd(v), rnd(gen.val(rng))] if ncomp == 2 else [rnd(v)]
    nrhs = rng.choice([1, 2])
    rhs = [rnd(gen.val(rng)) for _ in range(n * nrhs * ncomp)]
    return dict(id=cid, prec=prec, driver=rng.choice(["gssv", "gssvx"]), stype="NC", m=n, n=n, colptr=A["colptr"], rowind=A["rowind"], vals=vals,
                nrhs=nrhs, rhs=rhs, nprocs=rng.choice([1, 2, 4]), colperm=0,
                ienv=[rng.choice([1, 2, 4, 8]), rng.choice([w, w + 1, 8]), rng.choice([8, 200]), 200, 100, -50, -50, -30],
                perturb=[rng.randint(1, 10 ** 6), rng.choice([0.0, 0.2]), rng.choice([0, 100])],
                fact=rng.choice([0, 1]), trans=0, dumplu=1, timeout=60, kind="thinsnode", trace=2)


def snodezero_case(rng, cid, prec):
    """two or three exactly zero columns INSIDE ONE relaxed supernode (tridiagonal or block-tridiagonal matrix in natural
    order: the leaf chain of the first `relax` columns is one relaxed supernode), the first of them the globally first
    singular column: the supernode's own combination of its columns' info codes (p?gstrf_factor_snode) decides"""
    ncomp = 2 if prec in "cz" else 1
    rnd = c01.f32 if prec in "sc" else (lambda v: v)
    relax = rng.choice([4, 6, 8])
    n = rng.randint(relax + 2, relax + 12)
    ent = {}
    for j in range(n):
        ent[(j, j)] = 4.0 + rng.random()
        if j + 1 < n:
            ent[(j + 1, j)] = gen.val(rng); ent[(j, j + 1)] = gen.val(rng)
        if rng.random() < 0.3 and j + 2 < n:
            ent[(j + 2, j)] = gen.val(rng)
    zc = sorted(rng.sample(range(relax - 1), rng.choice([2, 2, 3])))
    if rng.random() < 0.4 and n > relax + 2:
        zc.append(rng.randrange(relax, n))       # and one more in a regular panel
    for kk in zc:
        for key in list(ent):
            if key[1] == kk:
                ent[key] = 0.0
    A = gen.from_entries(n, ent, "singular-snodezero")
    vals = []
    for v in A["vals"]:
        vals += [rnd(v), rnd(gen.val(rng)) if v != 0 else 0.0] if ncomp == 2 else [rnd(v)]
    nrhs = rng.choice([1, 2])
    return dict(id=cid, prec=prec, driver=rng.choice(["gssv", "gssvx"]), stype="NC", m=n, n=n, colptr=A["colptr"], rowind=A["rowind"],
                vals=vals, nrhs=nrhs, rhs=[rnd(gen.val(rng)) for _ in range(n * nrhs * ncomp)], nprocs=rng.choice([1, 2, 4]),
                colperm=0, ienv=[rng.choice([1, 2, 4]), relax, rng.choice([8, 200]), 200, 100, -50, -50, -30],
                perturb=[rng.randint(1, 10 ** 6), rng.choice([0.0, 0.2]), rng.choice([0, 100])],
                fact=rng.choice([0, 1]), trans=0, dumplu=1, timeout=60, kind="snodezero", trace=2)


def bigfirst_case(rng, cid, prec):
    """a big dense block first (relaxed leaf + pipelined interior panels, one interior column exactly zero), small blocks after it
    (some with a zero column), natural order, >= 2 workers, strong perturbation: the worker that drains the queue meets the LATER
    singular column first and the pipelined interior panel with the EARLIER one afterwards"""
    ncomp = 2 if prec in "cz" else 1
    rnd = c01.f32 if prec in "sc" else (lambda v: v)
    s1 = rng.randint(7, 14); relax = rng.choice([3, 4, 6]); w = rng.choice([1, 2, 3])
    blocks = [s1] + [rng.randint(2, 4) for _ in range(rng.randint(1, 3))]
    ent = {}; off = 0; zc = []
    for bi, sz in enumerate(blocks):
        for i in range(sz):
            for j in range(sz):
                if i == j or rng.random() < 0.9:
                    ent[(off + i, off + j)] = gen.val(rng)
        if bi == 0:
            zc.append(off + rng.randint(relax, sz - 1))
        elif bi == 1 or rng.random() < 0.5:
            zc.append(off + rng.randrange(sz))
        off += sz
    n = off
    for (i, j) in list(ent):
        if j in zc:
            ent[(i, j)] = 0.0
    A = gen.from_entries(n, ent, "singular-bigfirst")
    vals = []
    for v in A["vals"]:
        vals += [rnd(v), rnd(gen.val(rng)) if v != 0 else 0.0] if ncomp == 2 else [rnd(v)]
    rhs = [rnd(gen.val(rng)) for _ in range(n * ncomp)]
    return dict(id=cid, prec=prec, driver=rng.choice(["gssv", "gssvx"]), stype="NC", m=n, n=n, colptr=A["colptr"], rowind=A["rowind"],
                vals=vals, nrhs=1, rhs=rhs, nprocs=rng.choice([2, 2, 3, 4]), colperm=0,
                ienv=[w, relax, rng.choice([8, 200]), 200, 100, -50, -50, -30],
                perturb=[rng.randint(1, 10 ** 6), rng.choice([0.3, 0.6]), rng.choice([200, 1000])], fact=rng.choice([0, 1]), trans=0,
                dumplu=1, timeout=60, kind="bigfirst", trace=2)


def tinycol_case(rng, cid, prec):
    """what counts as singular: an EXACTLY zero pivot column, nothing else.  Lower bidiagonal matrix in natural order; an early
    column holds only subnormal, non-zero values whose reciprocal is still finite (the factorization of that column is clean), a
    later column is exactly zero (stored zeros or structurally empty): info must name the later one.  Real precisions."""
    rnd = c01.f32 if prec == "s" else (lambda v: v)
    n = rng.randint(7, 14); t = rng.randint(1, n - 4); z = rng.randint(t + 2, n - 1)
    dg, sb = (6e-39, 1e-39) if prec == "s" else (1.5e-308, 2e-309)
    ent = {}
    for j in range(n):
        ent[(j, j)] = gen.val(rng) * 8
        if j + 1 < n:
            ent[(j + 1, j)] = gen.val(rng) * 0.25
    ent[(t, t)] = dg * rng.choice([1, -1]); ent[(t + 1, t)] = sb
    empty = rng.random() < 0.5
    for key in list(ent):
        if key[1] == z:
            if empty: del ent[key]
            else: ent[key] = 0.0
    A = gen.from_entries(n, ent, "singular-tinycol")
    vals = [rnd(v) for v in A["vals"]]
    nrhs = rng.choice([1, 2])
    rhs = [rnd(gen.val(rng)) for _ in range(n * nrhs)]
    return dict(id=cid, prec=prec, driver=rng.choice(["gssv", "gssvx"]), stype="NC", m=n, n=n, colptr=A["colptr"], rowind=A["rowind"], vals=vals,
                nrhs=nrhs, rhs=rhs, nprocs=rng.choice([1, 2, 4]), colperm=0,
                ienv=[rng.choice([1, 2, 4]), rng.choice([1, 2, 4]), rng.choice([8, 200]), 200, 100, -50, -50, -30],
                perturb=None, fact=0, trans=0, dumplu=1, timeout=60, kind="tinycol", trace=2, thresh=1.0)


def expected_info(c, r):
    """exact oracle: elimination of A*Pc in the column order the driver used"""
    n = c["n"]; ncomp = 2 if c["prec"] in "cz" else 1
    vals = c["vals"]
    permc = r["perm_c"]
    inv = [0] * n
    for j in range(n):
        inv[permc[j]] = j
    cols = []
    for pos in range(n):
        j = inv[pos]
        col = {}
        for p in range(c["colptr"][j], c["colptr"][j + 1]):
            if ncomp == 2:
                re_, im = vals[2 * p], vals[2 * p + 1]
                if re_ != 0 or im != 0:
                    col[c["rowind"][p]] = complex(re_, im)
            else:
                if vals[p] != 0:
                    col[c["rowind"][p]] = Fraction(vals[p])
        cols.append(col)
    if ncomp == 2:
        # exact complex rational arithmetic through pairs is slow; complex cases only use structural/explicit-zero kinds,
        # for which the answer does not depend on the values: replace values by generic rationals
        import random
        rr = random.Random(7)
        cols = [{rw: Fraction(rr.randint(1, 10 ** 6), rr.randint(1, 10 ** 6)) for rw in col} for col in cols]
    return first_dependent_column(n, cols)


def late_with_stored_zeros(c, bad):
    """the deficiency was reported LATE (or not at all) on a matrix that stores exact zeros in columns that are not entirely zero"""
    import re
    m = re.match(r"STRUCT info = (\d+), expected (\d+)", bad)
    if not m or not (int(m.group(1)) == 0 or int(m.group(1)) > int(m.group(2))):
        return False
    ncomp = 2 if c["prec"] in "cz" else 1
    for j in range(c["n"]):
        vs = [tuple(c["vals"][ncomp * p: ncomp * p + ncomp]) for p in range(c["colptr"][j], c["colptr"][j + 1])]
        z = [all(x == 0 for x in v) for v in vs]
        if any(z) and not all(z):
            return True
    return False


def info_parts(r):
    """per worker, the infos (0 or column+1) of its pivot searches in its own order, as the hook logged them"""
    parts = {}
    for p in r.get("pivots", []):
        z = all(float.fromhex(v) == 0.0 for v in p["vals"])
        parts.setdefault(p.get("pn", 0), []).append(p["j"] + 1 if z else 0)
    return [parts[k] for k in sorted(parts)]


def out_of_order(parts):
    """a worker met a singular column AFTER a later-numbered singular column (the case in which 'first' and 'smallest' differ)"""
    for pl in parts:
        nz = [x for x in pl if x]
        if any(b < a for a, b in zip(nz, nz[1:])):
            return True
    return False


def oracle(c, r):
    n = c["n"]
    if r.get("timeout") or r.get("crash") is not None or r.get("missing") or r.get("parse_error"):
        return "run failed at %s: %s" % ("timeout" if r.get("timeout") else r.get("site", "?"), {k: r.get(k) for k in ("timeout", "crash", "stderr", "parse_error")})
    if sorted(r["perm_c"]) != list(range(n)):
        return "perm_c is not a permutation"
    # (1) the info returned must be 1 + the first column whose candidates, AS THE IMPLEMENTATION SAW THEM, were all exactly zero
    sing = [p["j"] for p in r.get("pivots", []) if all(float.fromhex(v) == 0.0 for v in p["vals"])]
    seen = (min(sing) + 1) if sing else 0
    if r.get("hooks") and r["info"] != seen and r["info"] <= n:
        return "info = %d but the first column with all-zero candidate pivots in this run was %d" % (r["info"], seen)
    # (2) generic values: that column is the first prefix of A*Pc with structural rank deficiency (exact elimination)
    exp = expected_info(c, r)
    if exp == 0:
        return None          # not singular after all (generator produced a nonsingular matrix): nothing more to check here
    if r["info"] != exp:
        return "STRUCT info = %d, expected %d (first k such that the first k columns of A*Pc are rank deficient in exact arithmetic)" % (r["info"], exp)
    if not r["A_unchanged"] and c["driver"] == "gssv":
        return "A was modified"
    if c["driver"] == "gssv":
        if not r["B_unchanged"]:
            return "the simple driver modified B although info > 0"
    else:
        ncomp = 2 if c["prec"] in "cz" else 1
        X = [float.fromhex(x) for x in r["X"]]
        if X != c["rhs"]:
            return "the expert driver wrote X although info > 0"
        # B may only have been scaled by the reported equilibration
        Bo = [float.fromhex(x) for x in r["B_out"]]
        eq = r["equed"]
        R = [float.fromhex(x) for x in r["R"]]
        rnd = c01.f32 if c["prec"] in "sc" else (lambda v: v)
        for k in range(c["nrhs"]):
            for i in range(n):
                for q in range(ncomp):
                    b0 = c["rhs"][(k * n + i) * ncomp + q]
                    want = rnd(R[i] * b0) if eq in (1, 3) else b0
                    if Bo[(k * n + i) * ncomp + q] != want:
                        return "B_out[%d,%d] = %r is neither B_in nor the row-scaled B_in (equed %d)" % (i, k, Bo[(k * n + i) * ncomp + q], eq)
    if r["threads_after"] != 1:
        return "threads left after return"
    return None


def run(ctx):
    rng = ctx.rng
    ctx.cov["rule"] = ("singular inputs of 10 kinds (several zero columns inside ONE relaxed supernode, several zero columns in different subtrees with >= 2 workers and strong perturbation, explicit zero column/row, structurally empty column/row, 3 columns in 2 rows, "
                       "exact cancellation block, relaxed supernode with fewer rows than columns) x s/d/c/z x p?gssv/p?gssvx x nprocs "
                       "1..8 x orderings 0..3, ASan build, seeded perturbation; non-trivial = n>=3; distinct by matrix+parameters")
    ctx.coq_properties()
    pdrv = ctx.ocaml_model("pivot")
    subs = ["tinycol", "zerocol", "emptycol", "emptyrow", "zerorow", "structdef", "cancel", "relaxdef", "multizero", "bigfirst", "bigfirst",
            "snodezero", "snodezero", "thinsnode", "thinsnode"]
    N = {"d": 60, "s": 30, "z": 15, "c": 15} if ctx.quick() else {"d": 700, "s": 200, "z": 200, "c": 200}
    nok = 0; ninfo = 0; nooo = 0
    for prec in "dszc":
        cases = []
        for k in range(N[prec]):
            sub = subs[k % len(subs)]
            if prec in "cz" and sub in ("cancel", "tinycol"):
                sub = "zerocol"
            cases.append(tinycol_case(rng, k + 1, prec) if sub == "tinycol" else bigfirst_case(rng, k + 1, prec) if sub == "bigfirst" else
                         snodezero_case(rng, k + 1, prec) if sub == "snodezero" else
                         thinsnode_case(rng, k + 1, prec) if sub == "thinsnode" else
                         singular_case(rng, k + 1, prec, rng.randint(2, 24 if ctx.quick() else 60), sub))
        exe = drv.build(ctx, prec, "asan")
        res = drv.run_grouped(exe, cases, par=max(1, vf.NCPU // 3))
        for c, r in zip(cases, res):
            ctx.count((prec, c["kind"], c["n"], tuple(c["rowind"][:40]), tuple(c["vals"][:6]), c["nprocs"], c["driver"]),
                      nontrivial=c["n"] >= 3, kind="%s-%s-%s" % (prec, c["driver"], c["kind"]))
            bad = oracle(c, r)
            # K-exact tie of InfoModel.gstrf_info: fed with the per-worker info sequences of THIS run it must give the returned info
            if bad is None and r.get("hooks") and r.get("pivots") and r.get("info", 0) <= c["n"]:
                parts = info_parts(r)
                rc, out, err = vf.sh2([pdrv], inp="INFO " + " | ".join(" ".join(map(str, pl)) for pl in parts) + "\n", timeout=30)
                if rc != 0 or not out.startswith("INFO "):
                    ctx.broken.append("info model driver failed: %s %s" % (out[:80], err[:80]))
                else:
                    ninfo += 1
                    nooo += 1 if out_of_order(parts) else 0
                    if int(out.split()[1]) != r["info"]:
                        bad = ("info = %d but InfoModel.gstrf_info on the per-worker sequences of this run gives %s (a worker met singular "
                               "columns %s)" % (r["info"], out.split()[1], [[x for x in pl if x] for pl in parts]))
            if bad is None:
                nok += 1
            else:
                structural = c["kind"] in ("emptycol", "emptyrow", "structdef", "relaxdef", "thinsnode")
                if bad.startswith("run failed") and structural:
                    # keyed by HOW the run died (finding F22 = out-of-bounds reads/writes and an absurd allocation size in the numeric
                    # kernels that run on after the reported column; any other way of dying on such an input -- a negative length,
                    # a double free, a hang, an abort -- is a different violation)
                    key = {"kind": "singular", "class": "structural_singularity_crash",
                           "how": "timeout" if r.get("timeout") else r.get("site", "?").split("@")[0]}
                elif bad.startswith("STRUCT") and (structural or c["kind"] == "zerorow" or late_with_stored_zeros(c, bad)):
                    # (an explicitly stored zero ROW is a rank deficiency that shows only through fill, like the structural kinds; so
                    #  are explicitly stored zeros on the diagonals of OTHER columns (threshold-0 cases) when they make the leading
                    #  columns structurally rank deficient: the candidates of the dependent column are rounding residues of fill, and
                    #  the library reports a later column or none)
                    key = {"kind": "singular", "class": "structural_rank_deficiency_not_reported"}
                else:
                    key = {"kind": "singular", "what": bad[:28], "sub": c["kind"]}
                ctx.violation("C06 (%s, %s, %s): %s" % (prec, c["driver"], c["kind"], bad),
                              {"case": c, "result": {k: v for k, v in r.items() if k not in ("L", "U", "events", "pivots")}}, key=key)
        ctx.sample({k: cases[0][k] for k in ("prec", "kind", "driver", "n", "nprocs", "colperm", "fact")}, limit=8)
    ctx.cov["correspondence"]["singular_runs_ok"] = nok
    ctx.cov["correspondence"]["info_model_agreements"] = ninfo
    ctx.cov["correspondence"]["runs_where_a_worker_met_singular_columns_out_of_order"] = nooo
    if nooo == 0:
        ctx.broken.append("coverage: no run in which a worker met singular columns out of order (the case separating 'first' from 'smallest')")
    ctx.log("singular runs ok: %d" % nok)
    ctx.cov["partial"] += ["generic_first_deficient: 'info = least k with structural rank of the first k columns < k' is decided by the "
                           "exact oracle per input, not proved", "exact cancellation in floating point is order dependent in general; "
                           "only cancellation patterns that are exact for every order are generated"]
    ctx.cov["trusted_base"] += ["python exact elimination oracle", "AddressSanitizer (gcc 12)"]


def replay(ctx, obj):
    rp = obj.get("replay", obj)
    c = rp["case"]
    exe = drv.build(ctx, c["prec"], "asan")
    for i in range(10):
        r = drv.run_batch(exe, [c])[0]
        bad = oracle(c, r)
        if bad:
            ctx.violation("C06: " + bad, {"case": c}, key={"kind": "singular"})
            return 1
    return 0
