"""C19 -- sparse kernels and format utilities agree with their dense definitions.

1. Coq: Properties_C19.v (exact-arithmetic theorems about the generic model SpblasModel.v).
2. K-exact (bit for bit, d precision, non-vendor flavour): the binary64 instance of the SAME model is
   evaluated by vm_compute on generated cases and compared with direct calls of the real kernels
   (sp_dgemv, sp_dgemm, sp_dtrsv, dlsolve, dusolve, dmatvec, dlangs, dCompRow_to_CompCol,
   dCopy_CompCol_Matrix, the permuted-view constructors) in the library built from the current tree.
3. K-pred (s, c, z precisions and the USE_VENDOR_BLAS flavour, and d again): the property's own oracle --
   the dense definition evaluated in exact rational arithmetic by the extracted Qc instance of the
   model, with the standard rounding bound gamma(k)*(|alpha||op(A)||x|+|beta||y|), resp. the
   componentwise residual bound of the triangular solves -- is evaluated on the C results.
"""
import os, sys, json, math, struct, re, time
from fractions import Fraction
import vf

MANIFEST = {
    "text": "Coq theorems (generic commutative ring/field, instantiated at Qc) that the modelled sp_gemv/sp_gemm, "
            "the unrolled dense kernels lsolve/usolve/matvec, the four supernodal triangular solves, langs, "
            "CompRow_to_CompCol, copy and the permuted views equal their dense definitions; the binary64 instance of the "
            "same model is compared bit-for-bit with the C kernels on every run, the other precisions and the vendor "
            "flavour against the exact oracle within the standard rounding bound.",
    "note": "Exact-arithmetic theorems are proved in full; the rounded bounds are proved in the partial form "
            "(c19_gemv_rounded_partial, c19_trsv_rounded_partial: gamma_k bounds with k = stored entries per row / "
            "supernodal substitution length, standard model without underflow) and the tighter full statements are refuted "
            "by witnesses; the same bounds are the executed oracle in exact rationals. Complex kernels are tied by the "
            "oracle only (no bit-exact complex model).",
    "technique": "Coq proof about a generic-arithmetic Gallina model + vm_compute(binary64) bit-exact correspondence "
                 "with direct C calls + extracted exact-rational oracle",
}

U53 = Fraction(1, 2 ** 53)
U24 = Fraction(1, 2 ** 24)


# ----------------------------------------------------------------------------------- number helpers
def bits_of(d):
    return struct.unpack("<Q", struct.pack("<d", d))[0]


def dbl_of_bits(u):
    return struct.unpack("<d", struct.pack("<Q", u))[0]


def canon_bits(u):
    """all NaNs compare equal"""
    if (u >> 52) & 0x7ff == 0x7ff and (u & ((1 << 52) - 1)):
        return 0x7ff8 << 48
    return u


def chex(d):
    if isinstance(d, complex):
        return "%s %s" % (float(d.real).hex(), float(d.imag).hex())
    return float(d).hex()


def coqf(d):
    d = float(d)
    if d != d:
        return "nan"
    if d in (float("inf"), float("-inf")):
        return "infinity" if d > 0 else "neg_infinity"
    h = d.hex()
    if h.startswith("-"):
        return "(-%s)" % h[1:]
    return h


def coq_flist(v):
    return "(@nil float)" if not v else "[" + "; ".join(coq_f1(x) for x in v) + "]"


def coq_f1(x):
    s = coqf(x)
    return "(-%s)%%float" % s[2:-1] if s.startswith("(-") else "(%s)%%float" % s


def coq_nlist(v):
    return "(@nil nat)" if not v else "[" + "; ".join(str(int(x)) for x in v) + "]%nat"


def coq_z(x):
    return "(%d)%%Z" % x


def gamma(k, u):
    ku = k * u
    return ku / (1 - ku)


# ----------------------------------------------------------------------------------- generators
def rnd_val(rng, style):
    if style == "int":
        return float(rng.randint(-9, 9))
    if style == "wide":
        return rng.choice([-1, 1]) * math.ldexp(rng.random() + 0.5, rng.randint(-30, 30))
    return rng.uniform(-2.0, 2.0)


def nz_val(rng, style):
    while True:
        v = rnd_val(rng, style)
        if v != 0.0:
            return v


SCALARS = ["zero", "one", "mone", "gen"]


def scalar(rng, kind):
    return {"zero": 0.0, "one": 1.0, "mone": -1.0}.get(kind, None) if kind != "gen" else rng.choice(
        [rng.uniform(-3, 3), 0.5, -2.0, 1e-3, rng.uniform(-1, 1) * 1e3])


def gen_csc(rng, kind=None):
    """random m x n compressed-column matrix; returns dict(m,n,colptr,rowind,val,kind)"""
    kind = kind or rng.choice(["rand", "rand", "emptycols", "dense", "rect_wide", "rect_tall", "tiny", "dups",
                               "unsorted", "diag", "zeros_stored"])
    style = rng.choice(["int", "unit", "unit", "wide"])
    if kind == "tiny":
        m, n = rng.choice([(1, 1), (1, 3), (3, 1), (2, 2)])
    elif kind == "rect_wide":
        m, n = rng.randint(1, 6), rng.randint(6, 14)
    elif kind == "rect_tall":
        m, n = rng.randint(6, 14), rng.randint(1, 6)
    else:
        m = n = rng.randint(2, 14)
        if rng.random() < 0.3:
            n = rng.randint(2, 14)
    dens = {"dense": 1.0, "diag": 0.0}.get(kind, rng.choice([0.15, 0.3, 0.6]))
    colptr, rowind, val = [0], [], []
    for j in range(n):
        rows = [i for i in range(m) if rng.random() < dens]
        if kind == "diag" and j < m:
            rows = [j]
        if kind == "emptycols" and rng.random() < 0.4:
            rows = []
        if kind == "dups" and rows:
            rows = rows + [rng.choice(rows) for _ in range(rng.randint(1, 2))]
        if kind in ("unsorted", "dups"):
            rng.shuffle(rows)
        for i in rows:
            rowind.append(i)
            v = rnd_val(rng, style)
            if kind == "zeros_stored" and rng.random() < 0.3:
                v = 0.0
            val.append(v)
        colptr.append(len(rowind))
    return {"m": m, "n": n, "colptr": colptr, "rowind": rowind, "val": val, "kind": kind, "style": style}


def dense_of(A):
    D = [[Fraction(0)] * A["n"] for _ in range(A["m"])]
    for j in range(A["n"]):
        for p in range(A["colptr"][j], A["colptr"][j + 1]):
            D[A["rowind"][p]][j] += Fraction(A["val"][p])
    return D


def gen_vec(rng, n, style, zeros=0.15):
    return [0.0 if rng.random() < zeros else rnd_val(rng, style) for _ in range(n)]


def gen_gemv(rng, idx, force=None):
    force = force or {}
    A = force.get("A") or gen_csc(rng)
    tr = force.get("tr") or rng.choice(["N", "T", "C", "N", "T", "n", "t", "c"])
    ak = force.get("ak") or rng.choice(SCALARS)
    bk = force.get("bk") or rng.choice(SCALARS)
    alpha, beta = scalar(rng, ak), scalar(rng, bk)
    notran = tr in "Nn"
    # strides: mostly the implemented combinations, the rest from the full documented domain
    incs = [1, 1, 1, -1, 2, -2, 3]
    if "incx" in force:
        incx, incy = force["incx"], force["incy"]
    else:
        if rng.random() < 0.7:
            incx, incy = (rng.choice(incs), 1) if notran else (1, rng.choice(incs))
        else:
            incx, incy = rng.choice(incs), rng.choice(incs)
    lenx = A["n"] if notran else A["m"]
    leny = A["m"] if notran else A["n"]
    xo, yo = rng.randint(0, 2), rng.randint(0, 2)
    x = gen_vec(rng, xo + 1 + (lenx - 1) * abs(incx) + rng.randint(0, 2), A["style"])
    y = gen_vec(rng, yo + 1 + (leny - 1) * abs(incy) + rng.randint(0, 2), A["style"], zeros=0.05)
    if bk == "zero" and leny > 0 and rng.random() < 0.5:
        # "when beta is zero y need not be set on input": left-over NaN / Inf in the addressed entries must be overwritten
        ky = 0 if incy > 0 else -(leny - 1) * incy
        for i in range(leny):
            if rng.random() < 0.6:
                y[yo + ky + i * incy] = rng.choice([float("nan"), float("inf"), float("-inf")])
    return {"op": "gemv", "id": "g%d" % idx, "tr": tr, "alpha": alpha, "beta": beta, "ak": ak, "bk": bk,
            "xo": xo, "incx": incx, "yo": yo, "incy": incy, "A": A, "x": x, "y": y, "fmt": "NC"}


def gen_gemm(rng, idx):
    A = gen_csc(rng)
    tr = rng.choice(["N", "T", "C"])
    notran = tr == "N"
    nrhs = rng.randint(0, 3)
    rows_b = A["n"] if notran else A["m"]
    rows_c = A["m"] if notran else A["n"]
    ldb, ldc = rows_b + rng.randint(0, 2), rows_c + rng.randint(0, 2)
    ak, bk = rng.choice(SCALARS), rng.choice(SCALARS)
    return {"op": "gemm", "id": "m%d" % idx, "tr": tr, "n": nrhs, "alpha": scalar(rng, ak), "beta": scalar(rng, bk),
            "ak": ak, "bk": bk, "ldb": ldb, "ldc": ldc, "A": A,
            "b": gen_vec(rng, max(1, ldb * nrhs), A["style"]), "c": gen_vec(rng, max(1, ldc * nrhs), A["style"], 0.05)}


def gen_kernel(rng, idx, which, ncol=None, styles=("unit", "int", "wide")):
    style = rng.choice(list(styles))
    if which == "matvec":
        ncol = rng.randint(0, 21) if ncol is None else ncol
        nrow = rng.randint(0, 9)
        ldm = nrow + ncol + rng.randint(0, 3)
        mo, vo, xo = rng.randint(0, 3), rng.randint(0, 2), rng.randint(0, 2)
        M = [rnd_val(rng, style) for _ in range(mo + ldm * max(ncol, 1) + 2)]
        return {"op": "matvec", "id": "k%d" % idx, "ldm": ldm, "nrow": nrow, "ncol": ncol, "mo": mo, "vo": vo, "xo": xo,
                "M": M, "vec": gen_vec(rng, vo + ncol + 1, style), "Mx": gen_vec(rng, xo + nrow + 1, style)}
    ncol = rng.randint(0, 21) if ncol is None else ncol
    ldm = ncol + rng.randint(0, 4)
    mo, ro = rng.randint(0, 3), rng.randint(0, 2)
    M = [rnd_val(rng, style) for _ in range(mo + ldm * max(ncol, 1) + 2)]
    if which == "usolve":          # keep the diagonal away from zero
        for j in range(ncol):
            M[mo + j + j * ldm] = nz_val(rng, "int" if style == "int" else "unit") + (2.0 if style != "int" else 0.0)
    return {"op": which, "id": "k%d" % idx, "ldm": ldm, "ncol": ncol, "mo": mo, "ro": ro, "M": M,
            "rhs": gen_vec(rng, ro + ncol + 1, style)}


def gen_langs(rng, idx, norm=None):
    return {"op": "langs", "id": "n%d" % idx, "norm": norm or rng.choice(["M", "1", "O", "I", "m", "i", "o", "F", "E"]),
            "A": gen_csc(rng), "fmt": "NC"}


def gen_cr2cc(rng, idx):
    A = gen_csc(rng)          # read the arrays as compressed ROWS of an n x m ... (m rows = A.n "columns")
    return {"op": "cr2cc", "id": "r%d" % idx, "m": A["n"], "n": A["m"], "nnz": len(A["val"]),
            "a": A["val"], "colind": A["rowind"], "rowptr": A["colptr"], "kind": A["kind"]}


def gen_copy(rng, idx):
    A = gen_csc(rng)
    nnz = len(A["val"])
    lbv, lbc = nnz + rng.randint(0, 3), A["n"] + 1 + rng.randint(0, 2)
    return {"op": "copy", "id": "c%d" % idx, "A": A, "bval": [7.25] * lbv, "browind": [77] * lbv, "bcolptr": [99] * lbc}


def gen_synth_lu(rng, sizes=None):
    """hand-built supernodal L (SCP) + columnwise U (NCP) with chosen supernode widths"""
    if sizes is None:
        pool = [1, 1, 1, 2, 2, 3, 4, 5, 7, 8, 9, 12, 16, 17]
        sizes = [rng.choice(pool) for _ in range(rng.randint(1, 5))]
    n = sum(sizes)
    style = rng.choice(["unit", "int"])
    lval, nzbeg, nzend, rowind, ribeg, riend, col2sup, supbeg, supend = [], [0] * n, [0] * n, [], [0] * n, [0] * n, [], [], []
    f = 0
    gap = rng.random() < 0.3
    for s, w in enumerate(sizes):
        below = [i for i in range(f + w, n) if rng.random() < 0.4]
        if rng.random() < 0.3:
            rng.shuffle(below)
        rows = list(range(f, f + w)) + below
        nsupr = len(rows)
        if gap:
            rowind += [0] * rng.randint(0, 2)
            lval += [123.0] * rng.randint(0, 2)
        ribeg[f] = len(rowind)
        rowind += rows
        riend[f] = len(rowind)
        luptr = len(lval)
        for c in range(w):
            nzbeg[f + c] = luptr + c * nsupr
            nzend[f + c] = luptr + (c + 1) * nsupr
        blk = [rnd_val(rng, style) for _ in range(nsupr * w)]
        for c in range(w):                       # U's diagonal lives in the block: keep it away from 0
            blk[c + c * nsupr] = nz_val(rng, "int") if style == "int" else rng.choice([-1, 1]) * rng.uniform(1.0, 3.0)
        lval += blk
        col2sup += [s] * w
        supbeg.append(f)
        supend.append(f + w)
        f += w
    col2sup.append(len(sizes) - 1)
    uval, urow, ucb, uce = [], [], [0] * n, [0] * n
    # U is column-permuted storage (SLU_NCP): with several workers the library hands out ucol[] space in column COMPLETION order,
    # so the columns of one supernode are in general neither adjacent nor ascending in storage, and unused space may lie between them
    order = list(range(n))
    ustore = rng.choice(["ascending", "shuffled", "shuffled", "reversed"])
    if ustore == "shuffled":
        rng.shuffle(order)
    elif ustore == "reversed":
        order.reverse()
    ugap = rng.random() < 0.4
    for j in order:
        fs = supbeg[col2sup[j]]
        rows = [i for i in range(fs) if rng.random() < 0.4]
        if rng.random() < 0.3:
            rng.shuffle(rows)
        if ugap:
            g = rng.randint(0, 2)
            urow += [0] * g
            uval += [123.0] * g
        ucb[j] = len(urow)
        urow += rows
        uval += [rnd_val(rng, style) for _ in rows]
        uce[j] = len(urow)
    return {"n": n, "nsuper": len(sizes) - 1, "lval": lval, "nzbeg": nzbeg, "nzend": nzend, "rowind": rowind, "ribeg": ribeg,
            "riend": riend, "col2sup": col2sup, "supbeg": supbeg, "supend": supend, "uval": uval, "urowind": urow,
            "ucolbeg": ucb, "ucolend": uce, "sizes": sizes, "style": style, "src": "synthetic", "ustore": ustore}


def gen_factor_matrix(rng, kind=None):
    kind = kind or rng.choice(["dense", "band", "arrow", "rand", "blockdiag", "rand"])
    n = rng.randint(2, 22)
    pat = set((i, i) for i in range(n))
    if kind == "dense":
        n = min(n, 18)
        pat = set((i, j) for i in range(n) for j in range(n))
    elif kind == "band":
        bw = rng.randint(1, 4)
        pat |= set((i, j) for i in range(n) for j in range(n) if abs(i - j) <= bw)
    elif kind == "arrow":
        pat |= set((n - 1, j) for j in range(n)) | set((i, n - 1) for i in range(n))
        pat |= set((0, j) for j in range(n) if rng.random() < 0.5)
    elif kind == "blockdiag":
        b = rng.randint(2, 6)
        pat |= set((i, j) for i in range(n) for j in range(n) if i // b == j // b)
    else:
        d = rng.choice([0.15, 0.3, 0.5])
        pat |= set((i, j) for i in range(n) for j in range(n) if rng.random() < d)
    colptr, rowind, val = [0], [], []
    for j in range(n):
        for i in sorted(i for (i, jj) in pat if jj == j):
            rowind.append(i)
            val.append(rng.uniform(-1, 1) + (n if i == j and rng.random() < 0.7 else 0.0))
        colptr.append(len(rowind))
    return {"n": n, "colptr": colptr, "rowind": rowind, "val": val, "kind": kind,
            "permc": rng.choice([0, 1, 2, 3]), "panel": rng.choice([1, 2, 4, 8]), "relax": rng.choice([1, 2, 4, 8]),
            "maxsuper": rng.choice([1, 3, 8, 20, 100]), "nprocs": rng.choice([1, 1, 2, 4])}


# ----------------------------------------------------------------------------------- emit: C case file
def c_vec(v):
    return "%d %s" % (len(v), " ".join(chex(x) for x in v))


def c_ivec(v):
    return " ".join(str(int(x)) for x in v)


def c_sparse(A, fmt="NC"):
    if fmt == "NC":
        return "NC %d %d %d %d %s %s %s" % (A["m"], A["n"], len(A["val"]), len(A["val"]), c_ivec(A["colptr"]),
                                          c_ivec(A["rowind"]), " ".join(chex(x) for x in A["val"]))
    return "NCP %d %d %d %d %s %s %s %s" % (A["m"], A["n"], len(A["val"]), len(A["val"]), c_ivec(A["colbeg"]), c_ivec(A["colend"]),
                                         c_ivec(A["rowind"]), " ".join(chex(x) for x in A["val"]))


def cs(x, ncomp=1):
    """scalar for the C harness"""
    if ncomp == 1:
        return chex(x)
    return "%s %s" % (chex(x.real), chex(x.imag))


def to_c(c):
    op = c["op"]
    if op == "gemv":
        return "gemv %s %s %s %s %d %d %d %d %s %s %s\n" % (
            c["id"], c["tr"], chex(c["alpha"]), chex(c["beta"]), c["xo"], c["incx"], c["yo"], c["incy"],
            c_sparse(c["A"], c.get("fmt", "NC")), c_vec(c["x"]), c_vec(c["y"]))
    if op == "gemm":
        return "gemm %s %s %d %s %s %d %d %s %s %s\n" % (
            c["id"], c["tr"], c["n"], chex(c["alpha"]), chex(c["beta"]), c["ldb"], c["ldc"], c_sparse(c["A"]),
            c_vec(c["b"]), c_vec(c["c"]))
    if op in ("lsolve", "usolve"):
        return "%s %s %d %d %d %d %s %s\n" % (op, c["id"], c["ldm"], c["ncol"], c["mo"], c["ro"], c_vec(c["M"]), c_vec(c["rhs"]))
    if op == "matvec":
        return "matvec %s %d %d %d %d %d %d %s %s %s\n" % (c["id"], c["ldm"], c["nrow"], c["ncol"], c["mo"], c["vo"], c["xo"],
                                                        c_vec(c["M"]), c_vec(c["vec"]), c_vec(c["Mx"]))
    if op == "langs":
        return "langs %s %s %s\n" % (c["id"], c["norm"], c_sparse(c["A"], c.get("fmt", "NC")))
    if op == "cr2cc":
        return "cr2cc %s %d %d %d %s %s %s\n" % (c["id"], c["m"], c["n"], c["nnz"], " ".join(chex(x) for x in c["a"]),
                                               c_ivec(c["colind"]), c_ivec(c["rowptr"]))
    if op == "copy":
        return "copy %s %s %d %d %s %s %s\n" % (c["id"], c_sparse(c["A"]), len(c["bval"]), len(c["bcolptr"]),
                                              " ".join(chex(x) for x in c["bval"]), c_ivec(c["browind"]), c_ivec(c["bcolptr"]))
    if op == "dncopy":
        return "dncopy %s %d %d %d %d %s %s\n" % (c["id"], c["M"], c["N"], c["ldx"], c["ldy"], c_vec(c["X"]), c_vec(c["Y"]))
    if op == "factor":
        return "factor %s %d %d %d %d %d %d %d %s %s %s\n" % (c["id"], c.get("nprocs", 1), c["permc"], c["panel"], c["relax"], c["maxsuper"], c["n"],
                                                         len(c["val"]), c_ivec(c["colptr"]), c_ivec(c["rowind"]),
                                                         " ".join(chex(x) for x in c["val"]))
    if op == "trsv":
        F = c["F"]
        return "trsv %s %s %s %s %d %d %s %s %s %d %s %s %s %s %s %s %s %s %s %s %s\n" % (
            c["id"], c["uplo"], c["tr"], c["diag"], F["n"], F["nsuper"], c_vec(F["lval"]), c_ivec(F["nzbeg"]), c_ivec(F["nzend"]),
            len(F["rowind"]), c_ivec(F["rowind"]), c_ivec(F["ribeg"]), c_ivec(F["riend"]), c_ivec(F["col2sup"]),
            c_ivec(F["supbeg"]), c_ivec(F["supend"]), c_vec(F["uval"]), c_ivec(F["urowind"]), c_ivec(F["ucolbeg"]),
            c_ivec(F["ucolend"]), c_vec(c["x"]))
    raise ValueError(op)


TCH = {"N": "cN", "T": "cT", "C": "cC", "L": "cL", "U": "cU", "M": "cM", "O": "cO", "1": "c1", "I": "cI", "F": "cF", "E": "cE"}


def tch(ch):
    return TCH.get(ch[0].upper(), "cX")


def to_coq(c):
    op = c["op"]
    if op == "gemv":
        A = c["A"]
        return "run_gemv %s %s %s %s %s %s %s %s %s %s %s %s %s %s" % (
            tch(c["tr"]), coq_f1(c["alpha"]), coq_z(A["m"]), coq_z(A["n"]), coq_nlist(A["colptr"]), coq_nlist(A["rowind"]),
            coq_flist(A["val"]), coq_flist(c["x"]), coq_z(c["xo"]), coq_z(c["incx"]), coq_f1(c["beta"]), coq_flist(c["y"]),
            coq_z(c["yo"]), coq_z(c["incy"]))
    if op == "gemm":
        A = c["A"]
        return "run_gemm %s %d%%nat %s %s %s %s %s %s %s %s %s %s %s" % (
            tch(c["tr"]), c["n"], coq_f1(c["alpha"]), coq_z(A["m"]), coq_z(A["n"]), coq_nlist(A["colptr"]), coq_nlist(A["rowind"]),
            coq_flist(A["val"]), coq_flist(c["b"]), coq_z(c["ldb"]), coq_f1(c["beta"]), coq_flist(c["c"]), coq_z(c["ldc"]))
    if op in ("lsolve", "usolve"):
        return "run_%s %d%%nat %d%%nat %s %d%%nat %s %d%%nat" % (op, c["ldm"], c["ncol"], coq_flist(c["M"]), c["mo"],
                                                             coq_flist(c["rhs"]), c["ro"])
    if op == "matvec":
        return "run_matvec %d%%nat %d%%nat %d%%nat %s %d%%nat %s %d%%nat %s %d%%nat" % (
            c["ldm"], c["nrow"], c["ncol"], coq_flist(c["M"]), c["mo"], coq_flist(c["vec"]), c["vo"], coq_flist(c["Mx"]), c["xo"])
    if op == "langs":
        A = c["A"]
        return "run_langs %s %s %s %s %s %s" % (tch(c["norm"]), coq_z(A["m"]), coq_z(A["n"]), coq_nlist(A["colptr"]),
                                               coq_nlist(A["rowind"]), coq_flist(A["val"]))
    if op == "cr2cc":
        return "run_cr2cc %d%%nat %d%%nat %d%%nat %s %s %s" % (c["m"], c["n"], c["nnz"], coq_flist(c["a"]), coq_nlist(c["colind"]),
                                                           coq_nlist(c["rowptr"]))
    if op == "copy":
        A = c["A"]
        return "run_copy %d%%nat %s %s %s %s %s %s %s %s" % (
            len(A["val"]), coq_z(A["m"]), coq_z(A["n"]), coq_nlist(A["colptr"]), coq_nlist(A["rowind"]), coq_flist(A["val"]),
            coq_nlist(c["bcolptr"]), coq_nlist(c["browind"]), coq_flist(c["bval"]))
    if op == "trsv":
        F = c["F"]
        return "run_trsv %s %s %s %s %s %s %s %s %s %s %s %s %s %s %s %s %s %s" % (
            tch(c["uplo"]), tch(c["tr"]), tch(c["diag"]), coq_z(F["n"]), coq_flist(F["lval"]), coq_nlist(F["nzbeg"]),
            coq_nlist(F["nzend"]), coq_nlist(F["rowind"]), coq_nlist(F["ribeg"]), coq_nlist(F["riend"]), coq_nlist(F["col2sup"]),
            coq_nlist(F["supbeg"]), coq_nlist(F["supend"]), coq_flist(F["uval"]), coq_nlist(F["urowind"]), coq_nlist(F["ucolbeg"]),
            coq_nlist(F["ucolend"]), coq_flist(c["x"]))
    raise ValueError(op)


# ----------------------------------------------------------------------------------- run both sides
def run_harness(exe, cases, timeout=600):
    """-> {id: (status, [tokens])}"""
    inp = "".join(to_c(c) for c in cases)
    rc, out, err = vf.sh2([exe], inp=inp, timeout=timeout)
    res = {}
    for ln in out.split("\n"):
        if ln.startswith("R "):
            t = ln.split()
            res[t[1]] = (t[2], t[3:])
    if rc != 0:
        raise vf.CheckError("C harness failed rc=%s: %s" % (rc, err[-500:]))
    return res


def take_vec(tok, pos, hexa=True):
    n = int(tok[pos])
    v = tok[pos + 1: pos + 1 + n]
    return ([int(x, 16) for x in v] if hexa else [int(x) for x in v]), pos + 1 + n


def c_result(c, r, ncomp=1):
    """canonical C result: (status, [lists of ints]) comparable with the Coq result"""
    st, tok = r
    op = c["op"]
    if op in ("gemv", "gemm", "lsolve", "usolve", "matvec", "langs"):
        n = int(tok[0]) * (ncomp if op != "langs" else 1)
        v = [int(x, 16) for x in tok[1:1 + n]]
        return st, [v]
    if op == "cr2cc":
        n = int(tok[0]) * ncomp
        at = [int(x, 16) for x in tok[1:1 + n]]
        ri, p = take_vec(tok, 1 + n, False)
        cp, p = take_vec(tok, p, False)
        return st, [at, ri, cp]
    if op == "copy":
        hdr = [int(x) for x in tok[0:6]]
        n = int(tok[6]) * ncomp
        bv = [int(x, 16) for x in tok[7:7 + n]]
        bri, p = take_vec(tok, 7 + n, False)
        bcp, p = take_vec(tok, p, False)
        return st, [hdr, bv, bri, bcp]
    if op == "trsv":
        ns = int(tok[0])
        n = int(tok[1]) * ncomp
        v = [int(x, 16) for x in tok[2:2 + n]]
        return st, [[ns], v]
    raise ValueError(op)


def parse_factor(c, r, ncomp=1):
    st, tok = r
    info, n = int(tok[0]), int(tok[1])
    if st != "ok" or info != 0:
        return None
    p = 2
    ns = int(tok[p]); p += 1

    def fv(p):
        k = int(tok[p]) * ncomp
        return [dbl_of_bits(int(x, 16)) for x in tok[p + 1:p + 1 + k]], p + 1 + k

    lval, p = fv(p)
    nzbeg, p = take_vec(tok, p, False); nzend, p = take_vec(tok, p, False)
    rowind, p = take_vec(tok, p, False)
    ribeg, p = take_vec(tok, p, False); riend, p = take_vec(tok, p, False)
    col2sup, p = take_vec(tok, p, False); supbeg, p = take_vec(tok, p, False); supend, p = take_vec(tok, p, False)
    uval, p = fv(p)
    urow, p = take_vec(tok, p, False); ucb, p = take_vec(tok, p, False); uce, p = take_vec(tok, p, False)
    perm_r, p = take_vec(tok, p, False); perm_c, p = take_vec(tok, p, False)
    return {"n": n, "nsuper": ns, "lval": lval, "nzbeg": nzbeg, "nzend": nzend, "rowind": rowind, "ribeg": ribeg, "riend": riend,
            "col2sup": col2sup, "supbeg": supbeg, "supend": supend, "uval": uval, "urowind": urow, "ucolbeg": ucb, "ucolend": uce,
            "perm_r": perm_r, "perm_c": perm_c, "src": "pdgssv:%s:np%d" % (c["kind"], c.get("nprocs", 1)),
            "sizes": [supend[k] - supbeg[k] for k in range(ns + 1)]}


def run_coq(ctx, cases, tag="cases"):
    """evaluate the binary64 instance of the model on the cases by vm_compute -> {id: [lists of ints]}"""
    path = os.path.join(ctx.bdir, "%s_%d.v" % (tag, os.getpid()))
    with open(path, "w") as f:
        f.write("From SLU Require Import SpblasModel SpblasRun.\nRequire Import Floats ZArith List.\nImport ListNotations.\n"
                "Local Open Scope Z_scope.\n")
        for c in cases:
            f.write("Eval vm_compute in (%s).\n" % to_coq(c))
    with vf.Lock("coq"):
        rc, out, err = vf.sh2(["coqc", "-Q", vf.COQ, "SLU", path], cwd=ctx.bdir, timeout=1500)
    if rc != 0:
        raise vf.CheckError("vm_compute case file failed: %s" % (out + err)[-1500:])
    chunks = re.split(r"^\s*= ", out, flags=re.M)[1:]
    if len(chunks) != len(cases):
        raise vf.CheckError("vm_compute output: %d results for %d cases" % (len(chunks), len(cases)))
    res = {}
    for c, ch in zip(cases, chunks):
        body = ch.split("\n     : ")[0]
        lists = re.findall(r"\[([^\[\]]*)\]", body)
        res[c["id"]] = [[int(x) for x in re.findall(r"-?\d+", l)] for l in lists]
    for ext in (".v", ".vo", ".vok", ".vos", ".glob"):
        try:
            os.unlink(path[:-2] + ext)
        except OSError:
            pass
    return res


def coq_vs_c(c, coqr, cr):
    """None when equal, else a short description"""
    st, lists = cr
    hdr = coqr[0]
    mst = {0: "ok", 1: "xerbla%d" % hdr[1], 2: "abort"}[hdr[0]]
    if mst != st:
        return "status: model %s, C %s" % (mst, st)
    op = c["op"]
    if op == "langs":
        if st != "ok":
            return None
        return None if canon_bits(lists[0][0]) == canon_bits(coqr[1][0]) else "value: model %016x C %016x" % (coqr[1][0], lists[0][0])
    if op == "copy":
        A = c["A"]
        if lists[0][0:3] != [A["m"], A["n"], len(A["val"])] or lists[0][3:6] != [0, 1, 0]:    # SLU_NC, SLU_D, SLU_GE
            return "header fields %s" % lists[0]
        if lists[0][0:2] != coqr[1]:
            return "dims"
        mine = coqr[2:5]
        theirs = lists[1:4]
    elif op == "trsv":
        if lists[0][0] != hdr[2]:
            return "nsuper field: model %d, C %d" % (hdr[2], lists[0][0])
        mine, theirs = coqr[1:2], lists[1:2]
    else:
        mine, theirs = coqr[1:], lists
    for a, b in zip(mine, theirs):
        if len(a) != len(b):
            return "length %d vs %d" % (len(a), len(b))
        for i, (x, y) in enumerate(zip(a, b)):
            if canon_bits(x) != canon_bits(y):
                return "element %d: model %x, C %x" % (i, x, y)
    return None


# ----------------------------------------------------------------------------------- the property's own oracle (exact)
def F(x):
    return Fraction(x)


def oracle_gemv(c, yres, u, ncomp=1):
    """dense definition (sum over the STORED entries, so duplicates and cancelling entries are counted and bounded individually)
    in exact rationals + rounding bound; returns None or a description.  Delegates to the precision-generic oracle."""
    return kp_gemv(c, yres, dict(PREC["d"], u=u), collect=c.get("_collect"))


def lu_dense(Fc):
    """dense L (unit lower) and U (upper) of a supernodal factor, as the sum over stored entries"""
    n = Fc["n"]
    Lm = [[Fraction(0)] * n for _ in range(n)]
    Um = [[Fraction(0)] * n for _ in range(n)]
    for i in range(n):
        Lm[i][i] = Fraction(1)
    for k in range(Fc["nsuper"] + 1):
        f, e = Fc["supbeg"][k], Fc["supend"][k]
        rows = Fc["rowind"][Fc["ribeg"][f]:Fc["riend"][f]]
        for j in range(f, e):
            for p, i in enumerate(rows):
                v = F(Fc["lval"][Fc["nzbeg"][j] + p])
                if p < e - f:            # inside the diagonal block: row f+p
                    if f + p <= j:
                        Um[f + p][j] += v
                    else:
                        Lm[f + p][j] += v
                else:
                    Lm[i][j] += v
    for j in range(n):
        for p in range(Fc["ucolbeg"][j], Fc["ucolend"][j]):
            Um[Fc["urowind"][p]][j] += F(Fc["uval"][p])
    return Lm, Um


def oracle_trsv(c, xres, u):
    """componentwise backward-error oracle: |b - op(T) xhat| <= gamma(n+1) |op(T)| |xhat|"""
    Fc = c["F"]
    n = Fc["n"]
    if "LU" not in Fc:
        Fc["LU"] = lu_dense(Fc)
    Tm = Fc["LU"][0] if c["uplo"].upper() == "L" else Fc["LU"][1]
    tr = c["tr"].upper() != "N"
    g = gamma(n + 2, u)
    for i in range(n):
        row = [Tm[j][i] for j in range(n)] if tr else Tm[i]
        s = sum((a * F(x) for a, x in zip(row, xres[:n]) if a != 0), Fraction(0))
        mag = sum((abs(a) * abs(F(x)) for a, x in zip(row, xres[:n]) if a != 0), Fraction(0))
        if abs(F(c["x"][i]) - s) > g * mag:
            return "row %d: residual %.3e > bound %.3e" % (i, float(abs(F(c["x"][i]) - s)), float(g * mag))
    return None


def oracle_kernel(c, res, u):
    op = c["op"]
    ldm, mo = c["ldm"], c["mo"]
    Mv = lambda r, cc: F(c["M"][mo + r + cc * ldm])
    if op == "matvec":
        for k in range(c["nrow"]):
            ex = F(c["Mx"][c["xo"] + k]) + sum((Mv(k, j) * F(c["vec"][c["vo"] + j]) for j in range(c["ncol"])), Fraction(0))
            mag = abs(F(c["Mx"][c["xo"] + k])) + sum((abs(Mv(k, j) * F(c["vec"][c["vo"] + j])) for j in range(c["ncol"])), Fraction(0))
            if abs(F(res[c["xo"] + k]) - ex) > gamma(c["ncol"] + 2, u) * mag:
                return "Mxvec[%d]" % k
        untouched = [i for i in range(len(c["Mx"])) if not (c["xo"] <= i < c["xo"] + c["nrow"])]
        return next(("Mxvec[%d] outside modified" % i for i in untouched if bits_of(res[i]) != bits_of(c["Mx"][i])), None)
    n, ro = c["ncol"], c["ro"]
    xh = [F(v) for v in res[ro:ro + n]]
    g = gamma(n + 2, u)
    for i in range(n):
        if op == "lsolve":
            row = [(Mv(i, j) if j < i else Fraction(1 if j == i else 0)) for j in range(n)]
        else:
            row = [(Mv(i, j) if j >= i else Fraction(0)) for j in range(n)]
        s = sum((a * x for a, x in zip(row, xh)), Fraction(0))
        mag = sum((abs(a * x) for a, x in zip(row, xh)), Fraction(0))
        if abs(F(c["rhs"][ro + i]) - s) > g * mag:
            return "row %d residual" % i
    untouched = [i for i in range(len(c["rhs"])) if not (ro <= i < ro + n)]
    return next(("rhs[%d] outside modified" % i for i in untouched if bits_of(res[i]) != bits_of(c["rhs"][i])), None)


def oracle_langs(c, val, u):
    A = c["A"]
    nm = c["norm"].upper()
    if min(A["m"], A["n"]) == 0:
        return None if val == 0 else "empty matrix norm %r" % val
    vals = [[abs(F(A["val"][p])) for p in range(A["colptr"][j], A["colptr"][j + 1])] for j in range(A["n"])]
    if nm == "M":
        ex = max([max(v) if v else Fraction(0) for v in vals] + [Fraction(0)])
        return None if F(val) == ex else "max norm %r != %s" % (val, float(ex))
    if nm in ("O", "1"):
        ex = max([sum(v, Fraction(0)) for v in vals] + [Fraction(0)])
        k = max([len(v) for v in vals] + [1])
    elif nm == "I":
        rows = [Fraction(0)] * A["m"]
        cnt = [0] * A["m"]
        for j in range(A["n"]):
            for p in range(A["colptr"][j], A["colptr"][j + 1]):
                rows[A["rowind"][p]] += abs(F(A["val"][p])); cnt[A["rowind"][p]] += 1
        ex, k = max(rows + [Fraction(0)]), max(cnt + [1])
    else:
        ex = None
    if ex is None:
        return "not computable"
    return None if abs(F(val) - ex) <= gamma(k + 1, u) * ex else "norm %s: %r vs exact %s" % (nm, val, float(ex))


def oracle_for(c, cres, u=U53):
    """property oracle on the C result of a d-precision case; None = property holds on this input"""
    st, lists = cres
    op = c["op"]
    if st.startswith("crash"):
        return "the routine crashed (%s)" % st
    if op == "gemv":
        if tch(c["tr"]) == "cX" or c["incx"] == 0 or c["incy"] == 0:
            return None if st.startswith("xerbla") else "illegal argument not reported"
        if st != "ok":
            return "documented argument combination ended with status %s" % st
        return oracle_gemv(c, [dbl_of_bits(v) for v in lists[0]], u)
    if op == "gemm":
        if st != "ok":
            return "status %s" % st
        res = [dbl_of_bits(v) for v in lists[0]]
        touched = set()
        for j in range(c["n"]):
            sub = dict(c, op="gemv", xo=c["ldb"] * j, yo=c["ldc"] * j, incx=1, incy=1, x=c["b"], y=c["c"], _collect=touched)
            m = oracle_gemv(sub, res, u)
            if m:
                return "column %d: %s" % (j, m)
        for i in range(len(c["c"])):
            if i not in touched and bits_of(res[i]) != bits_of(c["c"][i]):
                return "c[%d] outside the matrix was modified" % i
        return None
    if op in ("lsolve", "usolve", "matvec"):
        return oracle_kernel(c, [dbl_of_bits(v) for v in lists[0]], u) if st == "ok" else "status " + st
    if op == "langs":
        if c["norm"].upper() in "FE":
            return "Frobenius norm: status %s" % st if st != "ok" else "not computable here"
        return oracle_langs(c, dbl_of_bits(lists[0][0]), u) if st == "ok" else "status " + st
    if op == "trsv":
        if st != "ok":
            return "status " + st
        return oracle_trsv(c, [dbl_of_bits(v) for v in lists[1]], u)
    if op == "cr2cc":
        if st != "ok":
            return "status " + st
        at, ri, cp = lists
        want = {}
        for i in range(c["m"]):
            for p in range(c["rowptr"][i], c["rowptr"][i + 1]):
                want.setdefault((i, c["colind"][p]), []).append(bits_of(c["a"][p]))
        got = {}
        if cp[0] != 0 or any(cp[j] > cp[j + 1] for j in range(c["n"])) or cp[c["n"]] != c["nnz"]:
            return "colptr not a monotone partition of 0..nnz"
        for j in range(c["n"]):
            for p in range(cp[j], cp[j + 1]):
                got.setdefault((ri[p], j), []).append(at[p])
        return None if {k: sorted(v) for k, v in want.items()} == {k: sorted(v) for k, v in got.items()} else "entry multiset differs"
    if op == "copy":
        if st != "ok":
            return "status " + st
        A = c["A"]
        nnz = len(A["val"])
        ok = lists[1][:nnz] == [bits_of(v) for v in A["val"]] and lists[2][:nnz] == A["rowind"] and \
            lists[3][:A["n"] + 1] == A["colptr"] and lists[0][0:3] == [A["m"], A["n"], nnz]
        return None if ok else "copy differs from the source matrix"
    return None


# ----------------------------------------------------------------------------------- K-pred: other precisions / vendor flavour
class CQ:
    """exact complex rational"""
    __slots__ = ("re", "im")

    def __init__(self, re=0, im=0):
        self.re, self.im = Fraction(re), Fraction(im)

    @staticmethod
    def of(v):
        return v if isinstance(v, CQ) else (CQ(v.real, v.imag) if isinstance(v, complex) else CQ(v))

    def __add__(self, o): return CQ(self.re + o.re, self.im + o.im)
    def __sub__(self, o): return CQ(self.re - o.re, self.im - o.im)
    def __mul__(self, o): return CQ(self.re * o.re - self.im * o.im, self.re * o.im + self.im * o.re)
    def conj(self): return CQ(self.re, -self.im)
    def abs1(self): return abs(self.re) + abs(self.im)          # >= modulus
    def iszero(self): return self.re == 0 and self.im == 0


PREC = {"s": dict(flag="-DPREC_S", ncomp=1, u=U24, single=True), "d": dict(flag="-DPREC_D", ncomp=1, u=U53, single=False),
        "c": dict(flag="-DPREC_C", ncomp=2, u=U24, single=True), "z": dict(flag="-DPREC_Z", ncomp=2, u=U53, single=False)}


def f32(x):
    return struct.unpack("<f", struct.pack("<f", x))[0]


def conv_val(rng, v, P):
    """map a generated double to a value of precision P (complex: pair it with a second component)"""
    if P["ncomp"] == 2:
        im = 0.0 if (v in (0.0, 1.0, -1.0)) else rng.uniform(-1.5, 1.5) * (abs(v) if v else 1.0)
        if P["single"]:
            return complex(f32(v), f32(im))
        return complex(v, im)
    return f32(v) if P["single"] else v


def conv_case(rng, c, P):
    """convert the numeric payload of a case to precision P (in place on a copy)"""
    c = dict(c)
    cv = lambda v: conv_val(rng, v, P)
    for k in ("alpha", "beta"):
        if k in c:
            c[k] = cv(c[k])
    finite_y = all(math.isfinite(v.real if isinstance(v, complex) else v) for k2 in ("y", "c") if isinstance(c.get(k2), list) for v in c[k2])
    if P["ncomp"] == 2 and "alpha" in c and "beta" in c and finite_y and rng.random() < 0.4:
        # complex scalars at the special-case boundaries of the level-2/3 routines: a purely imaginary (or zero) alpha, a beta whose
        # REAL part is exactly 1 or 0 while the scalar is not the real 1 or 0 -- tests like `alpha == 0 && beta == 1` must look at
        # both components
        c["alpha"] = rng.choice([complex(0, 1), complex(0, -2.5), complex(0, 0.75), complex(0, 0), c["alpha"]])
        c["beta"] = rng.choice([complex(1, 0.5), complex(1, -3), complex(0, 1), complex(0, -0.5), c["beta"]])
        c["ak"] = c["bk"] = "cplx-special"
    for k in ("x", "y", "b", "c", "M", "rhs", "vec", "Mx", "a", "bval"):
        if k in c and isinstance(c[k], list):
            c[k] = [cv(v) for v in c[k]]
    if "A" in c:
        A = dict(c["A"])
        A["val"] = [cv(v) for v in A["val"]]
        c["A"] = A
    if c["op"] == "factor":
        c["val"] = [cv(v) for v in c["val"]]
    return c


def vals_of(tok, ncomp):
    """hex tokens -> python numbers (complex when ncomp == 2)"""
    ds = [dbl_of_bits(int(x, 16)) for x in tok]
    return ds if ncomp == 1 else [complex(ds[2 * i], ds[2 * i + 1]) for i in range(len(ds) // 2)]


def kp_gemv(c, yres, P, conjugate_for_C=True, collect=None):
    """exact dense definition of y := alpha*op(A)*x + beta*y over CQ with the gamma bound"""
    A = c["A"]
    m, n = A["m"], A["n"]
    tr = c["tr"].upper()
    notran = tr == "N"
    cols = [[(A["rowind"][p], CQ.of(A["val"][p])) for p in range(A["colptr"][j], A["colptr"][j + 1])] for j in range(n)]
    lenx, leny = (n, m) if notran else (m, n)
    if m == 0 or n == 0:
        return None if all(bits_of(float(a.real if isinstance(a, complex) else a)) == bits_of(float(b.real if isinstance(b, complex) else b))
                           for a, b in zip(yres, c["y"])) else "y modified for an empty matrix"
    incx, incy = c["incx"], c["incy"]
    kx = 0 if incx > 0 else -(lenx - 1) * incx
    ky = 0 if incy > 0 else -(leny - 1) * incy
    al, be = CQ.of(c["alpha"]), CQ.of(c["beta"])
    X = lambda j: CQ.of(c["x"][c["xo"] + kx + j * incx])
    acc = [CQ() for _ in range(leny)]
    mag = [Fraction(0) for _ in range(leny)]
    cnt = [0] * leny
    for j in range(n):
        for (i, a) in cols[j]:
            if notran:
                acc[i] = acc[i] + a * X(j); mag[i] += a.abs1() * X(j).abs1(); cnt[i] += 1
            else:
                aa = a.conj() if (tr == "C" and conjugate_for_C) else a
                acc[j] = acc[j] + aa * X(i); mag[j] += a.abs1() * X(i).abs1(); cnt[j] += 1
    touched = set()
    for i in range(leny):
        iy = c["yo"] + ky + i * incy
        touched.add(iy)
        yin = c["y"][iy]
        y0 = CQ() if be.iszero() else CQ.of(yin)        # beta = 0: y is not read (it may hold anything, NaN included)
        ex = al * acc[i] + be * y0
        bound = gamma((cnt[i] + 3) * (4 if P["ncomp"] == 2 else 1), P["u"]) * (al.abs1() * mag[i] + be.abs1() * y0.abs1())
        yo_ = yres[iy]
        if not (math.isfinite(yo_.real) and math.isfinite(yo_.imag if isinstance(yo_, complex) else 0.0)):
            return "y[%d]: got %r (input entry %r, beta %r)" % (iy, yo_, yin, c["beta"])
        err = (CQ.of(yres[iy]) - ex).abs1()
        if err > bound:
            return "y[%d]: got %r, |err|=%.3e > bound %.3e" % (iy, yres[iy], float(err), float(bound))
    if collect is not None:
        collect |= touched
        return None
    for i in range(len(c["y"])):
        if i not in touched and not (CQ.of(yres[i]) - CQ.of(c["y"][i])).iszero():
            return "y[%d] outside the vector was modified" % i
    return None


def kp_lu_dense(Fc):
    n = Fc["n"]
    Lm = [dict() for _ in range(n)]      # row -> {col: CQ}
    Um = [dict() for _ in range(n)]

    def addto(M, i, j, v):
        M[i][j] = M[i].get(j, CQ()) + v
    for i in range(n):
        addto(Lm, i, i, CQ(1))
    for k in range(Fc["nsuper"] + 1):
        f, e = Fc["supbeg"][k], Fc["supend"][k]
        rows = Fc["rowind"][Fc["ribeg"][f]:Fc["riend"][f]]
        for j in range(f, e):
            for p, i in enumerate(rows):
                v = CQ.of(Fc["lval"][Fc["nzbeg"][j] + p])
                if p < e - f:
                    addto(Um if f + p <= j else Lm, f + p, j, v)
                else:
                    addto(Lm, i, j, v)
    for j in range(n):
        for p in range(Fc["ucolbeg"][j], Fc["ucolend"][j]):
            addto(Um, Fc["urowind"][p], j, CQ.of(Fc["uval"][p]))
    return Lm, Um


def kp_trsv(c, xres, P, conj=False):
    """componentwise residual of op(T) xhat = b in exact arithmetic"""
    Fc = c["F"]
    n = Fc["n"]
    if "LUc" not in Fc:
        Fc["LUc"] = kp_lu_dense(Fc)
    Tm = Fc["LUc"][0] if c["uplo"].upper() == "L" else Fc["LUc"][1]
    tr = c["tr"].upper() != "N"
    s = [CQ() for _ in range(n)]
    mag = [Fraction(0)] * n
    xs = [CQ.of(v) for v in xres[:n]]
    for i in range(n):
        for j, a in Tm[i].items():
            if tr:
                aa = a.conj() if conj else a
                s[j] = s[j] + aa * xs[i]; mag[j] += a.abs1() * xs[i].abs1()
            else:
                s[i] = s[i] + a * xs[j]; mag[i] += a.abs1() * xs[j].abs1()
    g = gamma((n + 3) * (4 if P["ncomp"] == 2 else 1), P["u"])
    for i in range(n):
        r = (CQ.of(c["x"][i]) - s[i]).abs1()
        if r > g * mag[i]:
            return "row %d: residual %.3e > bound %.3e" % (i, float(r), float(g * mag[i]))
    return None


def kp_kernel(c, res, P):
    op = c["op"]
    ldm, mo = c["ldm"], c["mo"]
    Mv = lambda r, cc: CQ.of(c["M"][mo + r + cc * ldm])
    mult = 4 if P["ncomp"] == 2 else 1
    if op == "matvec":
        for k in range(c["nrow"]):
            ex, mag = CQ.of(c["Mx"][c["xo"] + k]), CQ.of(c["Mx"][c["xo"] + k]).abs1()
            for j in range(c["ncol"]):
                t = Mv(k, j) * CQ.of(c["vec"][c["vo"] + j])
                ex = ex + t; mag += Mv(k, j).abs1() * CQ.of(c["vec"][c["vo"] + j]).abs1()
            if (CQ.of(res[c["xo"] + k]) - ex).abs1() > gamma((c["ncol"] + 2) * mult, P["u"]) * mag:
                return "Mxvec[%d]" % k
        return None
    n, ro = c["ncol"], c["ro"]
    xh = [CQ.of(v) for v in res[ro:ro + n]]
    g = gamma((n + 3) * mult, P["u"])
    for i in range(n):
        s, mag = CQ(), Fraction(0)
        for j in range(n):
            a = (Mv(i, j) if j < i else CQ(1 if j == i else 0)) if op == "lsolve" else (Mv(i, j) if j >= i else CQ())
            s = s + a * xh[j]; mag += a.abs1() * xh[j].abs1()
        if (CQ.of(c["rhs"][ro + i]) - s).abs1() > g * mag:
            return "row %d residual" % i
    return None


def kp_langs(c, val, P):
    A = c["A"]
    nm = c["norm"].upper()
    if min(A["m"], A["n"]) == 0:
        return None if val == 0 else "empty matrix norm %r" % val
    # |a| of a complex entry is an irrational modulus: bracket it by exact rationals via squares
    def mod_bounds(v):
        z = CQ.of(v)
        sq = z.re * z.re + z.im * z.im
        if z.im == 0:
            return abs(z.re), abs(z.re)
        r = Fraction(math.sqrt(float(sq)))
        return r * (1 - Fraction(1, 10 ** 9)), r * (1 + Fraction(1, 10 ** 9))
    cols = [[mod_bounds(A["val"][p]) for p in range(A["colptr"][j], A["colptr"][j + 1])] for j in range(A["n"])]
    k = 1
    if nm == "M":
        lo = max([max(b[0] for b in col) if col else Fraction(0) for col in cols] + [Fraction(0)])
        hi = max([max(b[1] for b in col) if col else Fraction(0) for col in cols] + [Fraction(0)])
    elif nm in ("O", "1"):
        lo = max([sum((b[0] for b in col), Fraction(0)) for col in cols] + [Fraction(0)])
        hi = max([sum((b[1] for b in col), Fraction(0)) for col in cols] + [Fraction(0)])
        k = max([len(col) for col in cols] + [1])
    elif nm == "I":
        rl, rh, cnt = [Fraction(0)] * A["m"], [Fraction(0)] * A["m"], [0] * A["m"]
        for j in range(A["n"]):
            for q, p in enumerate(range(A["colptr"][j], A["colptr"][j + 1])):
                i = A["rowind"][p]
                rl[i] += cols[j][q][0]; rh[i] += cols[j][q][1]; cnt[i] += 1
        lo, hi, k = max(rl + [Fraction(0)]), max(rh + [Fraction(0)]), max(cnt + [1])
    else:
        return None
    g = gamma((k + 2) * (4 if P["ncomp"] == 2 else 1), P["u"])
    v = Fraction(val)
    return None if lo * (1 - g) <= v <= hi * (1 + g) else "norm %s: %r not in [%.9g, %.9g]" % (nm, val, float(lo), float(hi))


def kp_gemm(c, cres, P, conjugate_for_C=True):
    """sp_?gemm column by column against the exact dense definition (kp_gemv on each column of B and C); entries of C outside the
    m x n block (leading-dimension padding) must be untouched"""
    A = c["A"]; tr = c["tr"].upper(); notran = tr == "N"
    rows_b = A["n"] if notran else A["m"]
    rows_c = A["m"] if notran else A["n"]
    ldb, ldc, nrhs = c["ldb"], c["ldc"], c["n"]
    for j in range(nrhs):
        sub = {"A": A, "tr": c["tr"], "alpha": c["alpha"], "beta": c["beta"], "incx": 1, "incy": 1, "xo": 0, "yo": 0,
               "x": c["b"][j * ldb: j * ldb + rows_b], "y": c["c"][j * ldc: j * ldc + rows_c]}
        why = kp_gemv(sub, cres[j * ldc: j * ldc + rows_c], P, conjugate_for_C=conjugate_for_C)
        if why:
            return "column %d: %s" % (j, why)
        for i in range(rows_c, ldc):
            a, b = cres[j * ldc + i], c["c"][j * ldc + i]
            if a != b and not (a != a and b != b):
                return "column %d: padding entry C(%d,%d) was written" % (j, i, j)
    return None


def kp_oracle(c, r, P):
    """property oracle on a C result of precision P; returns None | description; findings handled by caller"""
    st, tok = r
    op = c["op"]
    nc = P["ncomp"]
    if st.startswith("crash"):
        return "the routine crashed (%s)" % st
    if op == "gemv":
        if st != "ok":
            return "status " + st
        return kp_gemv(c, vals_of(tok[1:1 + int(tok[0]) * nc], nc), P)
    if op == "gemm":
        if st != "ok":
            return "status " + st
        return kp_gemm(c, vals_of(tok[1:1 + int(tok[0]) * nc], nc), P)
    if op in ("lsolve", "usolve", "matvec"):
        return kp_kernel(c, vals_of(tok[1:1 + int(tok[0]) * nc], nc), P) if st == "ok" else "status " + st
    if op == "langs":
        return kp_langs(c, dbl_of_bits(int(tok[1], 16)), P) if st == "ok" else "status " + st
    if op == "trsv":
        if st != "ok":
            return "status " + st
        return kp_trsv(c, vals_of(tok[2:2 + int(tok[1]) * nc], nc), P, conj=(c["tr"].upper() == "C"))
    return None


def dense_copy_stream(ctx, exe, prec, nscale):
    """?Copy_Dense_Matrix(M, N, X, ldx, Y, ldy) must give Y(i,j) = X(i,j) for i < M, j < N and touch nothing else: exact oracle on
    shapes with every relation between the leading dimensions (ldx = ldy = M, ldx = ldy > M, ldx <> ldy), N = 0..5, M = 0..9"""
    rng = ctx.rng
    nc = PREC[prec]["ncomp"] if "ncomp" in PREC[prec] else (2 if prec in "cz" else 1)
    cases = []
    shapes = [(5, 3, 8, 8), (4, 1, 4, 4), (3, 4, 3, 3), (6, 2, 9, 7), (2, 5, 2, 6), (0, 3, 2, 2), (3, 0, 3, 3), (1, 4, 3, 3)]
    for _ in range(4 * nscale):
        M = rng.randint(0, 9); N = rng.randint(0, 5); pad = rng.choice([0, 0, 1, 3])
        ldx = M + pad + (0 if rng.random() < 0.6 else rng.randint(0, 2)); ldy = ldx if rng.random() < 0.6 else M + rng.randint(0, 3)
        shapes.append((M, N, max(ldx, 1), max(ldy, 1)))
    for k, (M, N, ldx, ldy) in enumerate(shapes):
        mk = (lambda: complex(rng.randint(-9, 9), rng.randint(-9, 9))) if nc == 2 else (lambda: float(rng.randint(-99, 99)))
        X = [mk() for _ in range(ldx * max(N, 1) + 2)]
        Y = [(complex(-777.0, 555.0) if nc == 2 else -777.0)] * (ldy * max(N, 1) + 2)
        cases.append({"op": "dncopy", "id": "dn%s%d" % (prec, k), "M": M, "N": N, "ldx": ldx, "ldy": ldy, "X": X, "Y": Y})
    res = run_harness(exe, cases)
    nbad = 0
    for c in cases:
        ctx.count((prec, "dncopy", c["M"], c["N"], c["ldx"], c["ldy"], tuple(c["X"][:4])), kind="dncopy:" + ("same-ld-padded" if c["ldx"] == c["ldy"] > c["M"] else "other"))
        why = dncopy_oracle(c, res.get(c["id"], ("missing", [])), nc)
        if why:
            nbad += 1
            ctx.violation("%sCopy_Dense_Matrix(M=%d, N=%d, ldx=%d, ldy=%d) does not preserve the matrix: %s" % (prec, c["M"], c["N"], c["ldx"], c["ldy"], why),
                          {"kind": "dncopy", "prec": prec, "case": c if nc == 1 else dict(c, X=[[z.real, z.imag] for z in c["X"]], Y=[[z.real, z.imag] for z in c["Y"]]), "expect": "property-oracle"},
                          key={"routine": "?Copy_Dense_Matrix", "class": why[:24]})
    ctx.corr("dense-copy-exact:" + prec, len(cases))
    return nbad


def dncopy_oracle(c, r, nc):
    if True:
        st, tok = r
        why = None
        if st != "ok":
            why = "the routine did not return normally (%s)" % st
        else:
            got = vals_of(tok[1:1 + int(tok[0]) * nc], nc)
            for j in range(c["N"]):
                for i in range(c["ldy"]):
                    want = c["X"][j * c["ldx"] + i] if i < c["M"] else c["Y"][0]
                    if got[j * c["ldy"] + i] != want:
                        why = why or "Y(%d,%d) = %s, expected %s (%s)" % (i, j, got[j * c["ldy"] + i], want, "X(%d,%d)" % (i, j) if i < c["M"] else "the padding must stay untouched")
            for q in range(c["N"] * c["ldy"], len(c["Y"])):
                if got[q] != c["Y"][0]:
                    why = why or "storage behind the last column of Y was written"
        return why


def kpred_run(ctx, flavor, prec, nscale):
    """K-pred on precision `prec` of library flavour `flavor` (oracle only, no model comparison)"""
    P = PREC[prec]
    rng = ctx.rng
    lib, fl = ctx.build_lib(flavor)
    # the vendor flavour needs level-3 BLAS (?trsm/?gemm in ?gstrs) that /repo/CBLAS does not contain: taken from OpenBLAS;
    # level-1/2 routines still resolve to /repo/CBLAS (the archive precedes -lopenblas)
    exe = ctx.cc_harness("spblas_%s_%s" % (prec, flavor), ["spblas_harness.c", "sp_ienv_verif.c"], lib, fl + [P["flag"]],
                         extra_link=["-lopenblas"] if flavor == "vendor" else ())
    cases, k = [], 0
    for tr in ["N", "T", "C"]:
        for ak in SCALARS:
            k += 1
            bk = rng.choice(SCALARS)
            inc = rng.choice([1, -1, 2])
            cases.append(gen_gemv(rng, k, {"tr": tr, "ak": ak, "bk": bk, "incx": inc if tr == "N" else 1, "incy": 1 if tr == "N" else inc}))
    for _ in range(8 * nscale):
        k += 1
        tr = rng.choice(["N", "T", "C"])
        inc = rng.choice([1, -1, 2, 3])
        cases.append(gen_gemv(rng, k, {"tr": tr, "incx": inc if tr == "N" else 1, "incy": 1 if tr == "N" else inc}))
    for which in ("lsolve", "usolve", "matvec"):
        for ncol in (0, 1, 2, 3, 4, 5, 7, 8, 9, 12, 17):
            k += 1
            cases.append(gen_kernel(rng, k, which, ncol, styles=("unit",)))
    for nm in ["M", "1", "I"]:
        for _ in range(2):
            k += 1
            cases.append(gen_langs(rng, k, nm))
    # sp_?gemm in this precision (the real complex twins are separate source files): N and T (trans = 'C' is the known
    # no-conjugation finding of the complex sp_?gemv it calls)
    for _ in range(10 * nscale):
        k += 1
        g = gen_gemm(rng, k)
        if P["ncomp"] == 2 and g["tr"] == "C":
            g["tr"] = "T"                 # same shapes as 'C'
        cases.append(g)
    cases = [conv_case(rng, c, P) for c in cases]
    for c in cases:
        c["id"] = prec + c["id"]
    fcases = []
    for i in range(3 * nscale):
        fm = gen_factor_matrix(rng)
        fm.update(op="factor", id="%sf%d" % (prec, i))
        fcases.append(conv_case(rng, fm, P))
    fres = run_harness(exe, fcases)
    factors = [x for x in (parse_factor_p(fm, fres.get(fm["id"]), P) for fm in fcases) if x is not None]
    # synthetic supernodal factors: a singleton with sub-diagonal rows followed by wide supernodes (work-vector reuse)
    for sizes in ([1, 2, 2, 2], [1, 3, 1, 2, 4, 2]):
        Fs = gen_synth_lu(rng, sizes)
        Fs["lval"] = [conv_val(rng, v, P) for v in Fs["lval"]]
        Fs["uval"] = [conv_val(rng, v, P) for v in Fs["uval"]]
        factors.append(Fs)
    tc = []
    combos = [("L", "N", "U"), ("U", "N", "N"), ("L", "T", "U"), ("U", "T", "N")]
    for Fc in factors:
        for (ul, tr, dg) in combos:
            k += 1
            x = [conv_val(rng, v, P) for v in gen_vec(rng, Fc["n"], "unit", zeros=0.1)]
            tc.append({"op": "trsv", "id": "%st%d" % (prec, k), "uplo": ul, "tr": tr, "diag": dg, "F": Fc, "x": x})
    res = run_harness(exe, cases + tc)
    nbad = dense_copy_stream(ctx, exe, prec, nscale)
    for c in cases + tc:
        if c["id"] not in res:
            ctx.broken.append("K-pred %s/%s: no result for %s" % (flavor, prec, c["id"]))
            continue
        why = kp_oracle(c, res[c["id"]], P)
        ctx.count({"flavor": flavor, "prec": prec, "case": repr(slimc(c))[:4000]}, nontrivial=True, kind="%s/%s:%s" % (flavor, prec, c["op"]))
        ctx.corr("exact-oracle:%s/%s" % (flavor, prec), 1)
        if why is None:
            continue
        # complex transposed product with trans='C': the code does not conjugate (documented as conjg(A'))
        if c["op"] == "gemv" and c["tr"].upper() == "C" and P["ncomp"] == 2:
            plainT = kp_gemv(c, vals_of(res[c["id"]][1][1:1 + int(res[c["id"]][1][0]) * 2], 2), P, conjugate_for_C=False)
            if plainT is None:
                ctx.violation("sp_%sgemv with trans='C' returns alpha*A^T*x + beta*y (no conjugation) on a complex matrix: %s" % (prec, why),
                              {"kind": "kpred", "flavor": flavor, "prec": prec, "case": slimc(c)},
                              key={"routine": "sp_?gemv", "class": "trans-C-not-conjugated", "precision": "complex"})
                continue
        nbad += 1
        if c["op"] == "trsv" and P["ncomp"] == 2 and c["uplo"] == "L" and c["tr"] == "N":
            ctx.violation("sp_%strsv(\"L\",\"N\",\"U\") returns a wrong solution (%s); the forward solve resets work[] with the "
                          "scratch variable comp_zero" % (prec, why),
                          {"kind": "kpred", "flavor": flavor, "prec": prec, "case": slimc(c)},
                          key={"routine": "sp_?trsv", "class": "complex-LN-work-reset-with-scratch"})
            continue
        ctx.violation("%s (%s precision, %s flavour): C result violates the dense definition: %s" % (c["op"], prec, flavor, why),
                      {"kind": "kpred", "flavor": flavor, "prec": prec, "case": slimc(c)},
                      key={"routine": c["op"], "class": "wrong-result", "precision": prec, "flavor": flavor, "detail": c.get("tr", "")})
    return len(cases) + len(tc), nbad


def slimc(c):
    """JSON-able case with complex numbers as [re, im]"""
    def enc(v):
        if isinstance(v, complex):
            return {"re": v.real, "im": v.imag}
        if isinstance(v, list):
            return [enc(x) for x in v]
        if isinstance(v, dict):
            return {k: enc(x) for k, x in v.items() if k not in ("LU", "LUc", "dense")}
        return v
    return enc(c)


def unslimc(c):
    def dec(v):
        if isinstance(v, dict) and set(v.keys()) == {"re", "im"}:
            return complex(v["re"], v["im"])
        if isinstance(v, list):
            return [dec(x) for x in v]
        if isinstance(v, dict):
            return {k: dec(x) for k, x in v.items()}
        return v
    return dec(c)


def parse_factor_p(c, r, P):
    if r is None:
        return None
    Fc = parse_factor(c, r, 1)  if P["ncomp"] == 1 else parse_factor_c(c, r)
    return Fc


def parse_factor_c(c, r):
    """complex factors: values come as (re, im) pairs"""
    st, tok = r
    info, n = int(tok[0]), int(tok[1])
    if st != "ok" or info != 0:
        return None
    p = 2
    ns = int(tok[p]); p += 1

    def fv(p):
        k = int(tok[p]) * 2
        return vals_of(tok[p + 1:p + 1 + k], 2), p + 1 + k
    lval, p = fv(p)
    nzbeg, p = take_vec(tok, p, False); nzend, p = take_vec(tok, p, False)
    rowind, p = take_vec(tok, p, False)
    ribeg, p = take_vec(tok, p, False); riend, p = take_vec(tok, p, False)
    col2sup, p = take_vec(tok, p, False); supbeg, p = take_vec(tok, p, False); supend, p = take_vec(tok, p, False)
    uval, p = fv(p)
    urow, p = take_vec(tok, p, False); ucb, p = take_vec(tok, p, False); uce, p = take_vec(tok, p, False)
    return {"n": n, "nsuper": ns, "lval": lval, "nzbeg": nzbeg, "nzend": nzend, "rowind": rowind, "ribeg": ribeg, "riend": riend,
            "col2sup": col2sup, "supbeg": supbeg, "supend": supend, "uval": uval, "urowind": urow, "ucolbeg": ucb, "ucolend": uce,
            "src": "p?gssv:" + c["kind"]}


# ----------------------------------------------------------------------------------- extracted exact (Qc) model
def qhex(x):
    f = Fraction(x)
    return "%s%x/%x" % ("-" if f < 0 else "", abs(f.numerator), f.denominator)


def qparse(t):
    a, b = t.split("/")
    return Fraction(int(a, 16), int(b, 16))


def to_q(c):
    if c["op"] == "gemv":
        A = c["A"]
        return "gemv %s %s %s %s %d %d %d %d %d %d %d %s %s %s %d %s %d %s\n" % (
            c["id"], c["tr"], qhex(c["alpha"]), qhex(c["beta"]), c["xo"], c["incx"], c["yo"], c["incy"], A["m"], A["n"], len(A["val"]),
            c_ivec(A["colptr"]), c_ivec(A["rowind"]), " ".join(qhex(v) for v in A["val"]), len(c["x"]), " ".join(qhex(v) for v in c["x"]),
            len(c["y"]), " ".join(qhex(v) for v in c["y"]))
    F_ = c["F"]
    qv = lambda v: "%d %s" % (len(v), " ".join(qhex(x) for x in v))
    return "trsv %s %s %s %s %d %d %s %s %s %d %s %s %s %s %s %s %s %s %s %s %s\n" % (
        c["id"], c["uplo"], c["tr"], c["diag"], F_["n"], F_["nsuper"], qv(F_["lval"]), c_ivec(F_["nzbeg"]), c_ivec(F_["nzend"]),
        len(F_["rowind"]), c_ivec(F_["rowind"]), c_ivec(F_["ribeg"]), c_ivec(F_["riend"]), c_ivec(F_["col2sup"]),
        c_ivec(F_["supbeg"]), c_ivec(F_["supend"]), qv(F_["uval"]), c_ivec(F_["urowind"]), c_ivec(F_["ucolbeg"]),
        c_ivec(F_["ucolend"]), qv(c["x"]))


def qmodel_check(ctx, drv, cases, cres):
    """the extracted Qc instance (the object of the exact theorems) against the dense definition evaluated independently
    in Python, and its status against the C status"""
    sel = [c for c in cases if c["op"] == "gemv" and c.get("fmt", "NC") == "NC" and tch(c["tr"]) != "cX" and c["incx"] and c["incy"]
           and all(math.isfinite(v.real) and math.isfinite(v.imag if isinstance(v, complex) else 0.0) for v in c["y"])][:60]    # rationals have no NaN
    sel += sorted([c for c in cases if c["op"] == "trsv" and c["tr"] in "NT" and c["uplo"] in "LU" and c["diag"] in "UN"],
                  key=lambda c: c["F"]["n"])[:24]
    rc, out, err = vf.sh2([drv], inp="".join(to_q(c) for c in sel), timeout=600)
    if rc != 0:
        raise vf.CheckError("extracted model driver failed: " + err[-400:])
    res = {}
    for ln in out.split("\n"):
        if ln.startswith("R "):
            t = ln.split()
            res[t[1]] = (t[2], [qparse(x) for x in t[4:]])
    n = 0
    for c in sel:
        st, v = res[c["id"]]
        n += 1
        cst = cres[c["id"]][0] if c["id"] in cres else None
        if cst is not None and cst != st:
            ctx.broken.append("correspondence Qc-model status %s: model %s, C %s" % (c["id"], st, cst))
            continue
        if st != "ok":
            continue
        if c["op"] == "gemv":
            A = c["A"]
            D = dense_of(A)
            notran = c["tr"].upper() == "N"
            lenx, leny = (A["n"], A["m"]) if notran else (A["m"], A["n"])
            if A["m"] == 0 or A["n"] == 0:
                continue
            kx = 0 if c["incx"] > 0 else -(lenx - 1) * c["incx"]
            ky = 0 if c["incy"] > 0 else -(leny - 1) * c["incy"]
            for i in range(leny):
                iy = c["yo"] + ky + i * c["incy"]
                ex = F(c["alpha"]) * sum(((D[i][j] if notran else D[j][i]) * F(c["x"][c["xo"] + kx + j * c["incx"]]) for j in range(lenx)),
                                         Fraction(0)) + F(c["beta"]) * F(c["y"][iy])
                if v[iy] != ex:
                    ctx.broken.append("extracted Qc gemv differs from the dense definition on %s (y[%d])" % (c["id"], iy))
                    break
        else:
            Fc = c["F"]
            if "LU" not in Fc:
                Fc["LU"] = lu_dense(Fc)
            Tm = Fc["LU"][0] if c["uplo"] == "L" else Fc["LU"][1]
            nn = Fc["n"]
            for i in range(nn):
                row = [Tm[j][i] for j in range(nn)] if c["tr"] == "T" else Tm[i]
                if sum((a * x for a, x in zip(row, v[:nn]) if a != 0), Fraction(0)) != F(c["x"][i]):
                    ctx.broken.append("extracted Qc trsv: op(T)*x' <> b on %s (row %d)" % (c["id"], i))
                    break
    ctx.corr("extracted-Qc-model-vs-dense-definition", n)


# ----------------------------------------------------------------------------------- shrinking
def shrink_case(c, still_fails):
    """greedy: drop columns / entries of the sparse matrix of a gemv/langs case while it still fails"""
    if c["op"] not in ("gemv", "langs") or c.get("fmt", "NC") != "NC":
        return c
    cur = c
    for _ in range(200):
        A = cur["A"]
        if not A["val"]:
            break
        progressed = False
        for p in range(len(A["val"])):
            B = dict(A)
            j = max(jj for jj in range(A["n"]) if A["colptr"][jj] <= p)
            B["rowind"] = A["rowind"][:p] + A["rowind"][p + 1:]
            B["val"] = A["val"][:p] + A["val"][p + 1:]
            B["colptr"] = [x - (1 if jj > j else 0) for jj, x in enumerate(A["colptr"])]
            cand = dict(cur, A=B)
            cand.pop("dense", None)
            if still_fails(cand):
                cur, progressed = cand, True
                break
        if not progressed:
            break
    return cur


# ----------------------------------------------------------------------------------- findings of the unchanged tree
def finding_key(c, st):
    """structured identification of the documented-but-unimplemented paths"""
    op = c["op"]
    if op == "gemv" and st == "abort" and c.get("fmt", "NC") == "NC":
        notran = c["tr"].upper() == "N"
        return {"routine": "sp_?gemv", "class": "not-implemented-stride", "trans": "N" if notran else "T/C",
                "stride": "incy!=1" if notran else "incx!=1"}
    if op == "langs" and st == "abort" and c["norm"].upper() in "FE":
        return {"routine": "?langs", "class": "not-implemented-frobenius"}
    return None


# ----------------------------------------------------------------------------------- driver
def build_cases(ctx, nscale):
    rng = ctx.rng
    cases = []
    k = 0
    # gemv: the full (alpha kind x beta kind x trans) grid on implemented strides, then random
    for tr in ["N", "T", "C"]:
        for ak in SCALARS:
            for bk in SCALARS:
                k += 1
                inc = rng.choice([1, -1, 2, -3])
                cases.append(gen_gemv(rng, k, {"tr": tr, "ak": ak, "bk": bk, "incx": inc if tr == "N" else 1, "incy": 1 if tr == "N" else inc}))
    for _ in range(40 * nscale):
        k += 1
        cases.append(gen_gemv(rng, k))
    # illegal arguments
    for f in [{"tr": "X"}, {"incx": 0, "incy": 1}, {"incx": 1, "incy": 0}]:
        k += 1
        cases.append(gen_gemv(rng, k, dict(f)))
    for _ in range(10 * nscale):
        k += 1
        cases.append(gen_gemm(rng, k))
    for which in ("lsolve", "usolve", "matvec"):
        for ncol in range(0, 22):
            k += 1
            cases.append(gen_kernel(rng, k, which, ncol))
        for _ in range(6 * nscale):
            k += 1
            cases.append(gen_kernel(rng, k, which))
    for nm in ["M", "1", "O", "I", "F", "E"]:
        k += 1
        cases.append(gen_langs(rng, k, nm))
    for _ in range(12 * nscale):
        k += 1
        cases.append(gen_langs(rng, k))
    for _ in range(10 * nscale):
        k += 1
        cases.append(gen_cr2cc(rng, k))
    for _ in range(6 * nscale):
        k += 1
        cases.append(gen_copy(rng, k))
    return cases, k


def trsv_cases(rng, factors, k, per=None):
    cases = []
    combos = [("L", "N", "U"), ("U", "N", "N"), ("L", "T", "U"), ("U", "T", "N")]
    for Fc in factors:
        for (ul, tr, dg) in (combos if per is None else [rng.choice(combos) for _ in range(per)]):
            k += 1
            x = gen_vec(rng, Fc["n"], "unit" if Fc.get("style") != "int" else "int", zeros=0.1)
            cases.append({"op": "trsv", "id": "t%d" % k, "uplo": ul, "tr": tr, "diag": dg, "F": Fc, "x": x})
    return cases, k


def slim(c):
    """JSON-serialisable copy of a case"""
    d = {k: v for k, v in c.items() if k not in ("dense",)}
    if "F" in d:
        d["F"] = {k: v for k, v in d["F"].items() if k != "LU"}
    return d


def evaluate(ctx, exe, cases, label):
    """K-exact on d cases: C vs vm_compute; oracle on disagreement; findings on agreed aborts"""
    t0 = time.time()
    cres = run_harness(exe, cases)
    coqres = run_coq(ctx, cases, label)
    ctx.log("%s: %d cases evaluated on both sides in %.1fs" % (label, len(cases), time.time() - t0))
    bad = 0
    for c in cases:
        if c["id"] not in cres:
            ctx.broken.append("correspondence %s: no C result for %s" % (label, c["id"]))
            continue
        cr = c_result(c, cres[c["id"]])
        diff = coq_vs_c(c, coqres[c["id"]], cr)
        kind = c["op"] + (":" + c["tr"].upper() if "tr" in c and c["op"] != "trsv" else "") + \
            (":%s%s" % (c["uplo"], c["tr"]) if c["op"] == "trsv" else "") + (":" + c["norm"].upper() if c["op"] == "langs" else "")
        ctx.count(slim(c), nontrivial=True, kind=kind)
        ctx.corr("bit-exact:" + c["op"], 1)
        if diff is None:
            fk = finding_key(c, cr[0])
            if fk is not None:
                ctx.violation("%s reaches SUPERLU_ABORT(\"Not implemented.\") for a documented argument combination "
                              "(model and C agree on the abort; the property text quantifies over it): %s" % (fk["routine"], fk),
                              {"kind": "case", "case": slim(c), "expect": "property-oracle"}, key=fk)
            continue
        bad += 1
        why = oracle_for(c, cr)
        ctx.log("DISAGREEMENT %s %s: %s ; oracle: %s" % (label, c["id"], diff, why))
        if why is not None:
            small = c
            try:
                small = shrink_case(c, lambda cc: oracle_for(cc, c_result(cc, run_harness(exe, [cc])[cc["id"]])) is not None)
            except Exception:
                pass
            save_corpus(ctx, small)
            ctx.violation("%s: C result violates the dense definition (%s); model/C difference: %s" % (c["op"], why, diff),
                          {"kind": "case", "case": slim(small), "expect": "property-oracle"},
                          key={"routine": c["op"], "class": "wrong-result", "detail": kind})
        else:
            ctx.broken.append("correspondence bit-exact %s (%s): %s -- oracle passes on this input" % (c["op"], c["id"], diff))
            ctx.cov.setdefault("disagreements", []).append({"case": slim(c), "diff": diff})
    return cres, bad


def save_corpus(ctx, c):
    d = os.path.join(vf.VERIF, "corpus", "C19")
    os.makedirs(d, exist_ok=True)
    p = os.path.join(d, "%s_%s.json" % (c["op"], vf.sha(json.dumps(slim(c), sort_keys=True, default=str))[:10]))
    if not os.path.exists(p) and len(os.listdir(d)) < 40:
        json.dump(slim(c), open(p, "w"))


def load_corpus():
    d = os.path.join(vf.VERIF, "corpus", "C19")
    out = []
    if os.path.isdir(d):
        for f in sorted(os.listdir(d)):
            if f.endswith(".json"):
                c = json.load(open(os.path.join(d, f)))
                c["id"] = "corp" + f.split(".")[0].replace("_", "")
                out.append(c)
    return out


def run(ctx):
    ctx.cov["rule"] = (
        "gemv: full grid trans{N,T,C} x alpha{0,1,-1,generic} x beta{0,1,-1,generic} on implemented strides + random cases over "
        "strides {1,-1,2,-2,3}^2, offsets, 11 matrix kinds (empty columns, duplicates, unsorted, rectangular, stored zeros, "
        "1x1..14x14) + illegal arguments; gemm 0..3 right-hand sides; lsolve/usolve/matvec every ncol 0..21 (all unrolling "
        "remainders) + random offsets/leading dimensions; langs every norm letter; CompRow_to_CompCol, Copy; sp_trsv on "
        "synthetic supernodal factors (supernode widths from {1,2,3,4,5,7,8,9,12,16,17}) and on factors returned by p?gssv "
        "(1, 2 or 4 threads, 6 matrix kinds, 4 orderings, varied panel/relax/maxsuper), all four uplo/trans combinations. A case is "
        "non-trivial when it reaches the arithmetic (all but the illegal-argument cases).")
    nscale = 1 if ctx.quick() else 15
    proofs_ok = ctx.coq_properties()
    lib, fl = ctx.build_lib("hooks")
    exe = ctx.cc_harness("spblas_d", ["spblas_harness.c", "sp_ienv_verif.c"], lib, fl)
    # ---- 1. corpus + generated cases, d precision bit-exact
    cases, k = build_cases(ctx, nscale)
    corpus = [c for c in load_corpus() if c["op"] != "trsv" or True]
    # factors for the triangular solves
    rng = ctx.rng
    fcases = []
    for i in range(8 * nscale):
        fm = gen_factor_matrix(rng)
        fm.update(op="factor", id="f%d" % i)
        fcases.append(fm)
    fres = run_harness(exe, fcases)
    factors = []
    for fm in fcases:
        Fc = parse_factor(fm, fres[fm["id"]]) if fm["id"] in fres else None
        if Fc is not None:
            factors.append(Fc)
    ctx.corr("factors-from-pdgssv", len(factors))
    synth = [gen_synth_lu(rng, s) for s in ([1], [2], [3, 1], [8], [9, 4], [16, 1, 2], [17, 5])] + \
            [gen_synth_lu(rng) for _ in range(4 * nscale)]
    tc, k = trsv_cases(rng, synth + factors, k)
    # illegal arguments of sp_trsv
    if synth:
        for (ul, tr, dg) in [("X", "N", "U"), ("L", "C", "U"), ("U", "N", "X")]:
            k += 1
            tc.append({"op": "trsv", "id": "t%d" % k, "uplo": ul, "tr": tr, "diag": dg, "F": synth[2], "x": gen_vec(rng, synth[2]["n"], "unit")})
    allc = corpus + cases + tc
    cres, bad = evaluate(ctx, exe, allc, "dexact")
    drv = ctx.ocaml_model("spblas")
    qmodel_check(ctx, drv, allc, cres)
    for c in allc[:2] + tc[:1]:
        s = slim(c)
        ctx.sample({"op": s["op"], "id": s["id"], "summary": {kk: vv for kk, vv in s.items() if kk in ("tr", "alpha", "beta", "incx", "incy", "uplo", "norm", "ncol")}})
    # trans='C' is documented for sp_?trsv and rejected
    for c in tc:
        if c["tr"] == "C" and c["id"] in cres and cres[c["id"]][0].startswith("xerbla"):
            ctx.violation("sp_?trsv documents trans='C' (A'*x = b) but reports it as illegal argument 2 and returns without solving",
                          {"kind": "case", "case": slim(c), "expect": "property-oracle"},
                          key={"routine": "sp_?trsv", "class": "trans-C-rejected"})
    # ---- 2. property oracle on every d case (K-pred, independent of the model)
    n_or = 0
    for c in allc:
        if c["id"] not in cres:
            continue
        cr = c_result(c, cres[c["id"]])
        if finding_key(c, cr[0]) is not None or (c["op"] == "trsv" and (c["tr"] == "C" or tch(c["uplo"]) == "cX" or tch(c["diag"]) == "cX")):
            continue
        if c["op"] == "langs" and c["norm"].upper() in "FE":
            continue
        why = oracle_for(c, cr)
        n_or += 1
        if why is not None:
            save_corpus(ctx, c)
            ctx.violation("%s: result of the C routine violates its dense definition: %s" % (c["op"], why),
                          {"kind": "case", "case": slim(c), "expect": "property-oracle"},
                          key={"routine": c["op"], "class": "wrong-result", "detail": c.get("tr", "")})
    ctx.corr("exact-oracle:d", n_or)
    # ---- 2b. sp_?gemv documents Stype = NC *or NCP*: permuted views (as built by sp_colorder) against the dense definition
    ncp_cases = []
    for i in range(4 * nscale):
        g = gen_gemv(rng, 9000 + i, {"tr": rng.choice(["N", "T"]), "incx": 1, "incy": 1, "A": gen_csc(rng, "rand")})
        A = g["A"]
        perm = list(range(A["n"]))
        if i > 0:
            rng.shuffle(perm)
        V = dict(A, colbeg=[0] * A["n"], colend=[0] * A["n"])
        for jj in range(A["n"]):
            V["colbeg"][perm[jj]] = A["colptr"][jj]
            V["colend"][perm[jj]] = A["colptr"][jj + 1]
        # equivalent NC matrix: column perm[jj] of the view is column jj of A
        inv = [0] * A["n"]
        for jj in range(A["n"]):
            inv[perm[jj]] = jj
        B = {"m": A["m"], "n": A["n"], "colptr": [0], "rowind": [], "val": [], "kind": "ncp-equivalent", "style": A["style"]}
        for col in range(A["n"]):
            jj = inv[col]
            B["rowind"] += A["rowind"][A["colptr"][jj]:A["colptr"][jj + 1]]
            B["val"] += A["val"][A["colptr"][jj]:A["colptr"][jj + 1]]
            B["colptr"].append(len(B["rowind"]))
        g.update(A=V, fmt="NCP", equiv=B, perm=perm, id="p%d" % i)
        ncp_cases.append(g)
    pres = run_harness(exe, ncp_cases)
    for g in ncp_cases:
        cr = c_result(g, pres[g["id"]])
        why = oracle_for(dict(g, A=g["equiv"], fmt="NC"), cr)
        ctx.count(slim(g), kind="gemv:NCP")
        ctx.corr("exact-oracle:ncp", 1)
        if why is not None:
            ctx.violation("sp_?gemv on a column-permuted (NCP) matrix, a documented storage type, does not compute op(A)*x: %s "
                          "(the routine reads colbeg[j+1] where colend[j] is meant)" % why,
                          {"kind": "case", "case": slim(g), "expect": "property-oracle"},
                          key={"routine": "sp_?gemv", "class": "ncp-storage"})
    dense_copy_stream(ctx, exe, "d", nscale)
    # ---- 3. K-pred: the other precisions and the USE_VENDOR_BLAS code paths against the exact oracle
    plan = [("hooks", "s"), ("hooks", "c"), ("hooks", "z"), ("vendor", "d")]
    if not ctx.quick():
        plan += [("vendor", "s"), ("vendor", "c"), ("vendor", "z")]
    for flavor, prec in plan:
        t0 = time.time()
        ncase, nbad = kpred_run(ctx, flavor, prec, nscale)
        ctx.log("K-pred %s/%s: %d cases, %d oracle failures, %.1fs" % (flavor, prec, ncase, nbad, time.time() - t0))
    if ctx.broken and any(v["found"] for v in ctx.violations):
        # finish() only prints the no-failing-input line when nothing else was found; keep it visible next to the findings
        ctx.violation("proof obligation or correspondence no longer checks: %s" % "; ".join(ctx.broken)[:1500],
                      {"kind": "obligation", "broken": ctx.broken}, found_input=False)
    ctx.cov["partial"] += [
        "rounded sp_?gemv: proved with the constant gamma(n+2) for columns without repeated row indices (c19_gemv_rounded_partial) and "
        "with gamma(#stored entries of the row + 2) in general (gemv_rounded_general); the statement over ALL inputs is refuted "
        "(c19_gemv_rounded_full_refuted: a duplicated entry); the executed oracle bounds by stored entries accordingly; "
        "trsv_rounded_full stays a Definition: enforced as the exact-rational oracle on every C result",
        "trsv_*_exact assume wf_factor, which numbers the supernodes in column order (true for 1-thread factorizations); with several "
        "threads the numbering is only a topological order (C09 clauses 24/25) -- those factors are covered by the bit-exact "
        "correspondence and the residual oracle, not by the theorems",
        "complex kernels (c, z) have no Gallina model: exact oracle only; trans='C' conjugation is outside the real-arithmetic model",
    ]
    ctx.cov["trusted_base"] += [
        "Coq primitive floats = IEEE-754 binary64 = gcc -O2 -ffp-contract=off doubles on x86-64 (FloatAxioms are not used by any theorem; "
        "the float instance is only executed)",
        "hex float literals: Python float.hex() -> Coq hexadecimal float notation / strtod",
    ]
    return 0


def replay(ctx, obj):
    rp = obj.get("replay", obj)
    if rp.get("kind") == "kpred":
        P = PREC[rp["prec"]]
        c = unslimc(rp["case"])
        lib, fl = ctx.build_lib(rp["flavor"])
        exe = ctx.cc_harness("spblas_%s_%s" % (rp["prec"], rp["flavor"]), ["spblas_harness.c", "sp_ienv_verif.c"], lib, fl + [P["flag"]],
                             extra_link=["-lopenblas"] if rp["flavor"] == "vendor" else ())
        why = kp_oracle(c, run_harness(exe, [c])[c["id"]], P)
        if why is None:
            print("replay: case %s now satisfies the property oracle" % c["id"])
            return 0
        ctx.violation("replayed: %s" % why, rp, key=obj.get("key") or {})
        return 1 if ctx.violations else 0
    if rp.get("kind") == "dncopy":
        P = PREC[rp["prec"]]; nc = P["ncomp"]
        c = dict(rp["case"])
        if nc == 2:
            c["X"] = [complex(a, b) for a, b in c["X"]]; c["Y"] = [complex(a, b) for a, b in c["Y"]]
        lib, fl = ctx.build_lib("hooks")
        exe = ctx.cc_harness("spblas_%s_hooks" % rp["prec"], ["spblas_harness.c", "sp_ienv_verif.c"], lib, fl + [P["flag"]])
        why = dncopy_oracle(c, run_harness(exe, [c]).get(c["id"], ("missing", [])), nc)
        if why is None:
            print("replay: case %s now satisfies the property oracle" % c["id"])
            return 0
        ctx.violation("replayed: %s" % why, rp, key=obj.get("key") or {})
        return 1 if ctx.violations else 0
    if rp.get("kind") != "case":
        print("replay: nothing to re-run (%s)" % rp.get("kind"))
        return 0
    c = rp["case"]
    lib, fl = ctx.build_lib("hooks")
    exe = ctx.cc_harness("spblas_d", ["spblas_harness.c", "sp_ienv_verif.c"], lib, fl)
    cr = c_result(c, run_harness(exe, [c])[c["id"]])
    fk = finding_key(c, cr[0])
    if c.get("fmt") == "NCP":
        why = oracle_for(dict(c, A=c["equiv"], fmt="NC"), cr)
        fk = {"routine": "sp_?gemv", "class": "ncp-storage"} if why else None
    else:
        why = oracle_for(c, cr)
    if c["op"] == "trsv" and c["tr"] == "C" and cr[0].startswith("xerbla"):
        fk, why = {"routine": "sp_?trsv", "class": "trans-C-rejected"}, "trans='C' rejected"
    if why is None and fk is None:
        print("replay: case %s now satisfies the property oracle" % c["id"])
        return 0
    ctx.violation("replayed: %s" % (why or fk), rp, key=fk or obj.get("key") or {})
    return 1 if ctx.violations else 0
