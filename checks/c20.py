"""C20 -- file readers return exactly the matrix a well-formed file encodes.

Coq: ReaderModel.v (byte-level model of ?readhb/?readrb/?readmt + independent printer),
ReaderProofs.v, Properties_C20.v.  Correspondence: files from the extracted printer AND from an
independent Python writer (tools/reader_gen.py) are read by the real readers of the four
precisions (forked child, file on descriptor 0) and by the extracted model; integer arrays are
compared exactly, values against the correctly rounded printed decimal (exact rational arithmetic)."""
import os, sys, json, struct, base64, math, time, shutil
from fractions import Fraction
from concurrent.futures import ThreadPoolExecutor
import vf
sys.path.insert(0, os.path.join(vf.VERIF, "tools"))
import reader_gen as G

MANIFEST = {
    "text": "Coq theorems (Properties_C20.v): read(print(fmt, M)) = M for the byte-level models of "
            "?readhb / ?readrb / ?readmt and every admissible descriptor set, descriptor parsers correct "
            "w.r.t. the descriptor grammar, no line-buffer index outside buf[100] for perline*persize <= 80; "
            "model tied to the C readers (4 precisions) by an executed correspondence on generated files",
    "note": "libc atof/strtod/scanf correct rounding is a runtime fact (checked on every value, not proved); "
            "symmetric files are NOT expanded by the readers of this tree (recorded interpretation); "
            "?readmt is a 1-based column-list format, there is no triplet reader in SRC/",
    "technique": "Coq round-trip theorems on an executable Gallina model + extracted-model-vs-C correspondence "
                 "+ exact-rational value oracle",
}

ERRNAMES = {1: "E_EOF", 2: "E_HANG", 3: "E_OOB", 4: "E_UNDEF", 5: "E_RANGE", 6: "E_SYNTAX", 7: "E_ALLOC",
            8: "E_TITLE", 9: "E_WIDTH0"}
MAX_REPORT = 6


# ------------------------------------------------------------------ running the two sides
class Runner:
    def __init__(self, ctx):
        self.ctx = ctx
        self.dir = os.path.join(ctx.bdir, "cases")
        shutil.rmtree(self.dir, ignore_errors=True)
        os.makedirs(self.dir, exist_ok=True)
        self.seq = 0
        self.exe = {}
        self.drv = None

    def build(self, flavors=("hooks", "asan")):
        for fl in flavors:
            lib, flags = self.ctx.build_lib(fl)
            self.exe[fl] = self.ctx.cc_harness("reader_" + fl, ["reader_harness.c", "sp_ienv_verif.c"], lib, flags)
        self.drv = self.ctx.ocaml_model("reader")

    def newfile(self, data, tag="f"):
        self.seq += 1
        p = os.path.join(self.dir, "%s%06d.txt" % (tag, self.seq))
        with open(p, "wb") as f:
            f.write(data)
        return p

    def run_model(self, cmds, timeout=600):
        """cmds: list of command lines for the OCaml driver -> list of output lines"""
        if not cmds:
            return []
        rc, out, err = vf.sh2("ulimit -s unlimited 2>/dev/null; exec %s" % self.drv, inp="\n".join(cmds) + "\n", timeout=timeout)
        lines = out.split("\n")
        if lines and lines[-1] == "":
            lines.pop()
        if rc != 0 or len(lines) != len(cmds):
            raise vf.CheckError("model driver failed rc=%s (%d/%d lines) %s" % (rc, len(lines), len(cmds), err[-400:]))
        return lines

    def run_c(self, cmds, flavor="hooks", tmo=10, nproc=None):
        """cmds: list of harness case lines -> list of (okline or None, endstatus)"""
        if not cmds:
            return []
        nproc = nproc or min(vf.NCPU, max(1, len(cmds) // 20))
        chunks = [cmds[i::nproc] for i in range(nproc)]
        env = dict(os.environ)
        env["ASAN_OPTIONS"] = "detect_leaks=0:exitcode=99:abort_on_error=0:allocator_may_return_null=1"
        env["UBSAN_OPTIONS"] = "print_stacktrace=0"

        def one(ix):
            ch = chunks[ix]
            if not ch:
                return []
            cf = os.path.join(self.dir, "c_%s_%d_%d.lst" % (flavor, self.seq, ix))
            self.seq += 1
            with open(cf, "w") as f:
                f.write("\n".join(ch) + "\n")
            rc, out, err = vf.sh2([self.exe[flavor], cf, str(tmo)], timeout=60 + tmo * len(ch), env=env)
            res, cur = [], None
            for ln in out.split("\n"):
                if ln.startswith("OK ") or ln.startswith("FMT "):
                    cur = ln
                elif ln.startswith("END "):
                    res.append((cur, ln[4:].strip())); cur = None
            if len(res) != len(ch):
                raise vf.CheckError("harness produced %d results for %d cases (rc=%s) %s" % (len(res), len(ch), rc, err[-300:]))
            return res
        with ThreadPoolExecutor(nproc) as ex:
            parts = list(ex.map(one, range(nproc)))
        out = [None] * len(cmds)
        for ix, part in enumerate(parts):
            for k, r in enumerate(part):
                out[ix + k * nproc] = r
        return out


# ------------------------------------------------------------------ decoding results
def parse_c_ok(line, prec):
    """'OK m n nnz|cp|ri|hex' -> dict"""
    head, cp, ri, vals = line[3:].split("|")
    m, n, nnz = [int(x) for x in head.split()]
    hexs = vals.split()
    if prec in "sc":
        fl = [struct.unpack("<f", struct.pack("<I", int(h, 16)))[0] for h in hexs]
    else:
        fl = [struct.unpack("<d", struct.pack("<Q", int(h, 16)))[0] for h in hexs]
    return {"m": m, "n": n, "nnz": nnz, "cp": [int(x) for x in cp.split()], "ri": [int(x) for x in ri.split()], "v": fl}


def parse_model(line):
    """'OK m n nnz hasvals|cp|ri|neg:mant:ex ..' or 'ERR code'"""
    if line.startswith("ERR"):
        return {"err": int(line.split()[1])}
    head, cp, ri, vals = line[3:].split("|")
    m, n, nnz, hv = [int(x) for x in head.split()]
    decs = []
    for t in vals.split():
        a, b, c = t.split(":")
        decs.append((a == "1", int(b), int(c)))
    return {"m": m, "n": n, "nnz": nnz, "hasvals": hv == 1, "cp": [int(x) for x in cp.split()],
            "ri": [int(x) for x in ri.split()], "dec": decs}


def expected_of_dec(d, prec, fmt):
    """expected_float for a decimal triple, without building astronomically large rationals"""
    neg, mant, ex = d
    if mant == 0:
        return 0.0, 0.0
    mag = ex + len(str(mant)) - 1          # decimal exponent of the leading digit
    if mag > 400:
        v = -math.inf if neg else math.inf
        return v, v
    if mag < -400:
        return 0.0, 0.0
    return expected_float(G.dec_q(*d), prec, fmt)


def expected_float(q, prec, fmt):
    """the value the documented pipeline must deliver for the printed decimal q:
    d/z: nearest double.  s/c through ?readmt: scanf %f -> nearest float.
    s/c through ?readhb/?readrb: atof then store to float (double rounding)"""
    if prec in "dz":
        return G.f64(q), G.f64(q)
    best = G.f32(q)
    if fmt == "mt":
        return best, best
    d = G.f64(q)
    if math.isinf(d):
        return best, d
    return best, G.f32(Fraction(d))


def same_float(a, b):
    if math.isnan(a) or math.isnan(b):
        return False
    return a == b


# ------------------------------------------------------------------ building cases
def make_wellformed(ctx, rng, R, fmt, prec, writer, kind=None, extreme=False):
    """one generated well-formed case -> dict(case) ; writer: 'py' | 'coq'"""
    pat = G.gen_pattern(rng, kind)
    pk, m, n, cp, ri = pat
    cplx = prec in "cz"
    nreal = len(ri) * (2 if cplx else 1)
    case = {"class": "wellformed", "fmt": fmt, "prec": prec, "writer": writer, "pattern": pk}
    if fmt == "mt":
        vals = [G.gen_mt_value(rng, prec, extreme) for _ in range(nreal)]
        if writer == "py":
            ws = rng.choice(["std", "std", "wide", "wild", "oneline"])
            mopts = {"ws": ws, "title_len": rng.choice([0, 1, 40, 60, 79]), "final_newline": rng.random() < 0.8}
            data = G.write_mt(rng, prec, pat, vals, mopts)
            case["style"] = "mt-" + ws
            case["gen"] = {"pat": pat, "vals": vals, "opts": mopts}
        else:
            title = [ord(c) for c in G.rand_text(rng, rng.choice([0, 10, 60, 79]))]
            case["print_cmd"] = ("mt", [1 if cplx else 0] + blist(title) + csc_tokens(m, n, cp, ri, vals))
            case["style"] = "mt-coq"
            data = None
    else:
        pf = G.gen_ifmt(rng, (cp[-1] if cp else 0) + 1)
        inf = G.gen_ifmt(rng, max(1, m))
        vf_ = G.gen_ffmt(rng, prec)
        vals = [G.gen_value_for(rng, vf_, prec, extreme) for _ in range(nreal)]
        if writer == "py":
            opts = {"pad80": rng.random() < 0.5, "final_newline": rng.random() < 0.85,
                    "mxtype": rng.choice((["CUA", "CRA", "CSA", "CHA"] if cplx else ["RUA", "RRA", "RSA", "RZA"])),
                    "title_len": rng.choice([80, 80, 72, 30, 0, 98])}
            if fmt == "hb":
                opts["rhs"] = rng.random() < 0.4
                data = G.write_hb(rng, prec, pat, vals, pf, inf, vf_, opts)
            else:
                opts["mxtype"] = opts["mxtype"].lower() if rng.random() < 0.5 else opts["mxtype"]
                data = G.write_rb(rng, prec, pat, vals, pf, inf, vf_, opts)
            case["style"] = "%s/%s/%s" % (pf["style"], vf_["kind"] + ("P%d" % vf_["scale"] if vf_["scale"] else ""), vf_["text"])
            case["descr"] = [pf["text"], inf["text"], vf_["text"]]
            case["gen"] = {"pat": pat, "vals": vals, "pf": pf, "inf": inf, "vf": vf_, "opts": opts}
        else:
            # the Coq printer knows E/D/F with optional scale; 'C' layout is Python-only
            if vf_["kind"] == "C":
                vf_["kind"] = "E"; vf_["scale"] = 1
                vals = [G.gen_value_for(rng, vf_, prec, extreme) for _ in range(nreal)]
            kindno = {"E": 0, "D": 1, "F": 2}[vf_["kind"]]
            sc = vf_["scale"] if vf_["scale"] else -1
            ptr_t = [pf["per"], pf["w"], rng.randint(0, 1), rng.randint(0, 1)]
            ind_t = [inf["per"], inf["w"], rng.randint(0, 1), rng.randint(0, 1)]
            val_t = [sc, vf_["per"], kindno, vf_["w"], vf_["d"], rng.randint(0, 1)]
            ty = [ord(c) for c in ("CUA" if cplx else "RUA")]
            if fmt == "hb":
                rhscrd = rng.choice([0, 0, 3])
                toks = (blist([ord(c) for c in G.rand_text(rng, 72)]) + blist([ord(c) for c in G.rand_text(rng, 8)])
                        + blist(ty) + ptr_t + ind_t + val_t
                        + blist([ord(c) for c in "(5E16.8)".ljust(20)]) + [rhscrd]
                        + blist([ord(c) for c in "F             1             0"])
                        + csc_tokens(m, n, cp, ri, vals))
            else:
                toks = (blist([ord(c) for c in G.rand_text(rng, rng.choice([0, 40, 80, 98]))]) + blist(ty)
                        + ptr_t + ind_t + val_t + csc_tokens(m, n, cp, ri, vals))
            case["print_cmd"] = (fmt, toks)
            case["style"] = "coq/%s" % vf_["kind"]
            data = None
    case["data"] = data
    case["exp"] = {"m": m, "n": n, "nnz": len(ri), "cp": cp, "ri": ri, "dec": vals}
    return case


def blist(bs):
    return [len(bs)] + list(bs)


def csc_tokens(m, n, cp, ri, vals):
    t = [m, n] + blist(cp) + blist(ri) + [len(vals)]
    for (neg, mant, ex) in vals:
        t += [1 if neg else 0, mant, ex]
    return t


def mutate_bytes(rng, data, fmt):
    """semi-malformed stream: small damage to a well-formed file"""
    b = bytearray(data)
    if not b:
        return bytes(b), "empty"
    how = rng.choice(["flip", "flip", "digit", "letter", "delete", "insert", "truncate", "trimline", "dupline",
                      "blankfield", "descr", "header", "longline", "nul", "sign"])
    n = len(b)
    hdr_end = 0
    cnt = 0
    for i, c in enumerate(b):
        if c == 10:
            cnt += 1
            if cnt == 4:
                hdr_end = i + 1
                break
    if how == "flip":
        for _ in range(rng.randint(1, 3)):
            b[rng.randrange(n)] = rng.randrange(256)
    elif how == "digit":
        for _ in range(rng.randint(1, 4)):
            i = rng.randrange(n)
            if b[i] != 10:
                b[i] = ord(rng.choice("0123456789"))
    elif how == "letter":
        for _ in range(rng.randint(1, 3)):
            i = rng.randrange(n)
            if b[i] != 10:
                b[i] = ord(rng.choice("EDedxX.+-,PIF()inNaA"))
    elif how == "delete":
        i = rng.randrange(n); del b[i:i + rng.randint(1, 3)]
    elif how == "insert":
        i = rng.randrange(n); b[i:i] = bytes(rng.choice(b" 0123456789-+.E\n\t") for _ in range(rng.randint(1, 3)))
    elif how == "truncate":
        del b[rng.randrange(n):]
    elif how == "trimline":
        lines = bytes(b).split(b"\n")
        k = rng.randrange(len(lines)); lines[k] = lines[k].rstrip(b" ")
        if rng.random() < 0.3:
            lines = [l.rstrip(b" ") for l in lines]
        b = bytearray(b"\n".join(lines))
    elif how == "dupline":
        lines = bytes(b).split(b"\n")
        k = rng.randrange(len(lines))
        if rng.random() < 0.5:
            lines.insert(k, lines[k])
        else:
            del lines[k]
        b = bytearray(b"\n".join(lines))
    elif how == "blankfield":
        i = rng.randrange(n); w = rng.randint(1, 12)
        for k in range(i, min(n, i + w)):
            if b[k] != 10:
                b[k] = 32
    elif how == "descr" and hdr_end:
        lines = bytes(b).split(b"\n")
        l4 = bytearray(lines[3])
        for _ in range(rng.randint(1, 2)):
            if l4:
                l4[rng.randrange(min(len(l4), 52))] = ord(rng.choice("()0123456789IEDFP., idefp"))
        lines[3] = bytes(l4)
        b = bytearray(b"\n".join(lines))
    elif how == "header" and hdr_end:
        i = rng.randrange(hdr_end)
        if b[i] != 10:
            b[i] = ord(rng.choice("0123456789 -+"))
    elif how == "longline":
        lines = bytes(b).split(b"\n")
        k = rng.randrange(len(lines)); lines[k] = lines[k] + b" " * rng.choice([1, 10, 19, 20, 30, 120])
        b = bytearray(b"\n".join(lines))
    elif how == "nul":
        b[rng.randrange(n)] = 0
    elif how == "sign":
        i = rng.randrange(n)
        if b[i] == 32:
            b[i] = ord(rng.choice("+-"))
    return bytes(b), how


# ------------------------------------------------------------------ evaluation of one case
def judge_wellformed(case, cres, mres):
    """-> (oracle_fail or None, corr_fail or None, model_fail or None, finding_key or None)"""
    exp = case["exp"]; prec = case["prec"]; fmt = case["fmt"]
    okline, end = cres
    oracle = corr = model = None
    finding = None
    c = None
    if okline is None or end != "ok":
        oracle = "reader did not return normally on a well-formed file: %s" % end
    else:
        c = parse_c_ok(okline, prec)
        for f, name in (("m", "nrow"), ("n", "ncol"), ("nnz", "nnz"), ("cp", "colptr"), ("ri", "rowind")):
            if c[f] != exp[f]:
                oracle = "%s differs: got %s expected %s" % (name, str(c[f])[:120], str(exp[f])[:120]); break
        if oracle is None:
            if len(c["v"]) != len(exp["dec"]):
                oracle = "number of values %d, expected %d" % (len(c["v"]), len(exp["dec"]))
            else:
                for i, (v, d) in enumerate(zip(c["v"], exp["dec"])):
                    q = G.dec_q(*d)
                    best, pipe = expected_float(q, prec, fmt)
                    if same_float(v, best):
                        continue
                    if same_float(v, pipe):
                        finding = {"defect": "single-precision-double-rounding"}
                        case["finding_detail"] = "value %d: decimal %s -> got %r, nearest float is %r" % (i, dec_str(d), v, best)
                        continue
                    oracle = "value %d: decimal %s read as %r, correctly rounded is %r" % (i, dec_str(d), v, best); break
    # model vs independent expectation
    if "err" in mres:
        model = "model returns Err %s on a well-formed file" % ERRNAMES.get(mres["err"], mres["err"])
    else:
        for f in ("m", "n", "nnz", "cp", "ri"):
            if mres[f] != exp[f]:
                model = "model %s differs from the independent expectation" % f; break
        if model is None:
            if len(mres["dec"]) != len(exp["dec"]) or any(G.dec_q(*a) != G.dec_q(*b) for a, b in zip(mres["dec"], exp["dec"])):
                model = "model values differ from the independent expectation"
            elif exp["nnz"] > 0 and not mres["hasvals"]:
                model = "model did not read values"
    # model vs C
    if c is not None and "err" not in mres:
        corr = compare_model_c(mres, c, prec, fmt)
    return oracle, corr, model, finding


def compare_model_c(mres, c, prec, fmt):
    for f in ("m", "n", "nnz", "cp", "ri"):
        if mres[f] != c[f]:
            return "%s: model %s, C %s" % (f, str(mres[f])[:100], str(c[f])[:100])
    if mres["hasvals"]:
        if len(mres["dec"]) != len(c["v"]):
            return "value count: model %d, C %d" % (len(mres["dec"]), len(c["v"]))
        for i, (d, v) in enumerate(zip(mres["dec"], c["v"])):
            best, pipe = expected_of_dec(d, prec, fmt)
            if not (same_float(v, pipe)):
                return "value %d: model decimal %s rounds to %r, C has %r" % (i, dec_str(d), pipe, v)
    return None


def dec_str(d):
    return "%s%de%d" % ("-" if d[0] else "", d[1], d[2])


def key_of(case, what):
    return {"reader": case["fmt"], "prec": case["prec"], "class": case["class"], "symptom": what.split(":")[0][:40]}


def shrink_case(ctx, R, case, still_fails):
    """keep the first k columns (k = 1, 2, 4, ...) of a python-written case while it still fails"""
    g = case.get("gen")
    if not g:
        return case
    import random
    pk, m, n, cp, ri = g["pat"]
    cplx = case["prec"] in "cz"
    k = 1
    while k < n:
        cp2 = cp[:k + 1]; nz = cp2[-1]; ri2 = ri[:nz]
        vals2 = g["vals"][: nz * (2 if cplx else 1)]
        pat2 = (pk, m, k, cp2, ri2)
        rr = random.Random(12345)
        if case["fmt"] == "mt":
            data = G.write_mt(rr, case["prec"], pat2, vals2, g["opts"])
        elif case["fmt"] == "hb":
            data = G.write_hb(rr, case["prec"], pat2, vals2, g["pf"], g["inf"], g["vf"], g["opts"])
        else:
            data = G.write_rb(rr, case["prec"], pat2, vals2, g["pf"], g["inf"], g["vf"], g["opts"])
        c2 = {kk: vv for kk, vv in case.items() if kk not in ("gen", "data", "path", "exp")}
        c2["data"] = data
        c2["exp"] = {"m": m, "n": k, "nnz": nz, "cp": cp2, "ri": ri2, "dec": vals2}
        c2["path"] = R.newfile(data, "shrink")
        c2["shrunk_from_ncol"] = n
        try:
            if still_fails(c2):
                return c2
        except vf.CheckError:
            pass
        k *= 2
    return case


def replay_obj(case):
    o = {k: v for k, v in case.items() if k not in ("data", "path", "gen")}
    o["data_b64"] = base64.b64encode(case["data"]).decode()
    return o


# ------------------------------------------------------------------ the check
def run(ctx):
    rng = ctx.rng
    quick = ctx.quick()
    ctx.cov["rule"] = (
        "well-formed files: random sparse patterns (random/diag/dense/empty/one column/rectangular/empty columns/"
        "many lines/indices up to 2^31-2) x descriptors ((kIw) incl. lower case, blanks, Iw.m; (kEw.d) (kDw.d) (sPkEw.d) (kFw.d), "
        "C-printf layout, explicit exponent width, perline*width <= 80) x values with 1..d(+1) significant digits and "
        "exponents over the precision's range x {HB with/without RHS section, RB, ?readmt column list with free white space} "
        "x {s,d,c,z}, written by the extracted Coq printer and by the independent Python writer; a case is non-trivial when nnz > 0. "
        "Model-defined stream: byte-level damage of such files; compared exactly whenever the model gives a result. "
        "Out-of-domain stream (model returns Err): C outcome recorded, not asserted.")
    ctx.cov["partial"] += [
        "libc atof/strtod/scanf are assumed (and on every generated value CHECKED, not proved) to round correctly",
        "symmetric / Hermitian / skew (xSA, xHA, xZA) files: the readers of this tree ignore MXTYPE and return the stored triangle "
        "unexpanded; their header comments describe the type letters but promise no expansion; the check expects exactly the stored entries",
        "'coordinate (triplet) form': SRC/ contains no triplet reader (EXAMPLE/p?linsolx1.c and x2 call a non-existent ?readtriple); "
        "?readmt is a column-list format with 1-based row indices ('C convention: 0-based indexing' is its only statement), checked as such",
        "well-formed means records as a Fortran formatted WRITE produces them: header lines at full width (72+8, 5I14, A3,11X,4I14, 2A16,2A20); "
        "files with right-trimmed header lines are mis-read because of fscanf(\"%kc\") and are outside the quantifier (recorded, see findings)",
        "exponents always carry their letter (E/D/e/d); the Fortran letter-less three-digit form 0.1234-123 is read as 0.1234 by atof and is outside the quantifier",
        "a kP scale prefix in front of an F descriptor is accepted syntactically; the value returned is the printed decimal (property text), not the Fortran-rescaled one",
        "Coq: the complex twins' (re,im) pairing loop is modelled as reading 2*nnz reals (equivalent loop bound); pairing itself is covered by the correspondence only",
        "Coq: value round trip is stated on exact decimals (neg,mant,e10) and as rationals (values_read_back_exact_partial); "
        "the last step decimal -> binary (Definition values_rounded_full) is the libc fact above",
    ]
    ctx.cov["trusted_base"] += [
        "tools/reader_gen.py: independent writer and exact binary rounding (Python fractions) used as the value oracle",
        "harness/reader_harness.c forks one child per file (readers read stdin and fclose it); child stdout redirected while the reader prints the title",
        "glibc strtod / scanf rounding (checked on every value of every run)",
    ]
    proofs_ok = ctx.coq_properties()

    R = Runner(ctx)
    R.build()

    fails = {"sigs": set()}

    def report(case, what, found_input=True, key=None):
        key = key or key_of(case, what)
        sig = json.dumps(key, sort_keys=True)
        # the two written-up defect classes (findings/C20-*.md) do not use up the reporting budget
        budget_used = len([x for x in fails["sigs"] if '"defect"' not in x])
        if sig in fails["sigs"] or ("defect" not in key and budget_used >= MAX_REPORT):
            return
        fails["sigs"].add(sig)
        if found_input and case.get("gen") and case["class"] == "wellformed" and "defect" not in key:
            def still_fails(c2):
                mo = R.run_model(["parse %s %d %s" % (c2["fmt"], 1 if c2["prec"] in "cz" else 0, c2["path"])])[0]
                cr = R.run_c(["read %s %s %s" % (c2["fmt"], c2["prec"], c2["path"])], flavor="hooks", tmo=8)[0]
                oracle, _, _, _ = judge_wellformed(c2, cr, parse_model(mo))
                if oracle:
                    c2["what_shrunk"] = oracle
                return bool(oracle)
            case = shrink_case(ctx, R, case, still_fails)
            what = case.get("what_shrunk", what)
            store_corpus(ctx, case, what)
        obj = replay_obj(case)
        obj["what"] = what
        ctx.violation(what, obj, key=key, found_input=found_input)

    # ---------------------------------------------------------------- 0. corpus + repository sample files
    cases = load_corpus(ctx, R)
    cases += sample_file_cases(ctx)

    # ---------------------------------------------------------------- 1. generated well-formed files
    nwf = 2400 if quick else 40000
    for i in range(nwf):
        fmt = rng.choice(["hb", "hb", "rb", "mt"])
        prec = rng.choice("sdcz")
        writer = "coq" if rng.random() < 0.35 else "py"
        kind = None
        if not quick and i % 400 == 0:
            kind = "long"
        cases.append(make_wellformed(ctx, rng, R, fmt, prec, writer, kind, extreme=(rng.random() < 0.1)))
    cases += targeted_cases(ctx, rng)

    # files from the Coq printer
    pr = [c for c in cases if c.get("print_cmd")]
    cmds = []
    for c in pr:
        c["path"] = R.newfile(b"", "coq")
        kind, toks = c["print_cmd"]
        cmds.append("print %s %s %s" % (kind, c["path"], " ".join(str(t) for t in toks)))
    outs = R.run_model(cmds)
    for c, o in zip(pr, outs):
        if not o.startswith("PRINTED 1"):
            ctx.broken.append("generator/model disagreement on admissibility: %s (%s)" % (o, c.get("style")))
            c["skip"] = True
        c["data"] = open(c["path"], "rb").read()
        del c["print_cmd"]
    cases = [c for c in cases if not c.get("skip")]
    for c in cases:
        if "path" not in c:
            c["path"] = R.newfile(c["data"], c["fmt"])

    t0 = time.time()
    evaluate(ctx, R, cases, report)
    ctx.log("well-formed stream: %d files, %.1fs" % (len(cases), time.time() - t0))

    # ---------------------------------------------------------------- 2. model-defined stream (damaged files) under ASan
    nmal = 2400 if quick else 36000
    base = [c for c in cases if c["class"] == "wellformed" and len(c["data"]) < 6000]
    mal = []
    for i in range(nmal):
        b = rng.choice(base)
        data, how = mutate_bytes(rng, b["data"], b["fmt"])
        mal.append({"class": "damaged", "fmt": b["fmt"], "prec": b["prec"], "how": how, "data": data})
    mal += legal_variant_cases(ctx, rng, base)
    for c in mal:
        c["path"] = R.newfile(c["data"], "m" + c["fmt"])
    t0 = time.time()
    evaluate(ctx, R, mal, report, flavor="asan")
    ctx.log("damaged/variant stream: %d files, %.1fs" % (len(mal), time.time() - t0))

    # ---------------------------------------------------------------- 3. descriptor parsers, unit level
    t0 = time.time()
    descriptor_units(ctx, R, rng, 600 if quick else 6000, report)
    ctx.log("descriptor unit stream %.1fs" % (time.time() - t0))

    # ---------------------------------------------------------------- 4. well-formed subset under ASan (index safety on the real code)
    sub = [c for c in cases if c["class"] == "wellformed"]
    rng.shuffle(sub)
    sub = sub[: (250 if quick else 2500)]
    res = R.run_c(["read %s %s %s" % (c["fmt"], c["prec"], c["path"]) for c in sub], flavor="asan", tmo=20)
    for c, (okl, end) in zip(sub, res):
        ctx.corr("asan_wellformed", 1)
        if end != "ok":
            report(c, "sanitizer build: reader ended with '%s' on a well-formed file" % end,
                   key={"reader": c["fmt"], "prec": c["prec"], "symptom": "asan " + end})
    ctx.assumptions += ["libc strtod/atof/scanf correctly rounded (checked per value)", "int_t = int (no _LONGINT)"]


def evaluate(ctx, R, cases, report, flavor="hooks"):
    if not cases:
        return
    tstart = time.time()
    mouts = R.run_model(["parse %s %d %s" % (c["fmt"], 1 if c["prec"] in "cz" else 0, c["path"]) for c in cases])
    # out-of-domain inputs (model returns Err: the C code hangs, reads indeterminate bytes, ...) are not asserted;
    # only a sample of them is run on the C side, for the record
    idx_def = [i for i, (c, mo) in enumerate(zip(cases, mouts)) if c["class"] != "damaged" or not mo.startswith("ERR")]
    idx_ood = [i for i in range(len(cases)) if i not in set(idx_def)]
    ctx.rng.shuffle(idx_ood)
    idx_ood_run = sorted(idx_ood[: (48 if ctx.quick() else 480)])
    cres = [(None, "notrun")] * len(cases)
    tm = time.time()
    idx_var = [i for i in idx_def if cases[i]["class"] == "legal-variant"]
    idx_def = [i for i in idx_def if cases[i]["class"] != "legal-variant"]
    r1 = R.run_c(["read %s %s %s" % (cases[i]["fmt"], cases[i]["prec"], cases[i]["path"]) for i in idx_def], flavor=flavor, tmo=8)
    for i, r in zip(idx_def, r1):
        cres[i] = r
    r3 = R.run_c(["read %s %s %s" % (cases[i]["fmt"], cases[i]["prec"], cases[i]["path"]) for i in idx_var], flavor=flavor, tmo=2,
                 nproc=vf.NCPU)
    for i, r in zip(idx_var, r3):
        cres[i] = r
    r2 = R.run_c(["read %s %s %s" % (cases[i]["fmt"], cases[i]["prec"], cases[i]["path"]) for i in idx_ood_run], flavor=flavor, tmo=2,
                 nproc=vf.NCPU)
    for i, r in zip(idx_ood_run, r2):
        cres[i] = r
    ctx.log("  model %.1fs, C(%s) %.1fs" % (tm - tstart, flavor, time.time() - tm))
    for c, mo, cr in zip(cases, mouts, cres):
        mres = parse_model(mo)
        cls = c["class"]
        if cls in ("wellformed", "legal-variant"):
            oracle, corr, model, finding = judge_wellformed(c, cr, mres)
            kind = "%s-%s-%s-%s" % (cls, c["fmt"], c["prec"], c.get("writer", "py"))
            ctx.count([c["fmt"], c["prec"], c["exp"]["cp"], c["exp"]["ri"], [list(d) for d in c["exp"]["dec"]][:50], c.get("style")],
                      nontrivial=c["exp"]["nnz"] > 0, kind=kind)
            ctx.corr("oracle_%s" % c["fmt"], 1)
            if "err" not in mres:
                ctx.corr("model_vs_c_%s" % c["fmt"], 1)
            ctx.sample({"fmt": c["fmt"], "prec": c["prec"], "style": c.get("style"), "nnz": c["exp"]["nnz"],
                        "head": c["data"][:400].decode("latin-1")}, limit=3)
            if cls == "legal-variant":
                if oracle:
                    report(c, "legal descriptor variant '%s': %s" % (c["variant"], oracle),
                           key={"defect": "descriptor-grammar", "variant": c["variant"]})
                continue
            if oracle:
                report(c, oracle)
            elif finding:
                report(c, "s/c value not the nearest float (atof to double, then to float): " + c.get("finding_detail", ""), key=finding)
            if model and not oracle:
                ctx.broken.append("model vs independent writer (%s %s %s): %s" % (c["fmt"], c["prec"], c.get("style"), model))
            if corr and not oracle:
                ctx.broken.append("correspondence model/C on a well-formed file (%s %s): %s" % (c["fmt"], c["prec"], corr))
        else:
            okl, end = cr
            if "err" in mres:
                ctx.count([cls, c["fmt"], c.get("how"), ERRNAMES.get(mres["err"]), end.split()[0]], nontrivial=False,
                          kind="outofdomain-%s-%s" % (ERRNAMES.get(mres["err"]), end.split()[0]))
                continue
            ctx.count([c["fmt"], c["prec"], base64.b64encode(c["data"][:3000]).decode()], nontrivial=True,
                      kind="damaged-defined-%s-%s" % (c["fmt"], c.get("how")))
            ctx.corr("model_vs_c_damaged_%s" % c["fmt"], 1)
            if okl is None or end != "ok":
                msg = "model defines a result, C reader ended with '%s'" % end
            else:
                msg = compare_model_c(mres, parse_c_ok(okl, c["prec"]), c["prec"], c["fmt"])
            if msg:
                ctx.broken.append("correspondence model/C on a damaged file (%s %s, %s): %s" % (c["fmt"], c["prec"], c.get("how"), msg))
                report(c, "correspondence (damaged file, %s): %s" % (c.get("how"), msg), found_input=False,
                       key={"reader": c["fmt"], "class": "damaged", "symptom": msg.split(":")[0][:30]})


def targeted_cases(ctx, rng):
    """hand-aimed well-formed inputs: double rounding through atof for s/c, widths at the 80-column limit,
    maximal integers"""
    out = []
    # decimal a hair above a binary32 midpoint whose double neighbourhood collapses onto the midpoint
    for fmt in ("hb", "rb"):
        for prec in "sc":
            i = rng.randrange(1, 2 ** 22)
            mid = Fraction(2 ** 23 + 2 * i, 2 ** 23) + Fraction(1, 2 ** 24)      # in [1,2): even mantissa + half ulp
            num = mid.numerator * 10 ** 24 // mid.denominator                     # exact: 24 fractional digits
            mant = num * 10 ** 4 + 1                                              # + 1e-28
            d = (False, mant, -28)
            pat = ("diag", 1, 1, [0, 1], [0])
            vals = [d, (True, mant, -28)] if prec == "c" else [d]
            pf = {"per": 10, "w": 8, "text": "(10I8)", "style": "std", "m": None}
            vf_ = {"kind": "E", "scale": 0, "per": 2, "w": 38, "d": 29, "text": "(2E38.29)"}
            w = G.write_hb if fmt == "hb" else G.write_rb
            data = w(rng, prec, pat, vals, pf, pf, vf_, {"pad80": True})
            out.append({"class": "wellformed", "fmt": fmt, "prec": prec, "writer": "py", "pattern": "double-rounding",
                        "style": "targeted-double-rounding", "data": data,
                        "exp": {"m": 1, "n": 1, "nnz": 1, "cp": [0, 1], "ri": [0], "dec": vals}})
    # 80 one-digit fields per line, 1 x 80-wide field, widest legal lines
    for fmt in ("hb", "rb"):
        for (per, w) in ((80, 1), (1, 80), (40, 2), (8, 10), (5, 16)):
            n = 9 if w == 1 else 30
            cp = list(range(n + 1)) if w > 1 else [0, 2, 4, 6, 8]
            if w == 1:
                pat = ("wide", 8, 4, cp, [0, 1, 2, 3, 4, 5, 6, 7]); n = 4
            else:
                pat = ("wide", n, n, cp, list(range(n)))
            pf = {"per": per, "w": w, "text": "(%dI%d)" % (per, w), "style": "std", "m": None}
            vf_ = {"kind": "D", "scale": 1, "per": 80 // 27, "w": 27, "d": 17, "text": "(1P%dD27.17)" % (80 // 27)}
            vals = [G.gen_value_for(rng, vf_, "d") for _ in pat[4]]
            w_ = G.write_hb if fmt == "hb" else G.write_rb
            data = w_(rng, "d", pat, vals, pf, pf, vf_, {"pad80": False})
            out.append({"class": "wellformed", "fmt": fmt, "prec": "d", "writer": "py", "pattern": "wide",
                        "style": "targeted-%dx%d" % (per, w), "data": data,
                        "exp": {"m": pat[1], "n": pat[2], "nnz": len(pat[4]), "cp": pat[3], "ri": pat[4], "dec": vals}})
    return out


def legal_variant_cases(ctx, rng, base):
    """descriptors that are legal Fortran but outside the five admissible shapes of DESIGN.md;
    judged with the well-formed oracle (expected matrix known)"""
    out = []
    variants = [("scale-comma", lambda per, w, d: "(1P,%dE%d.%d)" % (per, w, d)),
                ("no-repeat-count", lambda per, w, d: "(E%d.%d)" % (w, d)),
                ("G-descriptor", lambda per, w, d: "(%dG%d.%d)" % (per, w, d))]
    for name, mk in variants:
        for fmt in ("hb", "rb"):
            pat = ("diag", 3, 3, [0, 1, 2, 3], [0, 1, 2])
            per = 1 if name == "no-repeat-count" else 3
            vf_ = {"kind": "E", "scale": 1 if name == "scale-comma" else 0, "per": per, "w": 16, "d": 8, "text": mk(per, 16, 8)}
            vals = [G.gen_value_for(rng, vf_, "d") for _ in range(3)]
            pf = {"per": 10, "w": 8, "text": "(10I8)", "style": "std", "m": None}
            w_ = G.write_hb if fmt == "hb" else G.write_rb
            data = w_(rng, "d", pat, vals, pf, pf, vf_, {"pad80": True})
            out.append({"class": "legal-variant", "variant": name, "fmt": fmt, "prec": "d", "writer": "py", "data": data,
                        "style": vf_["text"], "exp": {"m": 3, "n": 3, "nnz": 3, "cp": [0, 1, 2, 3], "ri": [0, 1, 2], "dec": vals}})
    return out


def sample_file_cases(ctx):
    """the repository's own sample matrices (EXAMPLE/), expectation from the simple column parser"""
    out = []
    for name, prec in (("g5.rua", "d"), ("g10", "d"), ("cg20.cua", "z"), ("g5.rua", "s"), ("cg20.cua", "c"), ("big.rua", "d"), ("cmat", "z")):
        p = os.path.join(vf.REPO, "EXAMPLE", name)
        if not os.path.exists(p):
            continue
        data = open(p, "rb").read()
        if ctx.quick() and len(data) > 300000:
            continue
        try:
            m, n, nnz, cp, ri, vs = G.simple_parse_hb(data, prec in "cz")
        except Exception as e:      # sample file not in the simple parser's domain
            ctx.log("sample file %s skipped: %s" % (name, e)); continue
        decs = []
        for q in vs:
            # exact decimal of the rational (denominator is a power of ten)
            ex = 0
            while q.denominator != 1:
                q *= 10; ex -= 1
            decs.append((q < 0, abs(q.numerator), ex))
        out.append({"class": "wellformed", "fmt": "hb", "prec": prec, "writer": "repo", "pattern": "sample", "style": "EXAMPLE/" + name,
                    "data": data, "exp": {"m": m, "n": n, "nnz": nnz, "cp": cp, "ri": ri, "dec": decs}})
    return out


def store_corpus(ctx, case, what):
    """minimised failing inputs go to corpus/C20/ when VERIF_STORE_CORPUS=1 (off by default: the corpus
    directory is version-controlled and a run on a mutated tree should not modify it silently)"""
    if os.environ.get("VERIF_STORE_CORPUS") != "1":
        return
    d = os.path.join(vf.VERIF, "corpus", "C20")
    os.makedirs(d, exist_ok=True)
    if len([f for f in os.listdir(d) if f.startswith("auto-")]) >= 40:
        return
    o = replay_obj(case)
    o["what_when_stored"] = what
    name = "auto-%s.json" % vf.sha(o["data_b64"], case["fmt"], case["prec"])[:12]
    with open(os.path.join(d, name), "w") as f:
        json.dump(o, f, indent=1)


def load_corpus(ctx, R):
    out = []
    d = os.path.join(vf.VERIF, "corpus", "C20")
    if not os.path.isdir(d):
        return out
    for f in sorted(os.listdir(d)):
        if f.endswith(".json"):
            o = json.load(open(os.path.join(d, f)))
            out.append(case_from_obj(o))
    return out


def case_from_obj(o):
    c = dict(o)
    c["data"] = base64.b64decode(o["data_b64"])
    c.pop("data_b64", None)
    if "exp" in c:
        c["exp"]["dec"] = [tuple([bool(d[0]), int(d[1]), int(d[2])]) for d in c["exp"]["dec"]]
    return c


def descriptor_units(ctx, R, rng, count, report):
    """?ParseIntFormat / ?ParseFloatFormat (global symbols of ?readhb.c) against the model on 100 determinate bytes"""
    cmds_m, cmds_c, meta = [], [], []
    for i in range(count):
        isf = rng.random() < 0.6
        if rng.random() < 0.6:
            if isf:
                f = G.gen_ffmt(rng, rng.choice("sd")); text = f["text"]; want = (f["per"], f["w"])
            else:
                f = G.gen_ifmt(rng, rng.choice([9, 99999, 2 ** 31 - 1])); text = f["text"]; want = (f["per"], f["w"])
            valid = True
        else:
            text = "(" + G.rand_text(rng, rng.randint(1, 14), "0123456789IEDFPiedfp., ()+-") + rng.choice([")", ".3)", ""])
            want, valid = None, False
        field = text.ljust(20 if isf else 16)[: (20 if isf else 16)]
        tail = G.rand_text(rng, 100 - len(field), "ABCxyz 0123456789().,EeDdFfIiPp")
        buf = [ord(c) for c in field + tail]
        prec = rng.choice("sdcz")
        cmds_m.append("%s %s" % ("pff" if isf else "pif", " ".join(map(str, buf))))
        cmds_c.append("%s %s %s" % ("pff" if isf else "pif", prec, " ".join(map(str, buf))))
        meta.append((isf, text, want, valid, prec, buf))
    mo = R.run_model(cmds_m)
    co = R.run_c(cmds_c, flavor="asan", tmo=5)
    for (isf, text, want, valid, prec, buf), m, (okl, end) in zip(meta, mo, co):
        name = "ParseFloatFormat" if isf else "ParseIntFormat"
        ctx.count(["descr", isf, text, prec, buf[20:40]], nontrivial=valid, kind="descriptor-%s-%s" % ("float" if isf else "int", "valid" if valid else "garbled"))
        if m.startswith("ERR"):
            if valid:
                ctx.broken.append("model %s fails on admissible descriptor %s" % (name, text))
            continue
        mv = tuple(int(x) for x in m.split()[1:3])
        ctx.corr("descriptor_units", 1)
        cv = tuple(int(x) for x in okl.split()[1:3]) if okl and end == "ok" else None
        case = {"class": "descriptor", "fmt": "hb", "prec": prec, "data": bytes(buf), "descriptor": text, "isfloat": isf,
                "want": list(want) if want else None}
        if valid and cv != want:
            report(case, "%s('%s') gives %s, descriptor says %s" % (name, text, cv, want),
                   key={"function": name, "symptom": "admissible descriptor mis-parsed"})
        elif cv != mv:
            ctx.broken.append("correspondence %s on '%s': model %s, C %s (%s)" % (name, text, mv, cv, end))
            report(case, "correspondence %s on garbled descriptor '%s': model %s, C %s" % (name, text, mv, cv), found_input=False,
                   key={"function": name, "symptom": "garbled descriptor"})


# ------------------------------------------------------------------ replay
def replay(ctx, obj):
    o = obj.get("replay", obj)
    if o.get("kind") == "obligation":
        ok = ctx.coq_properties()
        if not ok:
            ctx.violation("proof obligation still broken: %s" % "; ".join(ctx.broken)[:600], o, found_input=False)
            return 1
        return 0
    R = Runner(ctx)
    R.build()
    c = case_from_obj(o)
    got = {"n": 0}

    def report(case, what, found_input=True, key=None):
        got["n"] += 1
        ctx.violation(what, replay_obj(case) if "data" in case else case, key=key or key_of(case, what), found_input=found_input)
    if c["class"] == "descriptor":
        buf = list(c["data"])
        isf = c["isfloat"]
        m = R.run_model(["%s %s" % ("pff" if isf else "pif", " ".join(map(str, buf)))])[0]
        okl, end = R.run_c(["%s %s %s" % ("pff" if isf else "pif", c["prec"], " ".join(map(str, buf)))], flavor="asan")[0]
        cv = [int(x) for x in okl.split()[1:3]] if okl and end == "ok" else None
        mv = [int(x) for x in m.split()[1:3]] if m.startswith("FMT") else None
        if (c.get("want") and cv != c["want"]) or (mv is not None and cv != mv):
            report(c, "descriptor '%s': C %s, model %s, expected %s" % (c["descriptor"], cv, mv, c.get("want")))
        return 1 if got["n"] else 0
    c["path"] = R.newfile(c["data"], "replay")
    evaluate(ctx, R, [c], report, flavor=("asan" if c["class"] != "wellformed" else "hooks"))
    if c["class"] == "wellformed" and not got["n"]:
        okl, end = R.run_c(["read %s %s %s" % (c["fmt"], c["prec"], c["path"])], flavor="asan", tmo=20)[0]
        if end != "ok":
            report(c, "sanitizer build: reader ended with '%s'" % end)
    if ctx.broken and not got["n"]:
        ctx.violation("still broken: %s" % "; ".join(ctx.broken)[:600], replay_obj(c), found_input=False)
        return 1
    return 1 if got["n"] else 0
