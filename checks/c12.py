"""C12 -- condition estimate and pivot growth are sound.

1. theorems of coq/Properties_C12.v (LaconModel.v / LaconProofs.v) re-checked;
2. K-exact, bit for bit, binary64:
     * the real dlacon_ driven with an explicit dense operator  vs  lacon_step/lacon_drive (PrimFloat instance),
       every block (kase, x, est, v, isgn) exchanged, with the function statics left dirty by another run;
     * the real dgscon inside pdgssvx (all sp_dtrsv calls recorded through ld --wrap) vs the model `gscon`
       replayed on the recorded solve outputs: order/kind/input of every solve, number of applications, rcond;
     * dlangs (norm letters 1 O o I i M) and dPivotGrowth on the returned, equilibrated A and factors;
     * the sequence of calls pdgssvx makes (norm letter to dlangs/dgscon, trans to dgstrs/dgsrfs) and info
       vs ssvx_calls / ssvx_info;
3. K-pred, exact rationals (python Fractions, exact inverse): both inequalities of the property for the driver's
   rcond (norm required by the property text, computed from the USER's matrix and trans) and for dgscon called
   directly with every norm letter; info = n+1 <=> rcond < eps with X/ferr/berr still produced; recip. pivot
   growth recomputed from the dense factors.  All four precisions, 1 and several threads.
"""
import os, sys, json, math, time
from fractions import Fraction as Fr
sys.path.insert(0, os.path.join(os.path.dirname(os.path.abspath(__file__)), "..", "tools"))
import vf
import lacon_lib as ll

MANIFEST = {
    "text": "Coq: dlacon_ as an explicit state machine over an abstract arithmetic; theorems (Q, closed under the global "
            "context): termination <= 11 operator applications for every arithmetic/operator/statics; est is an attained "
            "ratio ||Mw||_1/||w||_1 (lower bound of ||M||_1); est >= ||M e/n||_1 for an adjoint pair; dgscon rcond bounds; "
            "norm-selection table of pdgssvx with dlangs exact; info=n+1 <=> rcond<eps with solve/refine still called; "
            "dPivotGrowth = min over the leading columns (nested supernode loops = flat loop). Tie: bit-exact PrimFloat "
            "replay of dlacon_/dgscon/dlangs/dPivotGrowth on real runs + exact-rational oracle with an explicit rounding slack.",
    "note": "s/c/z are tied at K-pred level (oracle in exact rationals) and through every vector exchanged with the estimator inside ?gscon (each reply must be inv(M) / inv(M)^H applied to the request, M = Pr*AA*Pc, all precisions); complex pivot growth uses the library's "
            "|re|+|im| modulus (z_abs1), accepted and reported.",
    "technique": "Coq model + vm_compute (PrimFloat) correspondence + exact rational certificate",
}

KIND_CODE = {"LNU": "LN", "UNN": "UN", "UTN": "UT", "LTU": "LT"}
TRANS_NAME = {0: "NOTRANS", 1: "TRANS", 2: "CONJ"}


# ---------------------------------------------------------------------------------- generators
def gen_matrix(rng, n, kind, p):
    cx = ll.is_cx(p)
    single = p in "sc"
    maxlog = 3.8 if single else 12.4            # cond up to ~1e-3/eps
    def one(kind):
        if kind == "graded":
            return ll.graded(rng, n, 10.0 ** rng.uniform(0, maxlog))
        if kind == "graded_hi":
            return ll.graded(rng, n, 10.0 ** rng.uniform(maxlog - 2.0, maxlog), mode=rng.choice([2, 3]))
        if kind == "sparse":
            A = ll.sparsify(rng, ll.graded(rng, n, 10.0 ** rng.uniform(0, 3)), rng.uniform(0.25, 0.6))
            for i in range(n):
                A[i][i] += rng.choice([-1, 1]) * rng.uniform(0.5, 2.0)
            return A
        if kind == "scaled":
            return ll.scale_rows_cols(rng, ll.graded(rng, n, 10.0 ** rng.uniform(0, 4)), 12 if single else 30)
        if kind == "nearsing":
            return ll.graded(rng, n, 10.0 ** rng.uniform(6, 12) if single else 10.0 ** rng.uniform(13, 22), mode=rng.choice([2, 2, 3]))
        if kind == "tri":
            A = ll.graded(rng, n, 10.0 ** rng.uniform(0, 2))
            return [[A[i][j] if j >= i else 0.0 for j in range(n)] for i in range(n)]
        if kind == "diag":
            return [[(rng.choice([-1, 1]) * 2.0 ** rng.randint(-6, 6) if i == j else 0.0) for j in range(n)] for i in range(n)]
        raise ValueError(kind)
    A = one(kind)
    if cx:
        B = one(kind if kind not in ("nearsing",) else "graded")
        sc = rng.uniform(0.1, 1.0) if kind != "nearsing" else 1e-3
        A = [[complex(A[i][j], sc * B[i][j] if A[i][j] != 0 or kind == "sparse" and B[i][j] != 0 and i == j else 0.0)
              for j in range(n)] for i in range(n)]
    if single:
        if cx:
            A = [[complex(ll.to_single(x.real), ll.to_single(x.imag)) for x in row] for row in A]
        else:
            A = [[ll.to_single(x) for x in row] for row in A]
    return A


def make_case(rng, cid, p, kind, n, stype, trans, fact, u, nprocs, permc, nrhs=1):
    A = gen_matrix(rng, n, kind, p)
    ptr, ind, val = ll.compress(A, stype)
    cx = ll.is_cx(p)
    flat = []
    for v in val:
        flat += [v.real, v.imag] if cx else [v]
    b = []
    for _ in range(n * nrhs):
        x = rng.uniform(-1, 1)
        if p in "sc":
            x = ll.to_single(x)
        b += [x, 0.0] if cx else [x]
    return {"id": cid, "mode": "ssvx", "prec": p, "kind": kind, "n": n, "stype": stype, "trans": trans, "fact": fact,
            "u": u, "nprocs": nprocs, "permc": permc, "nrhs": nrhs, "ptr": ptr, "ind": ind, "val": flat, "b": b}


def gen_cases(ctx, p, count):
    rng = ctx.rng
    kinds = ["graded"] * 5 + ["graded_hi"] * 2 + ["sparse"] * 4 + ["scaled"] * 3 + ["nearsing"] * 2 + ["tri", "diag"]
    cases = []
    order = list(kinds)
    rng.shuffle(order)
    combos = [(s, t) for s in (0, 1) for t in (0, 1, 2)]
    for k in range(count):
        kind = order[k % len(order)]
        big = (not ctx.quick()) and rng.random() < 0.25
        n = rng.choice([1, 2, 3, 4, 5, 7, 8, 10, 12, 13, 16, 19] if not big else [24, 30, 40])
        if ll.is_cx(p) and n > 20:
            n = 20
        if kind in ("graded_hi", "nearsing") and n < 2:
            n = 3
        stype, trans = combos[k % 6]
        fact = rng.choice([0, 1, 1])
        u = rng.choice([1.0, 1.0, 0.5, 0.1, rng.uniform(0.1, 1.0)])
        nprocs = 1 if (p == "d" and k % 4 != 3) else rng.choice([1, 2, 4])
        permc = rng.choice([0, 1, 2, 3])
        cases.append(make_case(rng, "%s%d" % (p, k), p, kind, n, stype, trans, fact, u, nprocs, permc))
    return cases


# ---------------------------------------------------------------------------------- the property's oracle
def oracle(c, r, p):
    """evaluate the property text on the implementation's outputs for one ssvx case.
    returns (failures [(slug, message)], stats dict)"""
    fails, st = [], {}
    n, cx = c["n"], ll.is_cx(p)
    u = ll.U_ROUND[p]
    eps, safmin = r["mach"]
    info = r.get("info")
    if not r.get("complete") or info is None:
        return [("incomplete", "harness produced no complete record")], st
    if info < 0 or info > n + 1:
        return [("info-range", "info = %d for a nonsingular input" % info)], st
    if 0 < info <= n:
        # "U(i,i) is exactly zero": must be visible in the returned factor, otherwise the info value is wrong
        st["singular_reported"] = True
        try:
            _, Ud = ll.factors_dense(r, n, 2 if cx else 1)
            if Ud[info - 1][info - 1] != 0:
                fails.append(("info-singular-claim", "info = %d but U(%d,%d) = %r is not zero (rcond = %r, eps = %r)"
                              % (info, info, info, Ud[info - 1][info - 1], r.get("rcond"), eps)))
        except (KeyError, IndexError):
            pass
        return fails, st
    vals = ll.to_entries(r["Aval"], p)
    AAd = ll.dense_from_cols(n, c["ptr"], c["ind"], vals, 0)          # NC view handed to the factorization
    Ad = AAd if c["stype"] == 0 else ll.transpose(AAd)                # the user's matrix (after equilibration)
    Aex = ll.exact_matrix(Ad, cx)
    Ainv = ll.exact_inverse(Aex, cx)
    if Ainv is None:
        st["exactly_singular"] = True
        return fails, st
    rcond, rpg = r["rcond"], r["rpg"]
    # ---- info = n+1  <=>  rcond < eps ; solution and bounds still returned
    exp_info = n + 1 if rcond < eps else 0
    if info != exp_info:
        fails.append(("info-nplus1", "info = %d but rcond = %r, eps = %r (expected info %d)" % (info, rcond, eps, exp_info)))
    X = r["X"]
    if any(x != x for x in X) or any(x != x or x == -777 for x in r["ferr"] + r["berr"]):
        fails.append(("solution-missing", "X/ferr/berr not produced although info = %d" % info))
    if rcond != rcond or rcond < 0:
        fails.append(("rcond-nan", "rcond = %r" % rcond))
        return fails, st
    # ---- rounding slack from the returned factors
    e1, einf, Ld, Ud = ll.backward_E(r, n, AAd, p, u)
    AAinv = Ainv if c["stype"] == 0 else ll.transpose(Ainv)
    g3 = ll.gamma(3 * n + 8, u * (4 if cx else 1))

    def check_rcond(rc, p_AA, label):
        """rc against the exact inverse of AA in the p_AA norm (1 or 'inf')"""
        nlo, nhi = ll.norm_iv(ll.exact_matrix(AAd, cx), p_AA)
        ilo, ihi = ll.norm_iv(AAinv, p_AA)
        theta = float(ihi) * (e1 if p_AA == 1 else einf)
        cond = float(nhi * ihi)
        st.setdefault("conds", []).append(cond)
        if cond > 1e-3 / u * 1.0001:
            st["beyond_quantifier"] = st.get("beyond_quantifier", 0) + 1
            return
        if theta >= 0.5:
            st["theta_too_large"] = st.get("theta_too_large", 0) + 1
            return
        st["max_theta"] = max(st.get("max_theta", 0.0), theta)
        s_low = (1 + g3) / (1 - theta)
        s_up = ((1 + theta) / (1 - theta)) ** 9 * (1 + g3)
        rcq = Fr(rc)
        # lower:  rcond >= 1/(||A|| ||inv A||)  up to rounding
        if rcq * Fr(s_low) * nhi * ihi < 1:
            fails.append(("rcond-lower", "%s: rcond = %.6e < 1/cond = %.6e (slack %.3e, theta %.2e)" % (label, rc, 1 / cond, s_low - 1, theta)))
        # upper:  rcond <= 1/(||A|| ||M e/n||_1)
        flo, fhi = ll.first_iterate_iv(AAinv, p_AA, cx)
        if flo > 0 and rcq * nlo * flo > Fr(s_up):
            fails.append(("rcond-upper", "%s: rcond = %.6e > 1/(||A|| ||M e/n||) = %.6e (slack %.3e)" % (label, rc, 1 / float(nlo * flo), s_up - 1)))
        st["checked_rcond"] = st.get("checked_rcond", 0) + 1
        st.setdefault("ratio", []).append(float(rcq * nhi * ihi))

    # the norm the PROPERTY requires: 1-norm of the user's A for A X = B, infinity norm for the transposed system
    p_user = 1 if c["trans"] == 0 else "inf"
    p_AA = p_user if c["stype"] == 0 else (1 if p_user == "inf" else "inf")
    check_rcond(rcond, p_AA, "p%sgssvx(%s,%s)" % (p, "NC" if c["stype"] == 0 else "NR", TRANS_NAME[c["trans"]]))
    # the factors reused (fact = FACTORED) for the other transpose, fresh rcond variable: same bounds, in the norm of THAT system
    if r.get("factored2") is not None and info == 0:
        t2, rc2, inf2 = r["factored2"]
        if rc2 != rc2 or rc2 < 0:
            fails.append(("rcond-stale", "fact = FACTORED re-solve (%s): rcond = %r was not computed (the caller's variable held -1)" % (TRANS_NAME[t2], rc2)))
        else:
            p_user2 = 1 if t2 == 0 else "inf"
            check_rcond(rc2, p_user2 if c["stype"] == 0 else (1 if p_user2 == "inf" else "inf"), "FACTORED re-solve p%sgssvx(%s)" % (p, TRANS_NAME[t2]))
            if inf2 != (n + 1 if rc2 < eps else 0):
                fails.append(("info-nplus1", "FACTORED re-solve: info = %d but rcond = %r, eps = %r" % (inf2, rc2, eps)))
    # ?gscon called directly, every norm letter
    for letter, (an, rc, inf2) in sorted(r["direct"].items()):
        pl = 1 if letter in "1Oo" else "inf"
        if inf2 != 0:
            fails.append(("gscon-info", "direct ?gscon('%s') info = %d" % (letter, inf2)))
            continue
        check_rcond(rc, pl, "?gscon('%s')" % letter)
        # ?langs against the exact norm (floating-point sum of n terms)
        nlo, nhi = ll.norm_iv(ll.exact_matrix(AAd, cx), pl)
        gl = ll.gamma(n + 4, u * (4 if cx else 1))
        if not (float(nlo) * (1 - gl) <= an <= float(nhi) * (1 + gl)):
            fails.append(("langs", "?langs('%s') = %r, exact norm in [%r, %r]" % (letter, an, float(nlo), float(nhi))))
    # ---- reciprocal pivot growth from the returned factors
    pc = r["perm_c"]
    inv_pc = [0] * n
    for j in range(n):
        inv_pc[pc[j]] = j
    def ab(x):
        return (abs(x.real) + abs(x.imag)) if cx else abs(x)
    def ab2(x):
        return abs(x)
    best = {}
    for nm, f in (("lib", ab), ("mod", ab2)):
        g = 1.0 / safmin
        for j in range(n):
            maxa = max([f(AAd[i][inv_pc[j]]) for i in range(n)] + [0.0])
            maxu = max([f(Ud[i][j]) for i in range(j + 1)] + [0.0])
            if p in "sc":
                maxa, maxu = ll.to_single(maxa), ll.to_single(maxu)
            q = 1.0 if maxu == 0 else maxa / maxu
            if p in "sc":
                q = ll.to_single(q)
            g = min(g, q)
        best[nm] = g
    tol = 0.0 if not cx else 0.0
    if not ll.same(rpg, best["lib"]):
        if cx and abs(rpg - best["mod"]) <= 4 * u * abs(best["mod"]):
            pass
        elif not cx or abs(rpg - best["lib"]) > 4 * u * abs(best["lib"]):
            fails.append(("pivot-growth", "recip_pivot_growth = %r, recomputed from the factors %r" % (rpg, best["lib"])))
    elif cx:
        st["cabs1_convention"] = True
    if "direct_rpg" in r and not ll.same(r["direct_rpg"], rpg):
        fails.append(("pivot-growth-direct", "?PivotGrowth called directly = %r, driver = %r" % (r["direct_rpg"], rpg)))
    return fails, st


# ---------------------------------------------------------------------------------- K-exact (d): model vs real run
def estimator_replies(c, r, p):
    """every reply ?gscon hands to the estimator is the operator the estimator asked for, applied to its request: with
    M = Pr*AA*Pc = L*U (the factored matrix) the reply y to a request x with KASE = kase1 (1 for the one norm, 2 for the
    infinity norm) satisfies M y = x, any other reply satisfies M^H y = x -- up to the backward error of two triangular
    solves.  Returns (failures, number of replies checked)"""
    n, cx = c["n"], ll.is_cx(p)
    if r.get("info") not in (0, n + 1) or "perm_r" not in r or "perm_c" not in r:
        return [], 0
    u = float(ll.U_ROUND[p])
    vals = ll.to_entries(r["Aval"], p)
    AAd = ll.dense_from_cols(n, c["ptr"], c["ind"], vals, 0)
    pr, pc = r["perm_r"], r["perm_c"]
    M = [[0] * n for _ in range(n)]
    for i in range(n):
        for j in range(n):
            M[pr[i]][pc[j]] = complex(AAd[i][j]) if cx else float(AAd[i][j])
    nrmM = max(sum(abs(v) for v in row) for row in M) if n else 0.0
    rpg = r.get("rpg") or 1.0
    tol = 200.0 * (n + 1) * u * (4 if cx else 1) / max(min(1.0, rpg), 1e-30)
    if not (tol < 0.05):
        return [], 0
    fails, nchk = [], 0
    norm, req = None, None
    vec = (lambda fl: [complex(fl[2 * i], fl[2 * i + 1]) for i in range(len(fl) // 2)]) if cx else (lambda fl: list(fl))
    for e in r["ev"]:
        if e[0] == "gscon_in":
            norm, req = chr(e[1]), None
        elif e[0] == "ge_out":
            req = (e[1], vec(e[2])) if e[1] != 0 else None
        elif e[0] == "ge_in" and req is not None and norm is not None:
            kase, x = req
            y = vec(e[2])
            req = None
            if len(x) != n or len(y) != n or any(v != v for v in y):
                continue
            kase1 = 1 if norm in "1Oo" else 2
            if kase == kase1:
                res = [sum(M[i][j] * y[j] for j in range(n)) - x[i] for i in range(n)]
                what = "inv(A)"
            else:
                res = [sum((M[j][i].conjugate() if cx else M[j][i]) * y[j] for j in range(n)) - x[i] for i in range(n)]
                what = "inv(A)^H" if cx else "inv(A)^T"
            nchk += 1
            rn = max(abs(v) for v in res)
            scale = nrmM * max(abs(v) for v in y) + max(abs(v) for v in x)
            nrmMT = max(sum(abs(M[i][j]) for i in range(n)) for j in range(n))
            scale = max(nrmM, nrmMT) * max(abs(v) for v in y) + max(abs(v) for v in x)
            if rn > tol * scale + 64 * n * (2.0 ** -126 if p in "sc" else 2.0 ** -1022):
                fails.append(("estimator-reply", "?gscon('%s') answered the estimator's request KASE = %d with a vector that is not %s applied to "
                              "the request: residual %.3e against scale %.3e (tolerance %.1e)" % (norm, kase, what, rn, scale, tol)))
                break
    return fails, nchk


def call_seq(r):
    seq = []
    for e in r["ev"]:
        if e[0] == "pivotgrowth":
            seq.append((0, e[1]))
        elif e[0] == "langs":
            seq.append((1, e[1]))
        elif e[0] == "gscon_in":
            seq.append((2, e[1]))
        elif e[0] in ("gstrs_in", "gstrs_call") and e[2] == 0:
            seq.append((3, e[1]))
        elif e[0] == "gsrfs_in":
            seq.append((4, e[1]))
    return seq


CALLMAP = ("map (fun c => match c with CallPivotGrowth k => (0%Z, k) | CallLangs k => (1%Z, k) | CallGscon k => (2%Z, k) "
           "| CallGstrs k => (3%Z, k) | CallGsrfs k => (4%Z, k) end)")


def coq_exprs_for(c, r):
    """Coq expressions (PrimFloat instance) for one d-precision ssvx result; returns list of (tag, expr)"""
    n = c["n"]
    ex = []
    info = r["info"]
    info_fact = info if 0 < info <= n else 0
    stype_c = "c_SLU_NC" if c["stype"] == 0 else "c_SLU_NR"
    ex.append(("calls", "%s (ssvx_calls %s %d %d %d)" % (CALLMAP, stype_c, c["trans"], n, info_fact)))
    if info_fact:
        return ex
    eps = r["mach"][0]
    ex.append(("info", "ssvx_info %d 0 0 (PrimFloat.ltb %s %s)" % (n, ll.coqf(r["rcond"]), ll.coqf(eps))))
    # dgscon replay
    gin = [e for e in r["ev"] if e[0] == "gscon_in"]
    if gin:
        tape = [e[2] for e in r["ev"] if e[0] == "trsv_out"]
        ex.append(("gscon", "gscon_replay FArith %d %d %s %s (st_init FArith)" % (
            gin[0][1], n, ll.coqf(gin[0][2]), "[" + "; ".join(ll.coql(t) for t in tape) + "]")))
    # dlangs on the returned (equilibrated) A, NC view
    cols = "csc_cols %d %s %s %s" % (n, ll.coqzl(c["ptr"]), ll.coqzl(c["ind"]), ll.coql(r["Aval"]))
    for letter in "1OoIiM":
        ex.append(("langs" + letter, "match langs FArith %d %d %d (%s) with Some v => (true, v) | None => (false, 0%%float) end"
                   % (ord(letter), n, n, cols)))
    # dPivotGrowth
    pc = r["perm_c"]
    inv_pc = [0] * n
    for j in range(n):
        inv_pc[pc[j]] = j
    z = lambda k: ll.coqzl(r[k])
    ex.append(("rpg", "pivot_growth FArith (mkPg %s %s %s %s %s %s %s %s %s %s %s %s) %d %d %s" % (
        z("L_sup_beg"), z("L_sup_end"), z("L_ri_beg"), z("L_ri_end"), z("L_nz_beg"), ll.coql(r["L_nzval"]),
        z("U_beg"), z("U_end"), ll.coql(r["U_nzval"]), ll.coqzl(c["ptr"]), ll.coql(r["Aval"]),
        ll.coqzl(inv_pc), r["nsuper"], n, ll.coqf(r["mach"][1]))))
    return ex


def compare_d(c, r, vals):
    """vals: dict tag -> python value of the model.  returns list of disagreement strings"""
    dis = []
    n = c["n"]
    if list(map(tuple, vals["calls"])) != call_seq(r):
        dis.append("call sequence: model %s, pdgssvx %s" % (vals["calls"], call_seq(r)))
    if "info" in vals:
        if vals["info"] != r["info"]:
            dis.append("info: model %s, pdgssvx %s" % (vals["info"], r["info"]))
    if "gscon" in vals:
        info, has, rc, ainv, asked, rest, napp, ok = vals["gscon"]
        gout = [e for e in r["ev"] if e[0] == "gscon_out"][0]
        tin = [e for e in r["ev"] if e[0] == "trsv_in"]
        if not ok or info != gout[2]:
            dis.append("dgscon: model info/ok %s/%s, real info %s" % (info, ok, gout[2]))
        if len(asked) != len(tin) or rest != 0:
            dis.append("dgscon: model makes %d solves, real %d" % (len(asked), len(tin)))
        else:
            for i, (a, t) in enumerate(zip(asked, tin)):
                if a[0] != KIND_CODE.get(t[1]) or not ll.same_vec(list(a[1]), t[2]):
                    dis.append("dgscon: solve #%d differs (model %s, real %s)" % (i, a[0], t[1]))
                    break
        if not ll.same(rc, gout[1]) or not ll.same(gout[1], r["rcond"]):
            dis.append("dgscon: rcond model %r, real %r, driver %r" % (rc, gout[1], r["rcond"]))
        lout = [e for e in r["ev"] if e[0] == "lacon_out"]
        nl = [e for e in lout]
        # the dlacon_ calls inside dgscon come first in the event list
        k = 0
        for e in r["ev"]:
            if e[0] == "gscon_out":
                break
            if e[0] == "lacon_out":
                k += 1
        if k and not ll.same(lout[k - 1][2], ainv):
            dis.append("dgscon: ainvnm model %r, real %r" % (ainv, lout[k - 1][2]))
    lg = [e for e in r["ev"] if e[0] == "langs"]
    for letter in "1OoIi":
        if ("langs" + letter) in vals and letter in r["direct"]:
            ok, v = vals["langs" + letter]
            if not ok or not ll.same(v, r["direct"][letter][0]):
                dis.append("dlangs('%s'): model %r, real %r" % (letter, v, r["direct"][letter][0]))
    if "langsM" in vals and "direct_maxabs" in r:
        ok, v = vals["langsM"]
        if not ok or not ll.same(v, r["direct_maxabs"]):
            dis.append("dlangs('M'): model %r, real %r" % (v, r["direct_maxabs"]))
    if lg and ("langs" + chr(lg[0][1])) in vals:
        ok, v = vals["langs" + chr(lg[0][1])]
        if not ll.same(v, lg[0][2]):
            dis.append("dlangs in the driver: model %r, real %r" % (v, lg[0][2]))
    if "rpg" in vals and not ll.same(vals["rpg"], r["rpg"]):
        dis.append("dPivotGrowth: model %r, real %r" % (vals["rpg"], r["rpg"]))
    return dis


# ---------------------------------------------------------------------------------- dlacon_ with a dense operator
def lacon_dense_cases(ctx, count):
    rng = ctx.rng
    cs = []
    for t in range(count):
        n = rng.choice([1, 1, 2, 2, 3, 4, 5, 6, 7, 8, 11, 12, 13, 18, 24, 31])
        kind = rng.choice(["graded", "graded", "int", "sign", "cycle", "zero", "long", "long"])
        if kind == "long":          # operators searched for many iterations (iter = 3, 4, 5; the iteration cap)
            n = rng.choice([4, 5, 6, 7, 8, 10])
            M, _ = ll.long_run_operator(rng, n, rng.choice([7, 9, 11, 11]))
        elif kind == "graded":
            M = ll.graded(rng, n, 10.0 ** rng.uniform(0, 10))
        elif kind == "int":
            M = [[float(rng.randint(-3, 3)) for _ in range(n)] for _ in range(n)]
        elif kind == "sign":
            M = [[float(rng.choice([-1, 1])) for _ in range(n)] for _ in range(n)]
        elif kind == "cycle":       # permutation-like operators: ties in idamax, repeated sign vectors, est == estold
            perm = list(range(n)); rng.shuffle(perm)
            M = [[(float(rng.choice([1, 2])) if perm[i] == j else 0.0) for j in range(n)] for i in range(n)]
        else:
            M = [[0.0] * n for _ in range(n)]
            if n > 1:
                M[rng.randrange(n)][rng.randrange(n)] = rng.choice([0.0, -0.0, 1.0])
        cs.append({"id": "lac%d" % t, "mode": "lacon", "n": n, "M": M, "dirty": rng.choice([0, 0, 2, 5, 9]), "kind": kind})
    return cs


def check_lacon_dense(ctx, exe, cases):
    rc, res, se = ll.run_harness(ctx, exe, cases, "lac")
    if rc != 0 or len(res) != len(cases):
        ctx.broken.append("correspondence dlacon_: harness rc=%d %s" % (rc, se[-300:]))
        return
    exprs = []
    for c in cases:
        M, Mt = c["M"], ll.transpose(c["M"])
        exprs.append("lacon_dense_trace FArith %d %s %s (st_init FArith)" % (
            c["n"], "[" + "; ".join(ll.coql(r) for r in M) + "]", "[" + "; ".join(ll.coql(r) for r in Mt) + "]"))
    out = ll.coq_batch(ctx, "lacon_dense", ["LaconModel"], exprs)
    for c, r, o in zip(cases, res, out):
        ok, log, fin, napp = o
        evs = [e for e in r["ev"] if e[0] == "lacon_out"]
        vs = [e for e in r["ev"] if e[0] == "lacon_v"]
        mod = list(log) + [fin]
        bad = None
        if not ok or len(mod) != len(evs) or napp > 11:
            bad = "model makes %d calls (ok=%s), real %d" % (len(mod), ok, len(evs))
        else:
            for i, (m, e, v, sg) in enumerate(zip(mod, evs, vs, r["isgn_log"])):
                k, x, est, vv, isg = m
                # isgn is workspace: compared once it has been written (from the second return on)
                if not (k == e[1] and ll.same(est, e[2]) and ll.same_vec(list(x), e[3]) and ll.same_vec(list(vv), v[1])
                        and (list(isg) == sg)):
                    bad = "return #%d of dlacon_: model (kase %s, est %r) real (kase %s, est %r)" % (i, k, est, e[1], e[2])
                    break
        ctx.count(("lacon", c["id"], c["n"], c["kind"]), nontrivial=c["n"] > 1, kind="lacon-dense-" + c["kind"])
        if bad is None:
            ctx.corr("dlacon_ trace (kase,x,est,v,isgn) bit-exact")
            ctx.cov["traces_validated_against_impl"] += 1
        else:
            # the property's own oracle on this input: est must be an attained ratio and <= ||M||_1
            n = c["n"]
            est_real = r["lacon_final"][1]
            nrm = ll.norm1([[Fr(x) for x in row] for row in c["M"]])
            if Fr(est_real) > nrm * (1 + Fr(4 * n + 8, 2 ** 53)) or est_real != est_real:
                ctx.violation("dlacon_ returns est = %r > ||M||_1 = %r (%s)" % (est_real, float(nrm), bad),
                              {"kind": "lacon", "case": c}, key={"site": "dlacon_", "class": "est-exceeds-norm"})
            else:
                ctx.broken.append("correspondence dlacon_ (%s n=%d): %s" % (c["id"], c["n"], bad))
                ctx.sample({"lacon_mismatch": c["id"], "what": bad})



# ---------------------------------------------------------------------------------- leaf routines of the complex estimator
def check_complex_leaves(ctx, lib, fl, only=None):
    """K-exact tie of the model's idamax0 to i?max1_ (the complex estimators pick the next probe with it: index of the element
    whose REAL PART has the largest absolute value, first one on ties) and K-pred tie of ??sum1_ (sum of moduli, exact
    rational bounds): the complex precisions have no bit-exact estimator model, so the routines it is built from are
    compared directly.  Vectors with the maximum at every position (first, last, interior), ties, zeros, negative values."""
    rng = ctx.rng
    vecs = []
    for n in list(range(1, 10)) + [12, 17, 33]:
        for pos in sorted({0, n - 1, n // 2, rng.randrange(n)}):
            re = [rng.choice([-1, 1]) * rng.uniform(0.0, 1.0) for _ in range(n)]
            re[pos] = rng.choice([-1, 1]) * rng.uniform(1.5, 3.0)
            im = [rng.choice([-1, 1]) * rng.uniform(0.0, 4.0) for _ in range(n)]      # imaginary parts may be larger: ignored by i?max1
            vecs.append((re, im))
        re = [rng.choice([-2.0, 2.0, 1.0, 0.0]) for _ in range(n)]                    # ties: the first maximum counts
        vecs.append((re, [float(rng.randint(-3, 3)) for _ in range(n)]))
    nidx = nsum = 0
    if only is not None:
        vecs = [(only["re"], only["im"])]
    for p, prec in (("z", 3), ("c", 2)):
        if only is not None and only["prec"] != p:
            continue
        exe = ctx.cc_harness("cleaf_" + p, ["cleaf_harness.c"], lib, fl + ["-DVP_PREC=%d" % prec])
        vv = [([ll.to_single(x) for x in re], [ll.to_single(x) for x in im]) if p == "c" else (re, im) for re, im in vecs]
        inp = "".join("%d %s\n" % (len(re), " ".join("%s %s" % (float(a).hex(), float(b).hex()) for a, b in zip(re, im))) for re, im in vv)
        rc, out, err = vf.sh2([exe], inp=inp, timeout=120)
        lines = out.strip().split("\n")
        if rc != 0 or len(lines) != len(vv):
            ctx.broken.append("correspondence i%smax1_: harness rc=%d %s" % (p, rc, err[-200:]))
            continue
        mod = ll.coq_batch(ctx, "imax1_" + p, ["LaconModel"], ["idamax0 FArith %s" % ll.coql(re) for re, im in vv])
        u = Fr(1, 2 ** (52 if p == "z" else 23))
        for (re, im), ln, m in zip(vv, lines, mod):
            idx, sm = int(ln.split()[0]), float.fromhex(ln.split()[1])
            ctx.count(("leaf", p, tuple(re), tuple(im)), nontrivial=len(re) > 1, kind="leaf-i%smax1" % p)
            if idx != m + 1:
                ctx.violation("i%smax1_ returns %d for the real parts %s: the element with the largest |real part| (first on ties) is "
                              "number %d; the complex estimator would probe the wrong column" % (p, idx, re, m + 1),
                              {"kind": "leaf", "prec": p, "re": re, "im": im}, key={"site": "i%smax1_" % p, "class": "wrong-index"})
            else:
                nidx += 1
            lo = hi = Fr(0)
            for a, b in zip(re, im):
                q = Fr(a) ** 2 + Fr(b) ** 2
                r = Fr(math.isqrt(int(q * (1 << 120)))) / (1 << 60)
                lo += r; hi += r + Fr(1, 1 << 60)
            n = len(re)
            if not (lo * (1 - (n + 4) * u) <= Fr(sm) <= hi * (1 + (n + 4) * u)):
                ctx.violation("%s returns %r for a vector whose moduli sum to %r" % ("dzsum1_" if p == "z" else "scsum1_", sm, float(lo)),
                              {"kind": "leaf", "prec": p, "re": re, "im": im}, key={"site": "sum1_" + p, "class": "wrong-sum"})
            else:
                nsum += 1
    ctx.cov["correspondence"]["i?max1_ = idamax0 model (K-exact)"] = nidx
    ctx.cov["correspondence"]["??sum1_ within exact bounds"] = nsum

# ---------------------------------------------------------------------------------- run
def eval_batch(ctx, p, exe, cases, tag, ienv=None):
    """run a batch of ssvx cases; oracle for all, K-exact for d.  returns number of cases evaluated"""
    env = {"VERIF_IENV": ienv} if ienv else None
    rc, res, se = ll.run_harness(ctx, exe, cases, tag, env=env, timeout=900)
    byid = {r["id"]: r for r in res}
    if rc != 0:
        # a crash: find the first case without a complete record
        bad = next((c for c in cases if not byid.get(c["id"], {}).get("complete")), None)
        ctx.violation("harness/p%sgssvx crashed (rc=%d) on case %s: %s" % (p, rc, bad and bad["id"], se[-300:]),
                      {"kind": "ssvx", "prec": p, "case": bad, "ienv": ienv},
                      key={"site": "p%sgssvx" % p, "class": "crash"}, found_input=bad is not None)
    exprs, owners = [], []
    done = []
    for c in cases:
        r = byid.get(c["id"])
        if not r or not r.get("complete"):
            continue
        done.append((c, r))
        if p == "d" and c["nprocs"] >= 1:
            for tagx, e in coq_exprs_for(c, r):
                exprs.append(e); owners.append((c["id"], tagx))
    model = {}
    if exprs:
        vals = ll.coq_batch(ctx, "ssvx_" + tag, ["Consts", "LaconModel"], exprs)
        for (cid, tagx), v in zip(owners, vals):
            model.setdefault(cid, {})[tagx] = v
    for c, r in done:
        fails, st = oracle(c, r, p)
        f2, nrep = estimator_replies(c, r, p)
        fails = fails + f2
        if nrep:
            ctx.corr("estimator replies inside ?gscon checked against the factored matrix (%s)" % p, nrep)
        nontriv = c["n"] > 1 and not st.get("singular_reported") and not st.get("exactly_singular")
        ctx.count(("ssvx", p, c["id"], c["kind"], c["n"], c["stype"], c["trans"], c["fact"], c["u"], c["permc"]),
                  nontrivial=nontriv, kind="%s-%s" % (p, c["kind"]))
        ctx.cov["histogram"]["trans-%s/%s" % ("NC" if c["stype"] == 0 else "NR", TRANS_NAME[c["trans"]])] = \
            ctx.cov["histogram"].get("trans-%s/%s" % ("NC" if c["stype"] == 0 else "NR", TRANS_NAME[c["trans"]]), 0) + 1
        for k in ("checked_rcond", "beyond_quantifier", "theta_too_large"):
            if st.get(k):
                ctx.corr("oracle: " + k, st[k])
        if st.get("cabs1_convention"):
            ctx.corr("oracle: complex pivot growth matches with |re|+|im| (z_abs1)")
        if r.get("info") == c["n"] + 1:
            ctx.corr("oracle: info = n+1 cases (rcond < eps) with X, ferr, berr returned")
        if st.get("max_theta") is not None:
            ctx.cov["max_theta"] = max(ctx.cov.get("max_theta", 0.0), st["max_theta"])
        ctx.sample({"case": c["id"], "prec": p, "kind": c["kind"], "n": c["n"], "stype": c["stype"], "trans": c["trans"],
                    "rcond": r.get("rcond"), "rpg": r.get("rpg"), "info": r.get("info"),
                    "rcond*cond": st.get("ratio", [None])[0]})
        for slug, msg in fails:
            ctx.violation("%s [%s n=%d %s/%s fact=%d u=%g]: %s" % (slug, c["kind"], c["n"], "NC" if c["stype"] == 0 else "NR",
                                                                     TRANS_NAME[c["trans"]], c["fact"], c["u"], msg),
                          {"kind": "ssvx", "prec": p, "case": c, "ienv": ienv, "failure": slug},
                          key={"class": slug, "arith": "complex" if ll.is_cx(p) else "real",
                               "routine": ("?gscon" if slug.startswith("rcond") else "p?gssvx"),
                               "storage": "NC" if c["stype"] == 0 else "NR"})
        if p == "d" and c["id"] in model:
            dis = compare_d(c, r, model[c["id"]])
            if not dis:
                ctx.corr("pdgssvx run: calls, dgscon replay, dlangs, dPivotGrowth bit-exact")
                ctx.cov["traces_validated_against_impl"] += 1
            elif not fails:
                # model and code disagree but the property's oracle passes on this input
                ctx.broken.append("correspondence pdgssvx (%s): %s" % (c["id"], "; ".join(dis)[:400]))
                ctx.sample({"mismatch": c["id"], "what": dis[:3]})
            else:
                ctx.log("  model/implementation disagreement on failing case %s: %s" % (c["id"], dis[:2]))
    return len(done)


def run(ctx):
    ctx.cov["rule"] = ("ssvx cases: dense matrices U diag(sigma) V^T with prescribed singular values (xLATMS modes 1-4, cond up to "
                       "1e-3/eps of the precision), sparsified + diagonal shift, badly row/column-scaled (equilibration fires), "
                       "near-singular (cond > 1/eps: info = n+1 clause only), triangular, diagonal; n in 1..19 (quick) / ..40, "
                       "NC and NR storage x NOTRANS/TRANS/CONJ, fact DOFACT/EQUILIBRATE, u in [0.1,1], 4 column orderings, "
                       "1-4 threads, two sp_ienv settings (one supernode / many small supernodes). dlacon_ cases: dense operators "
                       "(graded, small integers, sign matrices, scaled permutations, zero). Non-trivial: n > 1 and nonsingular. "
                       "Oracle slack (stated, computed per case from the returned factors): lower bound (1+gamma(3n+8))/(1-theta), "
                       "upper bound ((1+theta)/(1-theta))^9 (1+gamma(3n+8)), theta = ||inv A|| * || |LU - Pr A Pc| + gamma(3n)|L||U| ||; "
                       "cases with theta >= 1/2 or cond > 1e-3/eps are not used for the inequalities (counted).")
    ctx.cov["trusted_base"] += [
        "GNU ld --wrap (call logging of dlangs/dgscon/dlacon_/sp_dtrsv/dgstrs/dgsrfs without editing /repo)",
        "Coq primitive floats = IEEE binary64 = gcc -O2 -ffp-contract=off SSE2 doubles (vm_compute evaluation of the PrimFloat instance)",
        "python Fractions (exact inverse, norms) and the float-evaluated slack theta (upper bound with 1e-9 safety factor)",
        "i_dnnt(+-1) = +-1 and (double)(int) exact below 2^53 (model of dlacon.c macros)",
    ]
    ctx.cov["partial"] += [
        "theorems are in exact arithmetic (Q); the floating-point 'up to rounding' part is decided by the oracle with the stated slack",
        "sp_dtrsv itself is not modelled here (its recorded outputs are replayed); s/c/z: oracle only",
        "complex reciprocal pivot growth uses |re|+|im| (z_abs1), not the modulus",
    ]
    ctx.coq_properties()
    lib, fl = ctx.build_lib("hooks")
    exes = {p: ll.build_harness(ctx, lib, fl, p) for p in "dszc"}
    q = ctx.quick()
    # corpus first
    cdir = os.path.join(vf.VERIF, "corpus", "C12")
    if os.path.isdir(cdir):
        for f in sorted(os.listdir(cdir)):
            if f.endswith(".json"):
                obj = json.load(open(os.path.join(cdir, f)))
                replay(ctx, obj, quiet=True)
    check_lacon_dense(ctx, exes["d"], lacon_dense_cases(ctx, 80 if q else 600))
    check_complex_leaves(ctx, lib, fl)
    small_ienv = "3,2,4,200,100,-50,-50,-30"
    plan = [("d", 60 if q else 400, None), ("d", 36 if q else 240, small_ienv),
            ("z", 16 if q else 100, None), ("s", 24 if q else 160, small_ienv), ("c", 12 if q else 80, None)]
    for i, (p, cnt, ienv) in enumerate(plan):
        cases = gen_cases(ctx, p, cnt)
        for c in cases:
            c["id"] = "%s_%d" % (c["id"], i)
        t = time.time()
        k = eval_batch(ctx, p, exes[p], cases, "%s%d" % (p, i), ienv)
        ctx.log("precision %s ienv=%s: %d cases in %.1fs" % (p, ienv, k, time.time() - t))
    if ctx.broken and any(v["found"] for v in ctx.violations):
        # vf.finish() only reports broken obligations when no failing input was found at all; a failing input of
        # one kind must not hide a broken correspondence of another kind
        ctx.violation("proof obligation or correspondence no longer checks: %s" % "; ".join(ctx.broken)[:1500],
                      {"kind": "obligation", "broken": ctx.broken}, key={"class": "broken-obligation"}, found_input=False)


def replay(ctx, obj, quiet=False):
    rp = obj.get("replay", obj)
    lib, fl = ctx.build_lib("hooks")
    if rp.get("kind") == "lacon":
        exe = ll.build_harness(ctx, lib, fl, "d")
        before = len(ctx.violations) + len(ctx.broken)
        check_lacon_dense(ctx, exe, [rp["case"]])
        return 1 if len(ctx.violations) + len(ctx.broken) > before else 0
    if rp.get("kind") == "ssvx" and rp.get("case"):
        p = rp["prec"]
        exe = ll.build_harness(ctx, lib, fl, p)
        before = len(ctx.violations) + len(ctx.broken)
        eval_batch(ctx, p, exe, [rp["case"]], "replay", rp.get("ienv"))
        bad = len(ctx.violations) + len(ctx.broken) > before
        if bad and not ctx.violations:
            ctx.violation("replayed case still disagrees: %s" % "; ".join(ctx.broken)[:300], rp, found_input=True)
        return 1 if bad else 0
    if rp.get("kind") == "leaf":
        before = len(ctx.violations) + len(ctx.broken)
        check_complex_leaves(ctx, lib, fl, only=rp)
        return 1 if len(ctx.violations) + len(ctx.broken) > before else 0
    if rp.get("kind") == "obligation":
        ok = ctx.coq_properties()
        if not ok:
            ctx.violation("proof obligation still broken: %s" % "; ".join(ctx.broken)[:300], rp, found_input=False)
        return 0 if ok else 1
    return 0
