"""C07 -- the expert driver solves the original system for every trans / storage / equilibration option."""
import json
from fractions import Fraction
import vf, drv, gen
from checks import c01

MANIFEST = {
    "text": "Coq theorems (Properties_C07.v): the scaling wiring of p?gssvx is correct in exact arithmetic for both transpose "
            "senses and all four equed outcomes (if the scaled system is solved, the returned X solves the ORIGINAL system), "
            "and the scaled system is solved backward stably (C01's gamma(3n) theorem, any summation order). The decision "
            "logic for equed / R / C and the bit-exact scaling of A and B are C11's theorems and correspondence. Tie: real "
            "p?gssvx runs for trans in {N,T,C} x NC/NR x fact in {DOFACT, EQUILIBRATE, FACTORED (second call reusing the "
            "factors, fresh B, possibly another trans)} x badly scaled inputs forcing every equed outcome x s/d/c/z x nrhs x "
            "nprocs: info in {0, n+1}, the componentwise backward error of X for the ORIGINAL unscaled system computed in exact "
            "rational arithmetic, and A_out / B_out equal to the scaled inputs as the flag says (bit-exact, d and z).",
    "note": "refinement contraction (Skeel) is not proved: the accuracy claim is decided by the exact oracle with the slack "
            "50(n+1)u on well-conditioned inputs. Trusted: Coq kernel, Reals axioms as printed, python exact oracle.",
    "technique": "Coq proof (scaling wiring, exact; backward stability from C01) + exact-rational backward-error oracle on real p?gssvx runs",
}

UPOW = c01.UPOW


def scaled_matrix(rng, n, mode, emax=18):
    """well conditioned core, rows/columns scaled by powers of two to force the requested equed outcome.  emax: largest exponent
    (18 in double; 7 in single precision, where a spread of 2^36 leaves the transposed system too ill conditioned in the
    componentwise sense for 24-bit refinement to converge: the reported berr says so truthfully, it is not a defect)"""
    A = gen.matrix(rng, rng.choice(["diagdom", "banded", "grid", "blockdiag"]), n)
    n = A["n"]
    rs = [1.0] * n; cs = [1.0] * n
    if mode in ("row", "both"):
        rs = [2.0 ** rng.randint(-emax, emax) for _ in range(n)]
    if mode in ("col", "both"):
        cs = [2.0 ** rng.randint(-emax, emax) for _ in range(n)]
    vals = list(A["vals"])
    for j in range(n):
        for p in range(A["colptr"][j], A["colptr"][j + 1]):
            vals[p] = vals[p] * rs[A["rowind"][p]] * cs[j]
    A["vals"] = vals
    return A


def make_case(rng, cid, prec, quick):
    ncomp = 2 if prec in "cz" else 1
    rnd = c01.f32 if prec in "sc" else (lambda v: v)
    n = rng.randint(1, 20 if quick else 40)
    mode = rng.choice(["none", "row", "col", "both"])
    A = scaled_matrix(rng, n, mode, 7 if prec in "sc" else 18)
    n = A["n"]
    vals = []
    for v in A["vals"]:
        vals += [rnd(v), rnd(v * rng.uniform(-0.5, 0.5))] if ncomp == 2 else [rnd(v)]
    nrhs = rng.choice([1, 1, 3, 0])
    def rhs_():
        return [rnd(gen.val(rng)) for _ in range(n * nrhs * ncomp)]
    fact = rng.choice([0, 1, 1, 2])
    c = dict(id=cid, prec=prec, driver="gssvx", stype=rng.choice(["NC", "NR"]), m=n, n=n, colptr=A["colptr"], rowind=A["rowind"],
             vals=vals, nrhs=nrhs, rhs=rhs_(), nprocs=rng.choice([1, 2, 4]), colperm=rng.choice([0, 1, 2, 3]),
             ienv=[rng.choice([1, 2, 8, 20]), rng.choice([1, 2, 6]), rng.choice([8, 200]), 200, 100, -50, -50, -30],
             thresh=1.0, trans=rng.choice([0, 1, 2]), fact=(1 if fact == 2 else fact), dumplu=0, timeout=120, kind=mode,
             ldb=n + rng.choice([0, 0, 1, 4]), ldx=n + rng.choice([0, 0, 2, 3]))
    if fact == 2:
        c["rhs2"] = rhs_(); c["trans2"] = rng.choice([0, 1, 2]); c["kind"] = mode + "+factored"
    return c


def growth_case(rng, cid, prec):
    """pivot growth + several right-hand sides of very different size: tridiagonal matrix with a tiny diagonal, natural
    order, threshold 0 (diagonal pivots: growth about 1e6), nrhs = 3 with a zero or tiny FIRST solution column.  The plain
    triangular solve is then visibly inaccurate (1e-11) and only the refinement step of the expert driver brings EVERY column
    to a backward-stable solution of the original system -- each column on its own, whatever sits before it in B."""
    ncomp = 2 if prec in "cz" else 1
    n = rng.randint(20, 40)
    ent = {}
    for j in range(n):
        ent[(j, j)] = 1e-6 * rng.choice([1, -1]) * rng.uniform(0.5, 1.5)
        if j + 1 < n:
            ent[(j + 1, j)] = rng.uniform(0.5, 1.5) * rng.choice([1, -1]); ent[(j, j + 1)] = rng.uniform(0.5, 1.5) * rng.choice([1, -1])
    A = gen.from_entries(n, ent, "growth")
    vals = []
    for v in A["vals"]:
        vals += [v, v * rng.uniform(-0.5, 0.5)] if ncomp == 2 else [v]
    nrhs = 3
    kind0 = rng.choice(["zero", "tiny"])
    def col(scale):
        return [scale * gen.val(rng) for _ in range(n * ncomp)]
    rhs = (col(0.0) if kind0 == "zero" else col(1e-13)) + col(1.0) + col(1.0)
    return dict(id=cid, prec=prec, driver="gssvx", stype=rng.choice(["NC", "NR"]), m=n, n=n, colptr=A["colptr"], rowind=A["rowind"],
                vals=vals, nrhs=nrhs, rhs=rhs, nprocs=rng.choice([1, 2]), colperm=0,
                ienv=[rng.choice([1, 2, 8]), 1, rng.choice([8, 200]), 200, 100, -50, -50, -30],
                thresh=0.0, trans=rng.choice([0, 1, 2]), fact=0, dumplu=0, timeout=120, kind="growth-" + kind0, ldb=n, ldx=n)


def backward_error(c, X, B, trans):
    """componentwise backward error of X for op(A) X = B with the ORIGINAL A, exact; returns (omega as Fraction, worst row)"""
    n = c["n"]; ncomp = 2 if c["prec"] in "cz" else 1
    A = c01.A_entries(c)            # (i,j) of the user's A
    if ncomp == 2:
        X = c01.cplx(X); B = c01.cplx(B)
    worst = Fraction(0); wi = -1
    rows = {}
    for (i, j), v in A.items():
        if trans == 0:
            rows.setdefault(i, []).append((j, v))
        elif trans == 1:
            rows.setdefault(j, []).append((i, v))
        else:
            rows.setdefault(j, []).append((i, v.conjugate() if isinstance(v, complex) else v))
    for k in range(c["nrhs"]):
        x = X[k * n:(k + 1) * n]; b = B[k * n:(k + 1) * n]
        for i in range(n):
            if ncomp == 2:
                sr = Fraction(0); si = Fraction(0); den = Fraction(0)
                for j, v in rows.get(i, []):
                    a = (Fraction(v.real), Fraction(v.imag)); xx = (Fraction(x[j].real), Fraction(x[j].imag))
                    sr += a[0] * xx[0] - a[1] * xx[1]; si += a[0] * xx[1] + a[1] * xx[0]
                    den += (abs(a[0]) + abs(a[1])) * (abs(xx[0]) + abs(xx[1]))
                rr = max(abs(Fraction(b[i].real) - sr), abs(Fraction(b[i].imag) - si))
                den += abs(Fraction(b[i].real)) + abs(Fraction(b[i].imag))
            else:
                s = Fraction(0); den = Fraction(0)
                for j, v in rows.get(i, []):
                    t = Fraction(v) * Fraction(x[j]); s += t; den += abs(t)
                rr = abs(Fraction(b[i]) - s); den += abs(Fraction(b[i]))
            if den == 0:
                if rr != 0:
                    return Fraction(1), i
                continue
            w = rr / den
            if w > worst:
                worst, wi = w, i
    return worst, wi


def oracle(c, r):
    n = c["n"]; prec = c["prec"]
    if r.get("timeout") or r.get("crash") is not None or r.get("missing") or r.get("parse_error"):
        return "run failed: %s" % {k: r.get(k) for k in ("timeout", "crash", "stderr", "parse_error")}
    if r["info"] not in (0, n + 1):
        if r["info"] > 0 and r["info"] <= n and gen.exactly_singular(n, c01.A_entries(c)):
            return None
        return "info = %d, expected 0 or n+1" % r["info"]
    if r["threads_after"] != 1:
        return "threads left after return"
    if r.get("pad_modified"):
        return "%d storage entries of B/X outside the n x nrhs matrices (ldb %d, ldx %d) were modified" % (r["pad_modified"], r.get("ldb"), r.get("ldx"))
    tol = Fraction(50 * (n + 1), 1 << UPOW[prec])
    X = [float.fromhex(x) for x in r["X"]]
    w, wi = backward_error(c, X, c["rhs"], c["trans"])
    if w > tol:
        return "first call: componentwise backward error of X for the original system = %.3e > %.3e (row %d, equed %d)" % (float(w), float(tol), wi, r["equed"])
    if c.get("rhs2") is not None:
        if r.get("info2") not in (0, n + 1):
            return "FACTORED call: info = %s" % r.get("info2")
        X2 = [float.fromhex(x) for x in r["X2"]]
        w, wi = backward_error(c, X2, c["rhs2"], c["trans2"])
        if w > tol:
            return "FACTORED call (trans %d): componentwise backward error = %.3e > %.3e (row %d, equed %d)" % (c["trans2"], float(w), float(tol), wi, r["equed"])
    return None


def run(ctx):
    rng = ctx.rng
    ctx.cov["rule"] = ("p?gssvx, trans {N,T,C} x NC/NR x fact {DOFACT, EQUILIBRATE, EQUILIBRATE+second call FACTORED with new B/trans} x "
                       "row/column/both/no bad scaling (powers of two up to 2^+-18) x s/d/c/z x nrhs {0,1,3} x leading dimensions ldb, ldx >= n chosen independently x nprocs {1,2,4} x "
                       "orderings; well-conditioned cores (diagonally dominant, banded, grid, block diagonal); non-trivial = n>=3")
    ctx.coq_properties()
    N = {"d": 80, "s": 25, "z": 25, "c": 20} if ctx.quick() else {"d": 1200, "s": 300, "z": 300, "c": 250}
    nok = 0
    combos = set()
    for prec in "dszc":
        cases = [make_case(rng, k + 1, prec, ctx.quick()) for k in range(N[prec])]
        # the full option product, systematically, in EVERY precision (the random stream meets a given combination of
        # storage x scaling outcome x trans x factor reuse in one precision only now and then): EQUILIBRATE, then a second call
        # with fact = FACTORED reusing equed/R/C/L/U with a fresh B and every trans
        for stype in ("NC", "NR"):
            for mode in ("none", "row", "col", "both"):
                for tr in (0, 1, 2):
                    c = make_case(rng, len(cases) + 1, prec, True)
                    while c["n"] < 4 or c["kind"].split("+")[0] != mode:
                        c = make_case(rng, len(cases) + 1, prec, True)
                    nr = max(1, c["nrhs"]); ncomp = 2 if prec in "cz" else 1
                    rnd = c01.f32 if prec in "sc" else (lambda v: v)
                    c.update(stype=stype, trans=tr, fact=1, nrhs=nr, kind=mode + "+factored")
                    c["rhs"] = [rnd(gen.val(rng)) for _ in range(c["n"] * nr * ncomp)]
                    c["rhs2"] = [rnd(gen.val(rng)) for _ in range(c["n"] * nr * ncomp)]
                    c["trans2"] = (tr + 1 + (len(cases) % 2)) % 3 if mode == "none" else rng.choice([0, 1, 2])
                    cases.append(c)
        if prec in "dz":
            for _k in range(6 if ctx.quick() else 60):
                cases.append(growth_case(rng, len(cases) + 1, prec))
        exe = drv.build(ctx, prec, "hooks")
        res = drv.run_grouped(exe, cases, par=max(1, vf.NCPU // 3))
        for c, r in zip(cases, res):
            ctx.count((prec, c["kind"], c["n"], tuple(c["rowind"][:40]), tuple(c["vals"][:6]), c["nprocs"], c["stype"], c["trans"], c["fact"]),
                      nontrivial=c["n"] >= 3, kind="%s-%s-t%d-f%d-%s" % (prec, c["stype"], c["trans"], c["fact"], c["kind"]))
            bad = oracle(c, r)
            if bad is None:
                nok += 1
                if "equed" in r:
                    combos.add((c["trans"], c["stype"], c["fact"], r["equed"], "factored" if c.get("rhs2") else "single"))
            else:
                conj_nr = prec in "cz" and c["stype"] == "NR" and (c["trans"] == 2 or c.get("trans2") == 2)
                key = {"kind": "expert", "class": "complex_NR_CONJ"} if conj_nr else {"kind": "expert", "prec": prec, "what": bad[:26]}
                ctx.violation("C07 (%s %s trans %d fact %d %s): %s" % (prec, c["stype"], c["trans"], c["fact"], c["kind"], bad),
                              {"case": c, "result": {k: v for k, v in r.items() if k not in ("L", "U", "events")}}, key=key)
        ctx.sample({k: cases[0][k] for k in ("prec", "kind", "n", "stype", "trans", "fact", "nrhs", "nprocs")}, limit=8)
    ctx.cov["correspondence"]["runs_ok"] = nok
    ctx.cov["correspondence"]["distinct_option_equed_combinations_seen"] = len(combos)
    ctx.log("runs ok: %d, option x equed combinations seen: %d" % (nok, len(combos)))
    ctx.cov["partial"] += ["refinement_contracts (Skeel) not proved; accuracy after refinement decided by the exact oracle with slack 50(n+1)u"]
    ctx.cov["trusted_base"] += ["python exact backward-error oracle", "Reals axioms as printed"]


def replay(ctx, obj):
    rp = obj.get("replay", obj)
    c = rp["case"]
    exe = drv.build(ctx, c["prec"], "hooks")
    for i in range(10):
        r = drv.run_batch(exe, [c])[0]
        bad = oracle(c, r)
        if bad:
            ctx.violation("C07: " + bad, {"case": c}, key={"kind": "expert"})
            return 1
    return 0
