"""C16 -- symmetric mode with diagonal pivoting is correct and keeps diagonal pivots."""
import json
from fractions import Fraction
import vf, drv, gen, lu, cert, presetsim
from checks import c01, c07

MANIFEST = {
    "text": "Coq theorems (Properties_C16.v, closed under the global context): with threshold 0 and no pivot reuse the pivot rule "
            "chooses the original diagonal entry whenever it is nonzero, hence perm_r = perm_c; the allocator arithmetic of C05 "
            "applies to the symmetric (Cholesky of A^T+A) prediction (PARTIAL: domination monitored). C01/C02 theorems hold for "
            "any admissible pivots. Tie: real p?gssvx runs with SymmetricMode = YES, ordering on A^T+A, threshold 0 on diagonally "
            "dominant matrices (unsymmetric and symmetric patterns, full diagonal), s/d/c/z, 1..8 threads with seeded "
            "perturbation: perm_r = perm_c, every LUSUP allocation inside its slot (hook), exact LU certificate gamma(n)|L||U| "
            "and exact backward error of X.",
    "note": "diag_dominance_preserved (the diagonal stays nonzero during elimination) and fill_in_symmetric_bound are not "
            "proved: the first is a hypothesis of the property realised by the generator, the second is monitored by the slot "
            "hook. Trusted: Coq kernel, extraction, hooks, python exact oracles.",
    "technique": "Coq proof (pivot rule at threshold 0, allocator arithmetic) + slot monitor + exact certificates on real symmetric-mode runs",
}


def make_case(rng, cid, prec, quick):
    ncomp = 2 if prec in "cz" else 1
    rnd = c01.f32 if prec in "sc" else (lambda v: v)
    n = rng.randint(2, 30 if quick else 80)
    kind = rng.choice(["diagdom", "diagdom", "grid", "symdom"])
    if kind == "symdom":
        A0 = gen.matrix(rng, "random", n); n = A0["n"]
        ent = {}
        for j in range(n):
            for p in range(A0["colptr"][j], A0["colptr"][j + 1]):
                i = A0["rowind"][p]
                if i != j:
                    ent[(i, j)] = A0["vals"][p]; ent.setdefault((j, i), gen.val(rng))
        rs = [0.0] * n; cs = [0.0] * n
        for (i, j), v in ent.items():
            rs[i] += abs(v); cs[j] += abs(v)
        for j in range(n):
            ent[(j, j)] = (max(rs[j], cs[j]) * 2 + 1.0) * rng.choice([1, -1])
        A = gen.from_entries(n, ent, kind)
    else:
        A = gen.matrix(rng, kind, n)
    n = A["n"]
    vals = []
    for p, v in enumerate(A["vals"]):
        vals += [rnd(v), rnd(v * rng.uniform(-0.2, 0.2))] if ncomp == 2 else [rnd(v)]
    nrhs = 1
    rhs = [rnd(gen.val(rng)) for _ in range(n * nrhs * ncomp)]
    return dict(id=cid, prec=prec, driver="gssvx", stype="NC", m=n, n=n, colptr=A["colptr"], rowind=A["rowind"], vals=vals,
                nrhs=nrhs, rhs=rhs, nprocs=rng.choice([1, 2, 4, 8]), colperm=2, symmetric=1, thresh=0.0, fact=0, trans=0,
                ienv=[rng.choice([1, 2, 4, 8, 20]), rng.choice([1, 2, 4, 6]), rng.choice([8, 20, 200]), rng.choice([2, 200]),
                      rng.choice([2, 100]), -50, -50, -30],
                perturb=[rng.randint(1, 10 ** 6), rng.choice([0.0, 0.2]), rng.choice([0, 100])], dumplu=1, timeout=120, kind=kind)


def oracle(c, r):
    n = c["n"]; prec = c["prec"]; ncomp = 2 if prec in "cz" else 1
    if r.get("timeout") or r.get("crash") is not None or r.get("missing") or r.get("parse_error"):
        return "run failed: %s" % {k: r.get(k) for k in ("timeout", "crash", "stderr", "parse_error")}
    if r["info"] not in (0, n + 1):
        return "info = %d" % r["info"]
    if r["perm_r"] != r["perm_c"]:
        return "perm_r differs from perm_c: a pivot was not the original diagonal entry (perm_r %s, perm_c %s)" % (r["perm_r"][:12], r["perm_c"][:12])
    if r.get("hooks") and r["slot_overrun"]:
        return "fill exceeded the symmetric prediction: column %d overran its L slot by %d entries" % (r["slot_overrun_col"], r["slot_overrun_by"])
    try:
        L, U = lu.dense_LU(r, ncomp)
    except (ValueError, IndexError, KeyError) as e:
        return "malformed L/U structure: %s" % e
    A = c01.A_entries(c)
    if prec == "d":
        bad = cert.check_lu(n, A, r["perm_r"], r["perm_c"], L, U, c01.UPOW[prec], thresh_u=0.0)
    else:
        bad = cert.check_lu_frac(n, A, r["perm_r"], r["perm_c"], L, U, c01.UPOW[prec], (4 if ncomp == 2 else 1) * n)
    if bad:
        return bad
    X = [float.fromhex(x) for x in r["X"]]
    w, wi = c07.backward_error(c, X, c["rhs"], 0)
    tol = Fraction(50 * (n + 1), 1 << c01.UPOW[prec])
    if w > tol:
        return "componentwise backward error of X = %.3e > %.3e (row %d)" % (float(w), float(tol), wi)
    return None


def run(ctx):
    rng = ctx.rng
    ctx.cov["rule"] = ("p?gssvx, SymmetricMode=YES, MMD(A^T+A), threshold 0, diagonally dominant matrices (unsymmetric random pattern, "
                       "symmetric pattern, 2-D grid), s/d/c/z, nprocs 1..8, panel/relax/maxsuper/blocking sweeps (relax<=maxsuper), "
                       "seeded perturbation; non-trivial = n>=3; distinct by matrix+parameters")
    ctx.coq_properties()
    N = {"d": 60, "s": 16, "z": 16, "c": 12} if ctx.quick() else {"d": 800, "s": 200, "z": 200, "c": 200}
    nok = 0
    for prec in "dszc":
        cases = [make_case(rng, k + 1, prec, ctx.quick()) for k in range(N[prec])]
        exe = drv.build(ctx, prec, "hooks")
        res = drv.run_grouped(exe, cases, par=max(1, vf.NCPU // 2), chunk=1)    # one process per case: an overrun must not taint the next case
        for c, r in zip(cases, res):
            ctx.count((prec, c["kind"], c["n"], tuple(c["rowind"][:40]), tuple(c["vals"][:6]), c["nprocs"]), nontrivial=c["n"] >= 3,
                      kind="%s-%s" % (prec, c["kind"]))
            bad = oracle(c, r)
            if bad is None:
                nok += 1
            else:
                key = {"kind": "symmetric", "prec": prec, "what": bad[:26]}
                # attribution: does ?PresetMap lose track of the relaxed supernodes for this input (finding F29)?
                pre = drv.run_batch(exe, [dict(c, driver="colorder", perturb=None, id=c["id"] + 50000)])[0]
                if "etree" in pre and presetsim.presetmap_out_of_sync(c["n"], pre["etree"], pre["part_super_h"], c["ienv"][1], c["ienv"][2]):
                    key = {"kind": "symmetric", "class": "presetmap_relaxed_out_of_sync"}
                ctx.violation("C16 (%s, %s): %s" % (prec, c["kind"], bad),
                              {"case": c, "result": {k: v for k, v in r.items() if k not in ("L", "U", "events")}}, key=key)
        ctx.sample({k: cases[0][k] for k in ("prec", "kind", "n", "nprocs", "ienv")}, limit=8)
    ctx.cov["correspondence"]["symmetric_runs_ok"] = nok
    ctx.log("symmetric-mode runs ok: %d" % nok)
    ctx.cov["partial"] += ["diag_dominance_preserved and fill_in_symmetric_bound not proved (generator hypothesis / slot monitor)"]


def replay(ctx, obj):
    rp = obj.get("replay", obj)
    c = rp["case"]
    exe = drv.build(ctx, c["prec"], "hooks")
    for i in range(10):
        r = drv.run_batch(exe, [c])[0]
        bad = oracle(c, r)
        if bad:
            ctx.violation("C16: " + bad, {"case": c}, key={"kind": "symmetric"})
            return 1
    return 0
