"""C16 -- symmetric mode with diagonal pivoting is correct and keeps diagonal pivots."""
import json
from fractions import Fraction
import vf, drv, gen, lu, cert, presetsim
from checks import c01, c05, c07

MANIFEST = {
    "text": "Coq theorems (Properties_C16.v, closed under the global context): with threshold 0 and no pivot reuse the pivot rule "
            "chooses the original diagonal entry whenever it is nonzero, hence perm_r = perm_c; with diagonal pivots the fill "
            "of the matrix stays inside the fill of A^T+A at every stage, for every pattern and size (monotone elimination step, induction), "
            "hence every L column has at most the predicted number of entries; the allocator arithmetic of C05 applies to that prediction. C01/C02 theorems hold for "
            "any admissible pivots. Tie: real p?gssvx runs with SymmetricMode = YES, ordering on A^T+A, threshold 0 on diagonally "
            "dominant matrices (unsymmetric and symmetric patterns, full diagonal), s/d/c/z, 1..8 threads with seeded "
            "perturbation: perm_r = perm_c, colcnt_h of cholnzcnt EQUAL to the extracted elimination model on A^T+A, the returned L structure EQUAL to the model's fill of the "
            "matrix itself (relax = 1, one worker) and inside the prediction (relax = 1, any number of workers), every LUSUP allocation inside its slot (hook), exact LU certificate gamma(n)|L||U| "
            "and exact backward error of X.",
    "note": "the diagonal stays nonzero during elimination: proved for column diagonally dominant matrices in exact arithmetic "
            "(Schur complement keeps the dominance), realised by the generator in rounded arithmetic; cholnzcnt is tied by exact "
            "comparison, not modelled. Trusted: Coq kernel, extraction, hooks, python exact oracles.",
    "technique": "Coq proof (pivot rule at threshold 0, allocator arithmetic) + slot monitor + exact certificates on real symmetric-mode runs",
}


def make_case(rng, cid, prec, quick):
    ncomp = 2 if prec in "cz" else 1
    rnd = c01.f32 if prec in "sc" else (lambda v: v)
    n = rng.randint(2, 30 if quick else 80)
    kind = rng.choice(["diagdom", "diagdom", "grid", "symdom", "rowdom", "rowdom"] if prec == "d" else ["diagdom", "grid", "symdom", "rowdom", "rowdom", "rowdom"])
    if kind == "rowdom":
        # strictly ROW diagonally dominant, rows scaled by powers of two <= 1: the diagonal stays nonzero during elimination
        # (row dominance is inherited by the Schur complement) but is NOT the largest entry of its column and is below 1 in
        # magnitude -- the pivot rule at threshold 0 must still take it (c16: diagonal preferred whenever it is nonzero)
        A0 = gen.matrix(rng, "random", n); n = A0["n"]
        ent = {}
        for j in range(n):
            for p in range(A0["colptr"][j], A0["colptr"][j + 1]):
                if A0["rowind"][p] != j:
                    ent[(A0["rowind"][p], j)] = rng.uniform(0.25, 1.0) * rng.choice([1, -1])
        rs = [0.0] * n
        for (i, j), v in ent.items():
            rs[i] += abs(v)
        sc = [2.0 ** (-rng.randint(1, 7)) for _ in range(n)]
        for j in range(n):
            ent[(j, j)] = (rs[j] * 1.5 + 0.5) * rng.choice([1, -1])
        ent = {(i, j): v * sc[i] / (4.0 * n) for (i, j), v in ent.items()}
        A = gen.from_entries(n, ent, kind)
    elif kind == "symdom":
        A0 = gen.matrix(rng, "random", n); n = A0["n"]
        ent = {}
        for j in range(n):
            for p in range(A0["colptr"][j], A0["colptr"][j + 1]):
                i = A0["rowind"][p]
                if i != j:
                    ent[(i, j)] = A0["vals"][p]; ent.setdefault((j, i), gen.val(rng))
        rs = [0.0] * n; cs = [0.0] * n
        for (i, j), v in ent.items():
            rs[i] += abs(v); cs[j] += abs(v)
        for j in range(n):
            ent[(j, j)] = (max(rs[j], cs[j]) * 2 + 1.0) * rng.choice([1, -1])
        A = gen.from_entries(n, ent, kind)
    else:
        A = gen.matrix(rng, kind, n)
    n = A["n"]
    vals = []
    for p, v in enumerate(A["vals"]):
        vals += [rnd(v), rnd(v * rng.uniform(-0.2, 0.2))] if ncomp == 2 else [rnd(v)]
    nrhs = 1
    rhs = [rnd(gen.val(rng)) for _ in range(n * nrhs * ncomp)]
    return dict(id=cid, prec=prec, driver="gssvx", stype="NC", m=n, n=n, colptr=A["colptr"], rowind=A["rowind"], vals=vals,
                nrhs=nrhs, rhs=rhs, nprocs=rng.choice([1, 1, 2, 4, 8]), colperm=2, symmetric=1, thresh=0.0, fact=0, trans=0,
                ienv=[rng.choice([1, 2, 4, 8, 20]), rng.choice([1, 1, 2, 4, 6]), rng.choice([8, 20, 200]), rng.choice([2, 200]),
                      rng.choice([2, 100]), -50, -50, -30], trace=4,
                perturb=[rng.randint(1, 10 ** 6), rng.choice([0.0, 0.2]), rng.choice([0, 100])], dumplu=1, timeout=120, kind=kind)


def oracle(c, r):
    n = c["n"]; prec = c["prec"]; ncomp = 2 if prec in "cz" else 1
    if r.get("timeout") or r.get("crash") is not None or r.get("missing") or r.get("parse_error"):
        return "run failed: %s" % {k: r.get(k) for k in ("timeout", "crash", "stderr", "parse_error")}
    if r["info"] not in (0, n + 1):
        return "info = %d" % r["info"]
    if r["perm_r"] != r["perm_c"]:
        return "perm_r differs from perm_c: a pivot was not the original diagonal entry (perm_r %s, perm_c %s)" % (r["perm_r"][:12], r["perm_c"][:12])
    if r.get("hooks") and r["slot_overrun"]:
        return "fill exceeded the symmetric prediction: column %d overran its L slot by %d entries" % (r["slot_overrun_col"], r["slot_overrun_by"])
    try:
        L, U = lu.dense_LU(r, ncomp)
    except (ValueError, IndexError, KeyError) as e:
        return "malformed L/U structure: %s" % e
    A = c01.A_entries(c)
    if prec == "d":
        bad = cert.check_lu(n, A, r["perm_r"], r["perm_c"], L, U, c01.UPOW[prec], thresh_u=0.0)
    else:
        bad = cert.check_lu_frac(n, A, r["perm_r"], r["perm_c"], L, U, c01.UPOW[prec], (4 if ncomp == 2 else 1) * n)
    if bad:
        return bad
    X = [float.fromhex(x) for x in r["X"]]
    w, wi = c07.backward_error(c, X, c["rhs"], 0)
    tol = Fraction(50 * (n + 1), 1 << c01.UPOW[prec])
    if w > tol:
        return "componentwise backward error of X = %.3e > %.3e (row %d)" % (float(w), float(tol), wi)
    return None


def actual_L_counts(r, n):
    """entries of every column of the returned L (diagonal included), from the supernodal structure"""
    L = r["L"]; cs = L["col_to_sup"]; out = []
    for j in range(n):
        fs = L["sup_to_colbeg"][cs[j]]
        out.append(L["rowind_colend"][fs] - L["rowind_colbeg"][fs] - (j - fs))
    return out


def fill_tie(sdrv, c, r):
    """K-exact tie of SymFill: the extracted elimination model on the pattern of Pc A Pc^T must give (a) the column counts
    cholnzcnt predicted (colcnt_h) from the fill of A^T + A and (b), without relaxation, the column counts of the L actually
    returned; (c) the theorem's conclusion actual <= predicted is re-checked on the implementation's own numbers"""
    n = c["n"]; pc = r["perm_c"]
    ents = []
    for j in range(n):
        for p in range(c["colptr"][j], c["colptr"][j + 1]):
            ents.append("%d %d" % (pc[c["rowind"][p]], pc[j]))
    rc, out, err = vf.sh2([sdrv], inp="%d | %s\n" % (n, " ".join(ents)), timeout=120)
    if rc != 0 or not out.startswith("S "):
        return None, "symfill model driver failed: %s" % (err[-200:] or out[:100])
    S = [int(x) for x in out.split("|")[0].split()[1:]]; Lm = [int(x) for x in out.split("|")[1].split()[1:]]
    if S != r["colcnt_h"]:
        k = next(k for k in range(n) if S[k] != r["colcnt_h"][k])
        return "predicted column count of column %d: cholnzcnt %d, the elimination model on A^T+A gives %d" % (k, r["colcnt_h"][k], S[k]), None
    act = actual_L_counts(r, n)
    if c["ienv"][1] == 1:
        # one worker: the symbolic factorization is exact.  Several workers: a pipelined panel cannot see the structure of its busy
        # descendants and takes a superset (explicit zeros), which is legitimate as long as it stays inside the prediction (c)
        if c["nprocs"] == 1 and act != Lm:
            k = next(k for k in range(n) if act[k] != Lm[k])
            return "L column %d has %d entries, elimination of the pattern with diagonal pivots gives %d" % (k, act[k], Lm[k]), None
        if any(a > s_ for a, s_ in zip(act, S)):
            k = next(k for k in range(n) if act[k] > S[k])
            return "L column %d has %d entries, more than the symmetric prediction %d" % (k, act[k], S[k]), None
    return None, None


def hubblock_entries(rng, Q, NB, hub):
    ent = {}
    for b in range(NB):
        for j in range(Q):
            for i in range(Q):
                if i != j and (not hub[b * Q + j] or hub[b * Q + i]):
                    ent[(b * Q + i, b * Q + j)] = rng.uniform(-0.5, 0.5)
    n = Q * NB
    rs = [0.0] * n; cs = [0.0] * n
    for (i, j), v in ent.items():
        rs[i] += abs(v); cs[j] += abs(v)
    for i in range(n):
        ent[(i, i)] = 1.0 + max(rs[i], cs[i])
    return ent


def hubblock_cases(rng, exe, prec, count):
    """structurally UNSYMMETRIC blocks whose A^T + A is a clique: NH 'hub' unknowns per block have a full row while their column
    reaches only the other hubs; the hubs are the unknowns minimum degree on A^T + A numbers first in the block (found by a first
    pass through sp_colorder: the ordering sees only the clique), relax = NH.  Then the first relaxed supernode of a block has few
    rows in A (hub columns are short) although the Cholesky counts of A^T + A are those of a dense block: the storage ?PresetMap
    sets aside for the columns that join it must follow the PREDICTION, not the rows present in A"""
    ncomp = 2 if prec in "cz" else 1
    rnd = c01.f32 if prec in "sc" else (lambda v: v)
    out = []
    for k in range(count):
        Q = rng.randint(7, 12); NB = rng.randint(2, 3); NH = rng.randint(3, 5); n = Q * NB
        A0 = gen.from_entries(n, hubblock_entries(rng, Q, NB, [0] * n), "hubblock")
        pre = drv.run_batch(exe, [dict(id=300000 + k, prec=prec, driver="colorder", stype="NC", m=n, n=n, colptr=A0["colptr"], rowind=A0["rowind"],
                                       vals=[1.0] * (len(A0["vals"]) * ncomp), nrhs=0, rhs=[], nprocs=1, colperm=2, symmetric=1,
                                       ienv=[4, NH, 200, 200, 100, -50, -50, -30], trace=4, dumplu=0, timeout=60)])[0]
        pc = pre.get("perm_c")
        if not pc or sorted(pc) != list(range(n)):
            continue
        hub = [0] * n
        last = max(range(NB), key=lambda b: max(pc[b * Q + t] for t in range(Q)))
        for b in range(NB):
            if b == last:
                continue            # the block numbered last stays an ordinary dense block
            for i in sorted(range(b * Q, (b + 1) * Q), key=lambda i: pc[i])[:NH]:
                hub[i] = 1
        A = gen.from_entries(n, hubblock_entries(rng, Q, NB, hub), "hubblock")
        vals = []
        for v in A["vals"]:
            vals += [rnd(v), rnd(v * rng.uniform(-0.2, 0.2))] if ncomp == 2 else [rnd(v)]
        rhs = [rnd(gen.val(rng)) for _ in range(n * ncomp)]
        out.append(dict(id=200000 + k, prec=prec, driver="gssvx", stype="NC", m=n, n=n, colptr=A["colptr"], rowind=A["rowind"], vals=vals,
                        nrhs=1, rhs=rhs, nprocs=rng.choice([1, 2, 4]), colperm=2, symmetric=1, thresh=0.0, fact=0, trans=0,
                        ienv=[rng.choice([1, 4, 8]), NH, 200, 200, 100, -50, -50, -30], trace=4, perturb=None, dumplu=1, timeout=120, kind="hubblock"))
    return out


def stale_usepr_case(rng, c, r):
    """second factorization of the same matrix with the same column permutation, usepr = YES and a perm_r[] that is stale for two
    columns k < k2 (their rows exchanged): every column before k finds its own diagonal row requested (kept), column k finds a
    requested row that is no candidate (outside the structure of L's column k, fill included) -- the library gives up pivot reuse
    and, at threshold 0, must fall back to the DIAGONAL (c02_usepr_dropped / c16_diagonal_pivot), so perm_r = perm_c again"""
    n = c["n"]; L = r["L"]; pr = r["perm_r"]; cs = L["col_to_sup"]
    inv = [0] * n
    for i, k in enumerate(pr):
        inv[k] = i
    ks = list(range(n - 1)); rng.shuffle(ks)
    for k in ks:
        fs = L["sup_to_colbeg"][cs[k]]
        rows = set(L["rowind"][L["rowind_colbeg"][fs]:L["rowind_colend"][fs]])
        cand = [k2 for k2 in range(k + 1, n) if k2 not in rows]
        if cand:
            k2 = rng.choice(cand)
            permr = list(pr); permr[inv[k]] = k2; permr[inv[k2]] = k
            return dict(c, id=c["id"] + 100000, colperm=-1, permc=list(r["perm_c"]), permr=permr, usepr=1, kind=c["kind"] + "+usepr_stale",
                        nprocs=rng.choice([1, 1, 2, 4]), stale=[k, k2])
    return None


def run(ctx):
    rng = ctx.rng
    ctx.cov["rule"] = ("p?gssvx, SymmetricMode=YES, MMD(A^T+A), threshold 0, diagonally dominant matrices (row dominant with the diagonal below 1 and NOT the column maximum; unsymmetric random pattern, "
                       "symmetric pattern, 2-D grid), s/d/c/z, nprocs 1..8, panel/relax/maxsuper/blocking sweeps (relax<=maxsuper), "
                       "seeded perturbation; non-trivial = n>=3; distinct by matrix+parameters")
    ctx.coq_properties()
    N = {"d": 60, "s": 18, "z": 20, "c": 16} if ctx.quick() else {"d": 800, "s": 200, "z": 200, "c": 200}
    sdrv = ctx.ocaml_model("symfill")
    nok = 0; ntie = 0; ntie1 = 0; nstale = 0; nmap = 0
    adrv = ctx.ocaml_model("alloc")
    for prec in "dszc":
        cases = [make_case(rng, k + 1, prec, ctx.quick()) for k in range(N[prec])]
        exe = drv.build(ctx, prec, "hooks")
        cases += hubblock_cases(rng, exe, prec, (6 if prec == "d" else 2) if ctx.quick() else 30)
        res = drv.run_grouped(exe, cases, par=max(1, vf.NCPU // 2), chunk=1)    # one process per case: an overrun must not taint the next case
        for c, r in zip(cases, res):
            ctx.count((prec, c["kind"], c["n"], tuple(c["rowind"][:40]), tuple(c["vals"][:6]), c["nprocs"]), nontrivial=c["n"] >= 3,
                      kind="%s-%s" % (prec, c["kind"]))
            bad = oracle(c, r)
            if bad is None and r.get("info") == 0 and "colcnt_h" in r and "L" in r:
                bad, brk = fill_tie(sdrv, c, r)
                if brk:
                    ctx.broken.append(brk)
                elif bad is None:
                    ntie += 1; ntie1 += 1 if (c["ienv"][1] == 1 and c["nprocs"] == 1) else 0
            c["_ok"] = bad is None
            if bad is None:
                nok += 1
            else:
                key = {"kind": "symmetric", "prec": prec, "what": bad[:26]}
                # attribution: does ?PresetMap lose track of the relaxed supernodes for this input (finding F29)?
                pre = drv.run_batch(exe, [dict(c, driver="colorder", perturb=None, id=c["id"] + 50000)])[0]
                if "etree" in pre and presetsim.presetmap_out_of_sync(c["n"], pre["etree"], pre["part_super_h"], c["ienv"][1], c["ienv"][2]):
                    key = {"kind": "symmetric", "class": "presetmap_relaxed_out_of_sync"}
                ctx.violation("C16 (%s, %s): %s" % (prec, c["kind"], bad),
                              {"case": c, "result": {k: v for k, v in r.items() if k not in ("L", "U", "events")}}, key=key)
        # the storage image ?PresetMap laid out from the SYMMETRIC prediction = the extracted Gallina model of ?PresetMap (C05's model)
        # on the etree / column counts / partition this run computed
        lines, idx = [], []
        for k, (c, r) in enumerate(zip(cases, res)):
            if c.get("_ok") and r.get("map_in_sup") and "etree" in r and c["ienv"][1] <= c["ienv"][2] and not r.get("dynamic_snode"):
                lines.append(c05.model_line(c, r)); idx.append(k)
        if lines:
            rc, out, err = vf.sh2([adrv], inp="\n".join(lines) + "\n", timeout=600)
            for k, ln in zip(idx, out.strip().split("\n")):
                if not ln.startswith("M "):
                    ctx.broken.append("alloc model driver: " + ln[:100]); continue
                mm = [int(x) for x in ln[2:].split("|")[0].split()]
                if mm != res[k]["map_in_sup"]:
                    ctx.broken.append("correspondence PresetMap (symmetric mode): model %s vs implementation %s (%s, n=%d, relax %d)" % (
                        mm[:14], res[k]["map_in_sup"][:14], prec, cases[k]["n"], cases[k]["ienv"][1]))
                else:
                    nmap += 1
        # pivot reuse with a stale perm_r in symmetric mode (row-dominant matrices: the diagonal is not the column maximum)
        follow = []
        for c, r in zip(cases, res):
            if c.pop("_ok", False) and c["kind"] == "rowdom" and c["n"] >= 3 and r.get("info") == 0 and "L" in r and r.get("perm_r") == r.get("perm_c") and "rowind" in r["L"]:
                c2 = stale_usepr_case(rng, c, r)
                if c2: follow.append(c2)
        res2 = drv.run_grouped(exe, follow, par=max(1, vf.NCPU // 2), chunk=1) if follow else []
        for c, r in zip(follow, res2):
            ctx.count((prec, c["kind"], c["n"], tuple(c["rowind"][:40]), tuple(c["vals"][:6]), c["nprocs"], tuple(c["stale"])), nontrivial=True,
                      kind="%s-%s" % (prec, c["kind"]))
            bad = oracle(c, r)
            if bad is None:
                nstale += 1
            else:
                ctx.violation("C16 (%s, %s: usepr = YES, perm_r stale for columns %s): %s" % (prec, c["kind"], c["stale"], bad),
                              {"case": c, "result": {k: v for k, v in r.items() if k not in ("L", "U", "events")}},
                              key={"kind": "symmetric", "prec": prec, "what": "usepr_stale:" + bad[:26]})
        ctx.sample({k: cases[0][k] for k in ("prec", "kind", "n", "nprocs", "ienv")}, limit=8)
    ctx.cov["correspondence"]["symmetric_runs_ok"] = nok
    ctx.cov["correspondence"]["stale_pivot_reuse_falls_back_to_diagonal"] = nstale
    ctx.cov["correspondence"]["presetmap_images_equal_to_model_in_symmetric_mode"] = nmap
    if nstale == 0:
        ctx.broken.append("generator: no symmetric-mode run with pivot reuse and a stale perm_r was evaluated")
    ctx.cov["correspondence"]["colcnt_h_equal_to_elimination_model_of_AT_plus_A"] = ntie
    ctx.cov["correspondence"]["L_structure_equal_to_elimination_model_one_worker_no_relaxation"] = ntie1
    ctx.log("symmetric-mode runs ok: %d" % nok)
    ctx.cov["partial"] += ["the diagonal stays nonzero for column AND for row diagonally dominant matrices: proved for exact arithmetic (c16_pivots_nonzero, c16_row_dominant_pivots_nonzero), "
                           "in rounded arithmetic it is the generator's hypothesis (strongly dominant matrices)",
                           "cholnzcnt itself is not modelled: its output is compared exactly with the elimination model per run; relaxed supernodes "
                           "(relax > 1) add explicit zeros to L: the exact L-structure comparison runs on the relax = 1 cases, the slot monitor on all"]


def replay(ctx, obj):
    rp = obj.get("replay", obj)
    c = rp["case"]
    exe = drv.build(ctx, c["prec"], "hooks")
    for i in range(10):
        r = drv.run_batch(exe, [c])[0]
        bad = oracle(c, r)
        if bad:
            ctx.violation("C16: " + bad, {"case": c}, key={"kind": "symmetric"})
            return 1
    return 0
