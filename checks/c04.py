"""C04 -- factorization terminates, does each panel exactly once, leaves no threads."""
import os, json, time, re
import vf, schedlock, drv, gen

MANIFEST = {
    "text": "Coq theorems (Properties_C04.v, closed under the global context) over the executable model of "
            "pxgstrf_relax_snode/ParallelInit/pxgstrf_scheduler and of the thread loop, for every forest accepted by the "
            "executable check_init, every thread count and every interleaving: queue bounds (tail <= n), tasks_remain = "
            "#untaken panels, each panel handed out at most once and exactly once in a complete run, no stuck protocol state "
            "(a working thread whose children are DONE can always finish; the scheduler never blocks); FAIR TERMINATION: there is no "
            "infinite weakly fair run (c04_fair_termination: under every schedule in which a thread whose step stays enabled "
            "eventually moves, all threads leave the loop after finitely many steps; an unfair infinite run exists, so the "
            "hypothesis is needed), and a state without enabled step is the complete final state. The model is tied to "
            "the C code on every run by a lock-step walk of the model's state space in which every transition is also "
            "executed by the real scheduler (ASan build) and all scheduler state compared, plus threaded runs of the real "
            "drivers under seeded schedule perturbation (per-column release counters, thread counts, watchdog).",
    "note": "The scheduler pxgstrf_scheduler is RE-TRANSLATED from the current source on every run (coq/SchedGen.v: shared arrays as list cells, while loops with fuel, lock discipline checked) and proved equal to SchedModel.sched for every state that passes the executable index guard, hence for every reachable state (SchedTie.v; c04_source_scheduler_is_model, _reachable, c04_source_queue_bounds, c04_source_pipeline_handout); the INITIAL state is tied the same way (pxgstrf_relax_snode, queue_init, EnqueueRelaxSnode, ParallelInit re-translated: SchedInitGen.v / SchedInitTie.v; c04_source_init_is_model, c04_source_init_then_scheduler_in_model: the translated init followed by any interleaving of translated scheduler calls stays inside the model); the thread loop of p?gstrf_thread.c stays tied by the lock-step exploration and the trace monitor. Error returns: a pthread_create that fails part-way is injected (ld --wrap, exact live-thread count through a trampoline): the library must end through its fatal-error path or return with every started worker terminated. Trusted: Coq kernel, extraction (ExtrOcamlBasic), the lock-step harness; the model treats one scheduler call as "
            "atomic w.r.t. the DONE store of other threads (each state cell is read once, monotone); sequentially "
            "consistent memory and weak fairness of the OS scheduler are assumed; termination of the real threads is "
            "observed (watchdog); the termination theorem is about the protocol model under weak fairness of the threads.",
    "technique": "Coq invariant proof over an executable scheduler/thread-loop model whose scheduler is proved equal to a translation of the C source regenerated on every run + lock-step model-vs-C state-space walk",
}


def lockstep(ctx, pid_tag, forests_jobs):
    lib, fl = ctx.build_lib("asan")
    exe = ctx.cc_harness("sched", ["sched_harness.c", "sp_ienv_verif.c"], lib, fl)
    drvx = ctx.ocaml_model("sched")
    ok, stats, mm = schedlock.run_jobs_par(ctx, drvx, exe, forests_jobs)
    return exe, ok, stats, mm


def sched_jobs(ctx):
    rng = ctx.rng
    jobs, meta = [], []
    nmax = 6 if ctx.quick() else 7
    for n in range(1, nmax + 1):
        for f in schedlock.all_forests(n):
            for w in (1, 2, 3):
                for r in (1, 2, 3):
                    for P in ((2, 3) if n <= 5 or not ctx.quick() else (2,)):
                        jobs.append("EXPLORE %d %d %d %d 300000 %s" % (n, w, r, P, " ".join(map(str, f))))
                        meta.append(("exhaustive", n, w, r, P, f))
    # sampled exhaustive exploration of larger forests, random walks on big ones
    big = schedlock.all_forests(7) if ctx.quick() else schedlock.all_forests(8)
    for f in rng.sample(big, 60 if ctx.quick() else 400):
        w, r, P = rng.choice((1, 2, 3)), rng.choice((1, 2, 3)), rng.choice((2, 3))
        jobs.append("EXPLORE %d %d %d %d 300000 %s" % (len(f), w, r, P, " ".join(map(str, f))))
        meta.append(("sampled", len(f), w, r, P, f))
    for k in range(150 if ctx.quick() else 1500):
        n = rng.randint(9, 80)
        shape = rng.choice(["chain", "star", "wide", "random", "binary", "comb"])
        f = schedlock.random_forest(rng, n, shape)
        w, r, P = rng.choice((1, 2, 3, 4, 8, 20)), rng.choice((1, 2, 3, 6, 20)), rng.choice((2, 3, 4, 8))
        jobs.append("WALK %d %d %d %d %d %d %s" % (n, w, r, P, rng.randint(1, 10 ** 6), 40 * n, " ".join(map(str, f))))
        meta.append(("walk-" + shape, n, w, r, P, f))
    return jobs, meta


def search_impl(ctx, exe, meta, limit_s=120):
    """property oracles on the implementation alone: small forests exhaustively, then the sampled ones"""
    t0 = time.time()
    seen = set()
    for kind, n, w, r, P, f in meta:
        if n > 8 or (tuple(f), w, r, P) in seen:
            continue
        seen.add((tuple(f), w, r, P))
        v = schedlock.impl_explore(exe, f, w, r, P, max_states=6000)
        if v:
            return v
        if time.time() - t0 > limit_s:
            break
    return None


def ienv_ok(rng):
    """tuning parameters in the documented regime relax <= maxsuper (relax > maxsuper is finding F13)"""
    ms = rng.choice([2, 8, 200])
    return [rng.choice([1, 2, 4, 8]), min(rng.choice([1, 2, 4, 6]), ms), ms, 200, 100, -50, -50, -30]


def threaded_cases(ctx):
    rng = ctx.rng
    cases = []
    cid = 0
    kinds = ["chain", "arrow", "banded", "grid", "blockdiag", "random", "randomzd", "singular", "star"]
    N = 60 if ctx.quick() else 600
    for k in range(N):
        kind = kinds[k % len(kinds)]
        n = rng.randint(2, 40 if ctx.quick() else 150)
        A = gen.matrix(rng, kind, n)
        for nprocs in rng.sample([1, 2, 3, 4, 8, n + 5, 33], 2):
            cid += 1
            c = dict(id=cid, driver="gssv", m=A["n"], n=A["n"], colptr=A["colptr"], rowind=A["rowind"], vals=A["vals"],
                     nrhs=1, rhs=[1.0] * A["n"], nprocs=nprocs, colperm=rng.choice([0, 1, 2, 3]),
                     ienv=ienv_ok(rng),
                     perturb=[rng.randint(1, 10 ** 6), rng.choice([0.0, 0.2, 0.6]), rng.choice([0, 50, 300])],
                     dumplu=0, timeout=60, kind=kind, trace=4)
            cases.append(c)
    return cases


def run(ctx):
    ctx.cov["rule"] = ("lock-step: every postordered forest with n<=6 (thorough 7) x w 1..3 x relax 1..3 x P 2..3 explored "
                       "exhaustively (every transition executed on model and on the real scheduler), sampled forests n=7/8, "
                       "random walks on forests n<=80 of six shapes; threaded: real pdgssv on structured matrices with "
                       "nprocs up to n+5 under seeded perturbation. A case is non-trivial when it has >=2 panels; distinct by "
                       "(forest,w,relax,P) or matrix hash.")
    ctx.coq_properties()
    # ---- lock-step
    jobs, meta = sched_jobs(ctx)
    exe, ok, stats, mm = lockstep(ctx, "C04", jobs)
    for kind, n, w, r, P, f in meta:
        ctx.count(("ls", tuple(f), w, r, P), nontrivial=(n >= 2), kind=kind.split("-")[0] + "-forest")
    ctx.sample({"lockstep_job": jobs[len(jobs) // 2]})
    ctx.cov["states"] = stats.get("states", 0)
    ctx.cov["transitions"] = stats.get("transitions", 0)
    ctx.cov["traces_validated_against_impl"] = stats.get("transitions", 0)
    ctx.cov["correspondence"]["lockstep"] = stats
    ctx.log("lock-step:", stats, "ok" if ok else "MISMATCH")
    model_bad = [k for k in ("guard_fail", "dead", "err", "init_bad") if stats.get(k, 0)]
    if not ok or model_bad:
        if not ok:
            ctx.broken.append("correspondence sched lock-step: %s" % json.dumps(mm)[:600])
        if model_bad:
            ctx.broken.append("model-level property failure in explored states: %s" % model_bad)
        v = search_impl(ctx, exe, meta)
        if v:
            ctx.violation("C04 oracle on the real scheduler: " + v["what"], v,
                          key={"kind": "sched_protocol", "what": v["what"][:60]})
    # ---- threaded runs of the real driver
    exe_d = drv.build(ctx, "d", "hooks")
    cases = threaded_cases(ctx)
    # one process per tuning-parameter tuple (p?gstrf_bmod2D caches sp_ienv values in statics) and few cases per process
    res = drv.run_grouped(exe_d, cases, par=max(1, vf.NCPU // 4), chunk=8)
    # the forest each run worked on (p?gssv does not hand it out): the preprocessing alone, same ordering option
    pre = drv.run_grouped(exe_d, [dict(c, driver="colorder", perturb=None, nprocs=1, id=c["id"] + 100000) for c in cases], par=max(1, vf.NCPU // 4), chunk=25)
    for r, p_ in zip(res, pre):
        if isinstance(r, dict) and p_.get("etree") is not None and r.get("perm_c") == p_.get("perm_c"):
            r["etree"] = p_["etree"]
    nthr = 0; ntask = 0; tasks_broken = []
    bdrv = ctx.ocaml_model("busy")
    for c, r in zip(cases, res):
        ctx.count(("thr", c["kind"], c["n"], tuple(c["rowind"][:50]), c["nprocs"], c["perturb"][0]), nontrivial=c["n"] >= 3,
                  kind="threaded-" + c["kind"])
        bad = None
        if r.get("timeout"):
            bad = "watchdog: factorization did not return within %ds" % c["timeout"]
        elif r.get("crash") is not None:
            if c["kind"] == "singular" and "pivotL" in r.get("stderr", ""):
                bad = None
            bad = "driver crashed rc=%s %s" % (r.get("crash"), r.get("stderr", "")[-300:])
        elif r.get("missing"):
            bad = "no result"
        else:
            nthr += 1
            if r["hooks"] and r["release_not_once"] != 0:
                bad = "column %d released %s times (must be exactly once)" % (r["release_bad_col"], "0 or >1")
            elif r["threads_before"] != 1 or r["threads_after"] != 1:
                bad = "threads before/after = %d/%d (single thread of control expected)" % (r["threads_before"], r["threads_after"])
            elif r["hooks"] and (r["thread_begin"] != c["nprocs"] or r["thread_end"] != c["nprocs"]):
                bad = "worker threads begun/ended = %d/%d, nprocs = %d" % (r["thread_begin"], r["thread_end"], c["nprocs"])
            elif r["hooks"] and r["max_qtail"] > c["n"]:
                bad = "task queue tail %d exceeds n = %d" % (r["max_qtail"], c["n"])
            elif r["hooks"] and r.get("etree") is not None and r.get("info", 0) >= 0:
                # K-exact tie of tasks_remain_exact: observed inside the scheduler lock after the i-th hand-out the counter must
                # be (number of panels of ParallelInit's image, from the model) - i, down to 0
                rc, out, err = vf.sh2([bdrv], inp="%d %d %d | %s | \n" % (c["n"], c["ienv"][0], c["ienv"][1], " ".join(map(str, r["etree"]))), timeout=60)
                if rc != 0 or " T " not in out:
                    ctx.broken.append("busy/sched model driver failed: %s" % (err[-200:] or out[:100]))
                else:
                    t0 = int(out.split(" T ")[1].split()[0]); ntask += 1
                    want = list(range(t0 - 1, -1, -1)); got = r.get("sched_tasks", [])
                    if got != want:
                        i = next((i for i in range(min(len(got), len(want))) if got[i] != want[i]), min(len(got), len(want)))
                        msg = ("tasks_remain inside the scheduler lock after hand-out %d is %s, the model (panels not yet handed out) "
                               "says %s; %d hand-outs for %d panels" % (i, got[i] if i < len(got) else None, want[i] if i < len(want) else None, len(got), t0))
                        if len(got) != t0:
                            bad = msg            # a panel handed out twice or never: the property itself fails on this run
                        elif not tasks_broken:
                            tasks_broken.append((msg, c))
        if bad:
            key = {"kind": "threaded", "what": bad[:40]}
            if r.get("crash") is not None and c["kind"] == "singular":
                key = {"kind": "input_class", "class": "structural_singularity_crash"}      # finding F22 (C06) seen from here
            ctx.violation("C04 threaded run: " + bad, {"case": c, "result": {k: v for k, v in r.items() if k != "events"}}, key=key)
    if tasks_broken:
        # the counter the worker loops poll is not what the model says: the correspondence is broken.  Search for a run on which
        # the property itself fails (a lost update keeps tasks_remain > 0 for ever, or lets the dummy root be handed out):
        # thousands of ready leaves, many workers leaving the scheduler at the same moment
        msg, c0 = tasks_broken[0]
        ctx.broken.append("correspondence tasks_remain (tasks_remain_exact): " + msg)
        found = None
        for rep in range(12):
            n = 6000
            ent = {(j, j): 4.0 for j in range(n)}
            for j in range(n):
                ent[(j, n - 1)] = 1.0
            A = gen.from_entries(n, ent, "arrowcol")
            sc = dict(id=90000 + rep, driver="gssv", m=n, n=n, colptr=A["colptr"], rowind=A["rowind"], vals=A["vals"], nrhs=1, rhs=[1.0] * n,
                      nprocs=16, colperm=0, ienv=[1, 1, 200, 200, 100, -50, -50, -30], perturb=None, dumplu=0, timeout=20, kind="arrowcol")
            r = drv.run_batch(exe_d, [sc], timeout=60)[0]
            if r.get("timeout") or r.get("crash") is not None or r.get("info") != 0:
                found = (sc, r); break
        if found:
            sc, r = found
            what = "did not return within %d s" % sc["timeout"] if r.get("timeout") else ("crashed: %s" % (r.get("stderr") or "")[-200:] if r.get("crash") is not None else "returned info = %s for a nonsingular matrix" % r.get("info"))
            ctx.violation("C04: p?gssv on a %d x %d arrow matrix with 16 workers %s (%s)" % (sc["n"], sc["n"], what, msg),
                          {"case": sc, "generator": "arrowcol n=6000: diagonal 4, last column 1"}, key={"kind": "tasks_counter"})
        else:
            ctx.violation("C04: " + msg, {"case": c0}, key={"kind": "tasks_counter"}, found_input=False)
    # ---- error returns: a thread creation that fails part-way (resource exhaustion, injected through ld --wrap=pthread_create)
    # Either the library ends the process through its fatal-error path with a diagnostic, or the routine returns; if it returns,
    # every worker it started must have terminated (exact count kept by the trampoline, no polling).
    ncf = 0
    fcases = []
    for rep in range(10 if ctx.quick() else 60):
        A = gen.matrix(ctx.rng, ctx.rng.choice(["grid", "banded", "blockdiag", "random"]), ctx.rng.randint(30, 120))
        P = ctx.rng.choice([2, 3, 4, 8])
        fcases.append(dict(id=70000 + rep, driver=ctx.rng.choice(["gssv", "gssvx"]), m=A["n"], n=A["n"], colptr=A["colptr"], rowind=A["rowind"],
                           vals=A["vals"], nrhs=1, rhs=[1.0] * A["n"], nprocs=P, colperm=ctx.rng.choice([0, 1, 2, 3]), ienv=ienv_ok(ctx.rng),
                           perturb=[ctx.rng.randint(1, 10 ** 6), 0.6, 300], dumplu=0, timeout=60, kind="createfail", trace=0,
                           createfail=ctx.rng.randint(1, P), stype="NC", thresh=1.0))
    fres = drv.run_grouped(exe_d, fcases, par=max(1, vf.NCPU // 4), chunk=1)
    for c, r in zip(fcases, fres):
        ctx.count(("createfail", c["n"], tuple(c["rowind"][:30]), c["nprocs"], c["createfail"]), nontrivial=True, kind="createfail")
        bad = None
        if r.get("timeout"):
            bad = "did not return within %d s" % c["timeout"]
        elif r.get("crash") is not None:
            # the library's fatal-error path prints "<what> at line <n> in file <f>" and exits: anything else is a crash
            if not re.search(r"pthread_create\(\) at line \d+ in file", r.get("stderr") or "") or (isinstance(r.get("crash"), int) and r["crash"] < 0):
                bad = "process died without the library's diagnostic: %s" % (r.get("stderr") or "")[-200:]
        elif r.get("live_at_return", 0) != 0:
            bad = "returned (info = %s) while %d of the worker threads it had started were still running" % (r.get("info"), r["live_at_return"])
        elif r.get("create_failed") and r.get("info") == 0:
            bad = "creation of worker %d failed and the routine reports success (info = 0)" % c["createfail"]
        if bad:
            ctx.violation("C04: p?%s with %d workers, creation of worker %d fails (EAGAIN): %s" % (c["driver"], c["nprocs"], c["createfail"], bad),
                          {"case": c, "result": {k: v for k, v in r.items() if k not in ("L", "U", "events")}}, key={"kind": "thread_creation_fault", "what": bad[:40]})
        else:
            ncf += 1
    ctx.cov["correspondence"]["thread_creation_faults_handled"] = ncf
    ctx.cov["correspondence"]["threaded_runs"] = nthr
    ctx.cov["correspondence"]["runs_with_tasks_remain_equal_to_model_at_every_handout"] = ntask
    ctx.sample({"threaded_case": {k: cases[0][k] for k in ("kind", "n", "nprocs", "colperm", "ienv", "perturb")}})
    ctx.cov["partial"] += ["termination is proved for the protocol model under weak fairness of the threads (c04_fair_termination; without "
                           "fairness an infinite run exists: c04_unfair_run_exists); that the platform schedules every runnable thread "
                           "eventually is the OS's, observed by the watchdog",
                           "pthread creation/join and the OS scheduler are observed (thread counts, watchdog), not modelled"]
    ctx.assumptions += ["one scheduler call is atomic w.r.t. other threads' STATE=DONE stores (each cell read once; monotone)",
                        "sequentially consistent memory; weak fairness of the OS scheduler"]


def replay(ctx, obj):
    rp = obj.get("replay", obj)
    if "forest" in rp:
        lib, fl = ctx.build_lib("asan")
        exe = ctx.cc_harness("sched", ["sched_harness.c", "sp_ienv_verif.c"], lib, fl)
        v = schedlock.impl_explore(exe, rp["forest"], rp["w"], rp["relax"], rp["nthreads"], max_states=50000)
        if v:
            ctx.violation("C04 oracle on the real scheduler: " + v["what"], v, key={"kind": "sched_protocol", "what": v["what"][:60]})
            return 1
        return 0
    if "case" in rp:
        exe_d = drv.build(ctx, "d", "hooks")
        for i in range(20):
            r = drv.run_batch(exe_d, [rp["case"]])[0]
            if r.get("timeout") or r.get("crash") is not None or r.get("release_not_once") or r.get("threads_after", 1) != 1:
                ctx.violation("C04 threaded run still fails", {"case": rp["case"], "result": r}, key={"kind": "threaded"})
                return 1
        return 0
    return 0
