"""C18 - calls are independent of what was factored before (no hidden state carry-over)."""
import os, sys, json, glob, time, itertools
from multiprocessing import Pool

sys.path.insert(0, os.path.join(os.path.dirname(os.path.dirname(os.path.abspath(__file__))), "tools"))
import vf
import persist_lib as pl
from checks import c08

MANIFEST = {
    "text": "The result of a first-time factorization or solve depends only on its own arguments: it is the same (bit-identical with one "
            "thread and the built-in kernels, within the rounding bounds otherwise) whatever calls preceded it in the process.",
    "note": "Coq: for the model of the file-static/function-static state (PersistModel.v) the outcome of a first factorization and the "
            "objects it leaves with the caller are equal from ANY two states (first_factor_state_independent, also at process level over "
            "four precisions), likewise solves through ?gstrs and ?lacon started with kase=0; the faithful model REFUTES independence for "
            "memusage.expansions of p?gssvx(FACTORED) and for the sp_ienv values cached in p?gstrf_bmod2D.  Correspondence on every run: "
            "probe calls after prefix histories (all singles and pairs quick / triples thorough over 16 kinds of preceding calls in the same "
            "and in other precisions, both memory modes, failed/singular/invalid calls) versus the same probe in a fresh process, compared "
            "bit for bit at one thread, by exact-rational oracles otherwise; K-exact comparison of the persistent record with the model.  A user work[] is handed over full of small integers, different for every call, so a read-before-write of it shows as a dependence on history.",
    "technique": "machine-checked proof (Coq 8.16.1) + executed correspondence (extracted OCaml model vs C library, differential fresh-process runs)",
}

MACROS = ["first_sys_same", "first_user_same", "first_sys_other", "first_user_other", "refact_same", "refact_usepr_same", "solve_same",
          "solve_gstrs_same", "destroy_same", "query_new_same", "query_refact_same", "qspace_same", "singular_same", "memfail_same",
          "badarg_same", "gssv_same"]
PROBES = ["first_x", "first_f", "first_v", "first_x_user", "first_solve_x", "first_solve_f", "first_refact_solve", "first_x_mt",
          "query_x", "query_f", "first_x_tiny"]


def other_prec(rng, p):
    return rng.choice([q for q in "sdcz" if q != p])


def mk_factor(rng, kind, slot, pat, prec, ienv, api, lwork=0, usepr=0, nprocs=1, style=None, base=None, tiny=False):
    n = pat["n"]
    style = style or rng.choice(["mixed", "diagdom"])
    vals = pl.gen_vals(rng, pat, prec, "perturb", base=base, noise=1e-3) if base is not None else pl.gen_vals(rng, pat, prec, style)
    nrhs = rng.choice([1, 2])
    o = dict(op=kind, slot=slot, api=api, nprocs=nprocs, u=rng.choice([1.0, 0.1]), fact=0, lwork=lwork, relax=ienv[1], panel=ienv[0],
             trans=rng.choice([0, 1]) if api != 2 else 0, nrhs=nrhs if api != 2 else 1, usepr=usepr, vals=vals, rhs=None, style=style)
    o["rhs"] = pl.gen_rhs(rng, prec, n, o["nrhs"])
    if tiny:
        # right-hand sides (hence solutions) whose row scales |A||x|+|b| straddle the underflow guard SAFE2 = (n+1)*safmin/eps of
        # ?gsrfs: the guard depends on THIS call's dimension, so BERR/FERR/X of this call expose any value of it kept from an
        # earlier call on a matrix of another size
        nc = pl.NCOMP[prec]
        safe2 = (n + 1) * (2.0 ** -126 / 2.0 ** -24 if prec in "sc" else 2.0 ** -1022 / 2.0 ** -53)
        sc = [safe2 * 2.0 ** rng.uniform(-2.0, 4.0) for _ in range(n)]
        o["rhs"] = [pl.rnd_to(prec, v * sc[(k // nc) % n]) for k, v in enumerate(o["rhs"])]
    if kind == "first": o["permc"] = rng.choice([0, 1, 2, 3])
    return o


def gen_macro(rng, name, slot, pprec, ienv, slots, nrange=(2, 14)):
    """ops of one prefix macro on its own slot (own pattern, other size)"""
    prec = other_prec(rng, pprec) if name.endswith("_other") else pprec
    n = rng.randint(*nrange)
    pat = pl.gen_pattern(rng, n); annz = len(pat["rowind"])
    slots.append({"sid": slot, "prec": prec, "pat": pat})
    # panel_size and relax are arguments of every call (p?gstrf_init / the options structure), not process-wide settings: the calls
    # of the history use their own values, in general different from the probe's
    ienv = list(ienv); ienv[0] = rng.choice([1, 2, 4, 8, 16]); ienv[1] = rng.choice([1, 2, 4, 6])
    lw = pl.lwork_enough(n, annz, prec, ienv, 4, ienv[0])
    ops = []
    base = name.rsplit("_", 1)[0]
    if base in ("first_sys", "first_user"):
        ops.append(mk_factor(rng, "first", slot, pat, prec, ienv, rng.choice([0, 1]), lwork=lw if base == "first_user" else 0, nprocs=rng.choice([1, 3])))
    elif base in ("refact", "refact_usepr"):
        f = mk_factor(rng, "first", slot, pat, prec, ienv, rng.choice([0, 1]), lwork=rng.choice([0, lw]))
        ops.append(f)
        ops.append(mk_factor(rng, "refact", slot, pat, prec, ienv, rng.choice([0, 1]), lwork=f["lwork"], usepr=1 if base == "refact_usepr" else 0,
                             nprocs=rng.choice([1, 2]), base=f["vals"] if base == "refact_usepr" else None))
    elif base in ("solve", "solve_gstrs", "destroy", "qspace"):
        f = mk_factor(rng, "first", slot, pat, prec, ienv, rng.choice([0, 1]), lwork=rng.choice([0, lw]))
        ops.append(f)
        if base == "solve": ops.append(dict(op="solve", slot=slot, api=0, nprocs=1, trans=rng.choice([0, 1]), nrhs=1, rhs=pl.gen_rhs(rng, prec, n, 1)))
        if base == "solve_gstrs": ops.append(dict(op="solve", slot=slot, api=1, nprocs=1, trans=rng.choice([0, 1]), nrhs=1, rhs=pl.gen_rhs(rng, prec, n, 1)))
        if base == "destroy": ops.append(dict(op="destroy", slot=slot))
        if base == "qspace": ops.append(dict(op="qspace", slot=slot, nprocs=1, panel=ienv[0]))
    elif base == "query_new":
        ops.append(dict(op="query", slot=slot, api=rng.choice([0, 1]), refact=0, nprocs=rng.choice([1, 2]), relax=ienv[1], panel=ienv[0], restore=False))
    elif base == "query_refact":
        ops.append(mk_factor(rng, "first", slot, pat, prec, ienv, rng.choice([0, 1])))
        ops.append(dict(op="query", slot=slot, api=rng.choice([0, 1]), refact=1, nprocs=rng.choice([1, 2]), relax=ienv[1], panel=ienv[0], restore=False))
    elif base == "singular":
        ops.append(mk_factor(rng, "first", slot, pat, prec, ienv, rng.choice([0, 1]), style="singular"))
    elif base == "memfail":
        o = mk_factor(rng, "first", slot, pat, prec, ienv, 1, lwork=8 * (n + 3))
        o["expect_memfail"] = True
        ops.append(o)
    elif base == "badarg":
        o = mk_factor(rng, "first", slot, pat, prec, ienv, 0, nprocs=0)
        o["expect_neg"] = -1
        ops.append(o)
    elif base == "gssv":
        ops.append(mk_factor(rng, "first", slot, pat, prec, ienv, 2))
    else:
        raise ValueError(name)
    return ops


def gen_probe(rng, name, prec, ienv, slots):
    n = rng.randint(3, 12) if name != "first_x_tiny" else rng.randint(3, 6)
    pat = pl.gen_pattern(rng, n); annz = len(pat["rowind"])
    slots.insert(0, {"sid": 0, "prec": prec, "pat": pat})
    lw = pl.lwork_enough(n, annz, prec, ienv, 4, ienv[0])
    if name in ("query_x", "query_f"):
        # a workspace query (lwork = -1) for a matrix never seen before: its answer depends on that matrix and the options only
        return [dict(op="query", slot=0, api=0 if name == "query_x" else 1, refact=0, nprocs=rng.choice([1, 2, 4]), relax=ienv[1], panel=ienv[0], restore=False)]
    if name == "first_x": return [mk_factor(rng, "first", 0, pat, prec, ienv, 0)]
    if name == "first_x_tiny": return [mk_factor(rng, "first", 0, pat, prec, ienv, 0, style="diagdom", tiny=True)]
    if name == "first_f": return [mk_factor(rng, "first", 0, pat, prec, ienv, 1)]
    if name == "first_v": return [mk_factor(rng, "first", 0, pat, prec, ienv, 2)]
    if name == "first_x_user": return [mk_factor(rng, "first", 0, pat, prec, ienv, rng.choice([0, 1]), lwork=lw)]
    if name == "first_x_mt": return [mk_factor(rng, "first", 0, pat, prec, ienv, rng.choice([0, 1]), nprocs=rng.choice([2, 3, 4]))]
    f = mk_factor(rng, "first", 0, pat, prec, ienv, 0 if name != "first_solve_f" else 1, lwork=rng.choice([0, lw]))
    sv = dict(op="solve", slot=0, api=0 if name != "first_solve_f" else 1, nprocs=1, trans=rng.choice([0, 1]), nrhs=rng.choice([1, 2]), rhs=None)
    sv["rhs"] = pl.gen_rhs(rng, prec, n, sv["nrhs"])
    if name in ("first_solve_x", "first_solve_f"): return [f, sv]
    rf = mk_factor(rng, "refact", 0, pat, prec, ienv, rng.choice([0, 1]), lwork=f["lwork"], usepr=rng.choice([0, 1]), base=f["vals"])
    return [f, rf, sv]


def gen_case(rng, macros, probe, prec=None):
    prec = prec or rng.choice("sdcz")
    ienv = list(pl.IENV_DEFAULT); ienv[0] = rng.choice([2, 4, 8]); ienv[1] = rng.choice([1, 4, 6])
    slots = []
    pre = []
    for k, m in enumerate(macros):
        pre += gen_macro(rng, m, k + 1, prec, ienv, slots, nrange=(9, 16) if probe == "first_x_tiny" else (2, 14))
    pops = gen_probe(rng, probe, prec, ienv, slots)
    # the solve probe is also exercised with foreign calls BETWEEN the factorization and the solve (same L, U arguments)
    infix = []
    if probe in ("first_solve_x", "first_solve_f") and macros and rng.random() < 0.5:
        infix = gen_macro(rng, rng.choice(MACROS), len(macros) + 1, prec, ienv, slots)
    hist_ops = pre + pops[:1] + infix + pops[1:]
    probe_idx = [len(pre)] + [len(pre) + 1 + len(infix) + k for k in range(len(pops) - 1)]
    hist = {"ienv": ienv, "slots": slots, "ops": hist_ops}
    fresh = {"ienv": ienv, "slots": [slots[0]], "ops": pops}
    return {"hist": hist, "fresh": fresh, "probe_idx": probe_idx,
            "meta": {"prec": prec, "macros": list(macros), "probe": probe, "infix": bool(infix), "n": slots[0]["pat"]["n"], "kind": slots[0]["pat"]["kind"]}}


EXACT_FIELDS = ["info", "info2", "usepr_after", "equed", "permr", "permc", "X", "Bout", "rpg", "rcond", "ferr", "berr", "for_lu", "total_needed",
                "Aout", "Rs", "Cs", "nnzL", "nsuper", "nnzU", "LT", "UT", "colsup", "etree", "colcnt", "psuper", "cntL", "cntU", "cntbad"]


def same(a, b):
    if isinstance(a, float) and isinstance(b, float):
        return a == b or (a != a and b != b)
    if isinstance(a, list) and isinstance(b, list):
        return len(a) == len(b) and all(same(x, y) for x, y in zip(a, b))
    return a == b


def eval_pair(arg):
    exe, drv, cj, wd, tag = arg
    hist = pl.case_from_json(cj["hist"]); fresh = pl.case_from_json(cj["fresh"]); pidx = cj["probe_idx"]
    t0 = time.time()
    rc1, res1, err1 = pl.run_case(exe, hist, wd, tag + "h")
    rc2, res2, err2 = pl.run_case(exe, fresh, wd, tag + "f")
    fails = []
    st = {}
    # the property's own oracles on both runs (catches wrong results that happen to be equal in both)
    f1, s1 = pl.evaluate_case(hist, rc1, res1, err1)
    f2, s2 = pl.evaluate_case(fresh, rc2, res2, err2)
    for k, v in list(s1.items()) + list(s2.items()): st[k] = st.get(k, 0) + v
    for f in f1:
        if f.key.get("kind") == "query_side_effect": continue        # reported by C08
        fails.append({"op": f.op, "what": "history run: " + f.what, "key": f.key})
    for f in f2:
        if f.key.get("kind") == "query_side_effect": continue
        fails.append({"op": f.op, "what": "fresh run: " + f.what, "key": f.key})
    f1set = set(i for i, r in enumerate(res1) if r.get("f1") == 1 and hist["ops"][i].get("nprocs", 1) > 1) | \
        set(i for i, r in enumerate(res2) if r.get("f1") == 1 and fresh["ops"][i].get("nprocs", 1) > 1)
    # differential comparison of the probe ops
    multi = any(o.get("nprocs", 1) > 1 for o in fresh["ops"] if o["op"] in ("first", "refact"))
    ncmp = 0
    for k, hi in enumerate(pidx):
        if hi >= len(res1) or k >= len(res2) or not res1[hi].get("complete") or not res2[k].get("complete"):
            if not f1 and not f2:
                fails.append({"op": hi, "what": "probe op %d did not complete in %s run (rc %s/%s): %s" %
                              (k, "history" if hi >= len(res1) or not res1[hi].get("complete") else "fresh", rc1, rc2, (err1 or err2)[:300]),
                              "key": {"kind": "probe_incomplete"}})
            break
        a, b = res1[hi], res2[k]
        if not multi:
            for fld in EXACT_FIELDS:
                if fld in a or fld in b:
                    ncmp += 1
                    if not same(a.get(fld), b.get(fld)):
                        fails.append({"op": hi, "what": "probe op %d (%s, %s): output '%s' after the history %s differs from the fresh process: %s vs %s" %
                                      (k, fresh["ops"][k]["op"], cj["meta"]["probe"], fld, cj["meta"]["macros"], str(a.get(fld))[:120], str(b.get(fld))[:120]),
                                      "key": {"kind": "history_dependence", "field": fld, "probe_op": fresh["ops"][k]["op"]}})
                        break
            for hk in ("H", "HA"):
                if hk in a and hk in b:
                    # the raw bytes of L's value array are not comparable across processes: ?PresetMap reserves an upper bound
                    # per supernode and the unused tail of each slot is uninitialised memory (the entries are compared through LT)
                    bad = [h for h in pl.HASH_KEYS if h != "L" and a[hk].get(h) != b[hk].get(h)]
                    ncmp += 1
                    if bad:
                        fails.append({"op": hi, "what": "probe op %d: storage checksums %s differ from the fresh process" % (k, bad),
                                      "key": {"kind": "history_dependence", "field": "checksum:" + ",".join(bad), "probe_op": fresh["ops"][k]["op"]}})
        if "expansions" in a and "expansions" in b and a["expansions"] != b["expansions"]:
            fails.append({"op": hi, "what": "probe op %d (%s through p?gssvx): memusage.expansions = %d after the history %s, %d in a fresh process" %
                          (k, fresh["ops"][k]["op"], a["expansions"], cj["meta"]["macros"], b["expansions"]),
                          "key": {"kind": "expansions_history_dependent", "probe_op": fresh["ops"][k]["op"]}})
    st["probe_fields_compared"] = ncmp
    wsset = set(i for i, r in enumerate(res1) if r.get("wso") == 1 and hist["ops"][i].get("nprocs", 1) > 1) | \
        set(i for i, r in enumerate(res2) if r.get("wso") == 1 and fresh["ops"][i].get("nprocs", 1) > 1)
    if f1set or wsset:
        for f in fails:
            if f["key"].get("kind") in ("history_dependence", "probe_incomplete"):
                f["key"] = {"kind": "fixupL_order"} if f1set else {"kind": "user_workspace_thread_overlap"}
    # K-exact on the persistent record along the history
    mm = []
    if drv:
        for case, res in ((hist, res1), (fresh, res2)):
            script, lf = pl.model_script(case, res)
            mrc, mout, merr = vf.sh2([drv], inp=script, timeout=60)
            if mrc != 0: mm.append((-1, "model driver failed: " + merr[:200]))
            else:
                mm += pl.compare_with_model(case, res, mout, lf)
                st["state_records_compared"] = st.get("state_records_compared", 0) + sum(1 for x in lf if x is not None)
    return {"tag": tag, "fails": fails, "stats": st, "mm": mm, "nops": len(res1) + len(res2), "wall": time.time() - t0}


def run(ctx):
    quick = ctx.quick()
    ctx.cov["rule"] = ("probe = {first factorization through p?gssvx / p?gstrf_init+p?gstrf+?gstrs / p?gssv, system or user workspace, 1 thread; "
                       "the same followed by a solve with the existing factors (also with foreign calls in between); first+refactor+solve; "
                       "a multi-threaded first factorization (oracle level)} on a random matrix (4 precisions, n 3..12); prefix history = every "
                       "single and every ordered pair%s of 16 kinds of preceding calls {first factor system/user workspace in the same and in another "
                       "precision, refactor with/without pivot reuse, solve through p?gssvx and ?gstrs, destroy, lwork=-1 query (new / refactor), "
                       "superlu_?QuerySpace, singular matrix, user workspace too small, invalid argument, simple driver}, each on its own matrix of "
                       "another size.  The probe is run after the history and in a fresh process; every output field is compared bit for bit."
                       % ("" if quick else " and triple"))
    ctx.cov["partial"] += [
        "memusage.expansions of p?gssvx/superlu_?QuerySpace is history dependent in the unchanged code (solve_expansions_refuted); reported as a finding",
        "p?gstrf_bmod2D caches sp_ienv(3),(4) on first use (first_factor_ienv_cache_refuted): independence holds only while sp_ienv is constant, "
        "which is the case for the library's own sp_ienv; the correspondence keeps them constant within a process",
        "numerical kernels are free terms over the read-set; ?lacon is modelled with abstract vector/real operations (theorem for every interpretation)",
        "dlamch/slamch and mmd.c keep function statics that are written before being read on every path (f2c locals, 'first' caches of machine "
        "constants); not modelled, covered only by the differential runs",
    ]
    ctx.assumptions += ["sp_ienv(3), sp_ienv(4) constant during the life of the process", "lwork >= -1 (p?gssvx rejects smaller values)"]
    ctx.cov["trusted_base"] += ["harness/persist_harness.c, tools/persist_lib.py (see C08)", "fresh-process reference = the same harness binary started anew"]
    proofs_ok = ctx.coq_properties()
    exe = c08.build(ctx, "hooks")
    drv = ctx.ocaml_model("persist")
    wd = ctx.bdir
    jobs = []
    for f in sorted(glob.glob(os.path.join(vf.VERIF, "corpus", "C18", "*.json"))):
        j = json.load(open(f))
        jobs.append((exe, drv, j["case"], wd, "corpus_" + os.path.basename(f)[:-5]))
    combos = [(m,) for m in MACROS] + list(itertools.product(MACROS, repeat=2))
    if not quick:
        combos += list(itertools.product(MACROS, repeat=3))
    else:
        combos += [tuple(ctx.rng.choice(MACROS) for _ in range(3)) for _ in range(300)]
    k = 0
    for combo in combos:
        probes = ctx.rng.sample(PROBES, 2) if len(combo) > 1 else PROBES
        if not quick and len(combo) == 2: probes = PROBES + PROBES
        if not quick and len(combo) == 3: probes = ctx.rng.sample(PROBES, 4)
        for pb in probes:
            c = gen_case(ctx.rng, combo, pb)
            cj = {"hist": pl.case_to_json(c["hist"]), "fresh": pl.case_to_json(c["fresh"]), "probe_idx": c["probe_idx"], "meta": c["meta"]}
            jobs.append((exe, drv, cj, wd, "p%d" % k)); k += 1
    # size-dependent guards of the refinement (SAFE1/SAFE2 of ?gsrfs): a probe near the underflow guard after a history that refined
    # a larger system in the same precision, every precision
    for prec in "sdcz":
        for m in ("first_sys_same", "first_user_same", "solve_same", "refact_same", "singular_same"):
            for _ in range(2 if quick else 8):
                c = gen_case(ctx.rng, (m,), "first_x_tiny", prec=prec)
                for o in c["hist"]["ops"][:-1]:
                    if o.get("api") == 1: o["api"] = 0          # the history goes through the expert driver (it refines)
                cj = {"hist": pl.case_to_json(c["hist"]), "fresh": pl.case_to_json(c["fresh"]), "probe_idx": c["probe_idx"], "meta": c["meta"]}
                jobs.append((exe, drv, cj, wd, "p%d" % k)); k += 1
    t0 = time.time()
    with Pool(min(vf.NCPU, 16)) as pool:
        results = pool.map(eval_pair, jobs, chunksize=4)
    ctx.log("ran %d (history, fresh) pairs in %.1fs" % (len(jobs), time.time() - t0))
    by_key, tot, mm_all = {}, {}, []
    for job, r in zip(jobs, results):
        meta = job[2]["meta"]
        for i in range(r["nops"]):          # every executed op (history run and fresh run) is one evaluation
            ctx.count((r["tag"], i), nontrivial=True, kind=None)
        pk = "probe:%s/%s" % (meta["probe"], meta["prec"])
        ctx.cov["histogram"][pk] = ctx.cov["histogram"].get(pk, 0) + 1
        hk = "prefix_len:%d" % len(meta["macros"])
        ctx.cov["histogram"][hk] = ctx.cov["histogram"].get(hk, 0) + 1
        for m in meta["macros"]:
            ctx.cov["histogram"]["prefix:" + m] = ctx.cov["histogram"].get("prefix:" + m, 0) + 1
        for kk, v in r["stats"].items(): tot[kk] = tot.get(kk, 0) + v
        if len(ctx.cov["samples"]) < 3 and not r["fails"] and len(meta["macros"]) == 2:
            ctx.sample({"meta": meta, "history_ops": [o["op"] for o in job[2]["hist"]["ops"]], "probe_idx": job[2]["probe_idx"]})
        for f in r["fails"]:
            by_key.setdefault(json.dumps(f["key"], sort_keys=True), []).append((job, r, f))
        for op, t in r["mm"]: mm_all.append((job, r, op, t))
    for kk, v in tot.items(): ctx.corr(kk, v)
    ctx.cov["traces_validated_against_impl"] = tot.get("state_records_compared", 0)
    for ks, lst in by_key.items():
        key = json.loads(ks)
        job, r, f = min(lst, key=lambda x: (len(x[0][2]["meta"]["macros"]), len(x[0][2]["hist"]["ops"])))
        rep = {"case": job[2], "key": key, "what": f["what"], "occurrences": len(lst)}
        ctx.violation("%s  [%d occurrence(s)]" % (f["what"][:700], len(lst)), rep, key=key, found_input=True)
    if mm_all:
        failing = set(r["tag"] for lst in by_key.values() for (_, r, _) in lst)
        silent = [x for x in mm_all if x[1]["tag"] not in failing]
        for job, r, op, t in mm_all[:5]: ctx.log("   model mismatch %s op %d: %s" % (r["tag"], op, t))
        job, r, op, t = (silent or mm_all)[0]
        p = ctx.replay_path("corr")
        json.dump({"property": "C18", "kind": "correspondence", "case": job[2], "op": op, "text": t}, open(p, "w"), indent=1)
        ctx.broken.append("correspondence persist K-exact (PersistModel.pstep vs the library over multi-session histories): %s [%s op %d; %d more; %s]"
                          % (t, r["tag"], op, len(mm_all) - 1, p))
    # vf.Ctx.finish() prints the "no-failing-input-found" line only when no violation with an input exists; the findings of the
    # unchanged tree must not hide a broken proof or a broken correspondence
    if ctx.broken and any(v["found"] for v in ctx.violations):
        ctx.violation("proof obligation or correspondence no longer checks: %s" % "; ".join(ctx.broken)[:1500],
                      {"kind": "obligation", "broken": list(ctx.broken)}, key={"kind": "obligation"}, found_input=False)
    return 0


def replay(ctx, obj):
    rep = obj.get("replay", obj)
    if rep.get("kind") == "obligation":
        if not ctx.coq_properties():
            ctx.violation("proof obligation no longer checks: %s" % "; ".join(ctx.broken)[:800], rep, found_input=False)
            return 1
        return 0
    exe = c08.build(ctx, "hooks")
    drv = ctx.ocaml_model("persist")
    key = rep.get("key", {})
    tries = 400 if key.get("kind") in ("fixupL_order", "user_workspace_thread_overlap") else 1
    for t in range(tries):
        r = eval_pair((exe, drv, rep["case"], ctx.bdir, "replay"))
        hit = [f for f in r["fails"] if f["key"] == key] or ([] if key else r["fails"])
        if hit:
            return 1 if ctx.violation(hit[0]["what"][:700], rep, key=key, found_input=True) else 0
    return 0
