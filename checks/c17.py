"""C17 - no resource leaks: a call gives back everything except what it returns.

1. theorems of coq/Properties_C17.v (LedgerModel.v / LedgerProofs.v): the executable ledger check is sound and
   complete, balanced calls compose (any length), repetition does not grow memory.
2. K-trace correspondence: the real malloc/free history of every call (library compiled with its USER_MALLOC /
   USER_FREE override points routed to harness/verif_malloc.c, pthread_create/join wrapped, descriptor and task
   counts from /proc), the set of blocks reachable from what the call hands back (the pointers the documented
   destroy routines free), the documented destroy; the extracted check_balanced_from decides per call and after
   the destroy.  Sequences repeated 50x: live bytes must not grow.
"""
import os, sys, re, json, glob, time
from concurrent.futures import ThreadPoolExecutor
import vf
sys.path.insert(0, os.path.join(vf.VERIF, "tools"))
import ustack_sites
from checks import c14 as u        # shared helpers of the Ustack/Ledger areas (same author): matrices, case text, flags

MANIFEST = {
    "text": "Coq theorems about a ledger model of a call's allocation/thread/handle history: check_balanced decides "
            "balancedness, balanced calls followed by the caller's destroy compose to the initial live set for any "
            "number of calls, repetition does not grow memory; tied to /repo by running the extracted checker on the "
            "real malloc/free/pthread history of every documented call sequence on every run.",
    "note": "partial: that a real call produces a balanced ledger is observed per call (K-trace), not proved from a model "
            "of the drivers; descriptors are counted, not traced; blocks inside a user workspace are the caller's.",
    "technique": "Coq theorems about a hand-written Gallina ledger model + extracted checker run on recorded real histories",
    "design_ref": "DESIGN.md section 5 / C17",
}

PCH = "sdcz"
BALANCED_SEQ = "gssv,gssvx,gssvxf,gstrf,gstrfr,errn,errx,sing,gssvxu"
EXTRA_SEQ = "trsv0"
STEP_DOC = {
    "gssv": "p?gssv", "gssvx": "p?gssvx (system space)", "gssvxf": "p?gssvx then fact=FACTORED with the same L,U",
    "gssvx:factored": "p?gssvx fact=FACTORED", "gssvxq": "p?gssvx lwork=-1 (workspace query)",
    "gssvxu": "p?gssvx with an ample user workspace", "gssvxs": "p?gssvx with a user workspace of 300 bytes (MemInit fails, info>n)",
    "gstrf": "StatAlloc, p?gstrf_init, p?gstrf, ?gstrs, pxgstrf_finalize, StatFree", "gstrfr": "the same followed by a refactorization (refact=YES)",
    "get_perm_c": "get_perm_c", "trsv0": "sp_?trsv on an empty (0 x 0) system",
    "errn": "p?gssv with nprocs=0 (info=-1)", "errx": "p?gssvx with lwork=-5 (info=-2)", "sing": "p?gssv on a numerically singular matrix (0<info<=n)",
}


class Tools:
    def __init__(self, ctx):
        self.ctx = ctx
        self.cache = {}
        self.drv = None

    def exe(self, prec):
        if prec not in self.cache:
            lib, fl = self.ctx.build_lib("fault", extra=u.FAULT_EXTRA)
            flh = u.strip_redirect(fl) + ["-DVPREC=%d" % prec, "-DVERIF_FAULT"]
            self.cache[prec] = self.ctx.cc_harness(
                "ledger_%d" % prec, ["ledger_harness.c", "sp_ienv_verif.c", "verif_malloc.c", "ledger_trace.c"], lib, flh,
                extra_link=["-no-pie", "-Wl,--wrap=verif_malloc", "-Wl,--wrap=pthread_create", "-Wl,--wrap=pthread_join"])
        return self.cache[prec]

    def model(self):
        if self.drv is None:
            self.drv = self.ctx.ocaml_model("ledger")
        return self.drv


def case_text(cid, P, mat, n, seq, repeat=1, fail=0, fact=1, permc=1, nr=0, env=None):
    t = u.drv_case(cid, "x", P, 0, mat, n, fail=fail, fact=fact, permc=permc, nr=nr, env=env)
    # several right-hand sides (1..3, derived from the case id: per-column work of the refinement and of the solves is then
    # allocated / released more than once per call)
    nrhs = 1 + (sum(map(ord, str(cid))) % 3)
    return t.replace("END\n", "NRHS %d\nSEQ %s\nREPEAT %d\nEND\n" % (nrhs, seq, repeat))


def run_trace(tools, prec, text, alarm=90):
    """-> (harness output text, {case: {"calls": [...], "destroys": [...], "live": [(it, bytes, blocks)], "sites": {id: frames}, "tasks": [...], "end": str}})"""
    rc, o, e = vf.sh2([tools.exe(prec)], inp=text, timeout=900, env=dict(u.RUN_ENV, VERIF_ALARM=str(alarm)))
    rc2, m, e2 = vf.sh2([tools.model()], inp=o, timeout=600)
    res = {}
    cur = None
    for l in o.split("\n"):
        t = l.split()
        if not t:
            continue
        if t[0] == "LIVE":
            res.setdefault(t[1], new_case())["live"].append((int(t[2]), int(t[3]), int(t[4])))
        elif t[0] == "TRACE":
            cur = t[1]; res.setdefault(cur, new_case())
        elif t[0] == "SITE" and cur:
            m2 = re.search(r"frames=([0-9a-fx,]*)", l)
            res[cur]["sites"][int(t[1])] = (m2.group(1) if m2 else "", re.search(r"size=(\d+)", l).group(1) if "size=" in l else "?")
        elif t[0] == "TASKS" and cur:
            res[cur]["tasks"].append((int(t[1]), int(t[2])))
        elif t[0] == "B" and cur:
            res[cur]["steps"].append(t[1])
        elif t[0] == "END":
            res.setdefault(t[1], new_case())["end"] = t[2]
    for l in m.split("\n"):
        t = l.split()
        if len(t) < 3:
            continue
        if t[0] in ("CALL", "DESTROY"):
            d = dict(x.split("=", 1) for x in t[3:] if "=" in x)
            d["step"] = t[2]
            res.setdefault(t[1], new_case())["calls" if t[0] == "CALL" else "destroys"].append(d)
        elif t[0] == "INCONSISTENT":
            res.setdefault(t[1], new_case())["inconsistent"] = True
    return o, res


def new_case():
    return {"calls": [], "destroys": [], "live": [], "sites": {}, "tasks": [], "steps": [], "end": None, "inconsistent": False}


SKIP_FRAMES = re.compile(r"^(main|run_case|run_step|do_gssvx|setup|p[sdcz]gssvx?|p[sdcz]gstrf|__libc.*|_start|\?\?)$")


def owner_of(exe, frames):
    """outermost library function (below the driver entry) in which the block was allocated, precision letter
    normalised: StatAlloc | sp_colorder | p?gstrf_thread_init | p?gstrf_init | ..."""
    res = ustack_sites.addr2line(exe, [f for f in frames if re.fullmatch(r"0x[0-9a-f]+", f)])
    own = "unknown"
    for fn, path, line in res:              # innermost first: keep the last one that is not skipped
        if SKIP_FRAMES.match(fn) or fn in ustack_sites.WRAPPERS:
            continue
        if "/harness/" in (path or ""):
            continue
        own = fn
    own = re.sub(r"^p[sdcz]g", "p?g", own)
    own = re.sub(r"^sp_[sdcz](trsv|gemv)", r"sp_?\1", own)
    own = re.sub(r"^[sdcz](PresetMap|Create_|gs[a-z]+|laqgs|langs|PivotGrowth)", r"?\1", own)
    return own


def idlist(s):
    return [int(x) for x in s.split(",") if x.strip()]


def judge(ctx, tools, prec, cid, r, text, P, stats, expect_growth_ok=False):
    """evaluate one case: every call balanced (modulo blocks orphaned by an EARLIER call), destroy restores, no thread/fd
    outlives, no growth over the repetitions"""
    exe = tools.exe(prec)
    replay = {"part": "ledger", "prec": prec, "P": P, "case": text}
    if r["end"] != "status=exit:0":
        # a crash here is C14's business when an allocation failed; for non-failing runs it is ours
        return "died"
    orphans = set()
    ok = True
    for c in r["calls"]:
        stats["calls"] += 1
        step = c["step"]
        if c.get("consistent") != "true":
            ok = False
            ctx.violation("p%s %s: the allocation ledger itself is inconsistent (double free / free of a block that is not live)" % (PCH[prec], STEP_DOC.get(step, step)),
                          replay, key={"kind": "ledger_inconsistent", "step": step, "prec": PCH[prec]})
            continue
        leaked = idlist(c.get("leaked", ""))
        dangling = [i for i in idlist(c.get("dangling", "")) if i not in orphans]
        if leaked:
            ok = False
            stats["leaky_calls"] += 1
            by_owner = {}
            for i in leaked:
                fr, sz = r["sites"].get(i, ("", "?"))
                own = owner_of(exe, fr.split(",")) if fr else "unknown"
                site = ustack_sites.site_of(exe, fr.split(",")) if fr else "unknown"
                by_owner.setdefault(own, []).append((i, sz, site))
            for own, blocks in sorted(by_owner.items()):
                key = {"kind": "leak", "step": step if cid != "fault" else "fault:" + step, "owner": own, "prec": PCH[prec]}
                if cid != "fault":
                    key["blocks"] = len(blocks)         # deterministic paths: one more lost block is a different finding
                sites = sorted(set(b[2] for b in blocks))
                ctx.violation("p%s %s (info=%s, nprocs=%d): %d block(s) (%s bytes) allocated under %s are still live after the call and not reachable from "
                              "what it returns; sites: %s" % (PCH[prec], STEP_DOC.get(step, step), c.get("info"), P, len(blocks),
                                                              sum(int(b[1]) for b in blocks if b[1].isdigit()), own, ", ".join(sites)[:400]),
                              dict(replay, step=step, owner=own, sites=sites), key=key)
            orphans.update(leaked)
        if dangling:
            ok = False
            ctx.violation("p%s %s: the call freed %d block(s) that were live before it / returns dangling pointers" % (PCH[prec], STEP_DOC.get(step, step), len(dangling)),
                          dict(replay, step=step), key={"kind": "dangling", "step": step, "prec": PCH[prec]})
        if int(c.get("threads", "0")) != 0:
            ok = False
            ctx.violation("p%s %s: %s thread(s) created and not joined" % (PCH[prec], STEP_DOC.get(step, step), c.get("threads")),
                          dict(replay, step=step), key={"kind": "thread_leak", "step": step, "prec": PCH[prec]})
        if int(c.get("handles", "0")) != 0:
            ok = False
            ctx.violation("p%s %s: %s descriptor(s) opened and not closed" % (PCH[prec], STEP_DOC.get(step, step), c.get("handles")),
                          dict(replay, step=step), key={"kind": "fd_leak", "step": step, "prec": PCH[prec]})
    for d in r["destroys"]:
        stats["destroys"] += 1
        rem = [i for i in idlist(d.get("remaining", "")) if i not in orphans]
        mis = [i for i in idlist(d.get("missing", "")) if i not in orphans]
        if d.get("consistent") != "true" or rem or mis:
            ok = False
            ctx.violation("p%s %s: the documented destroy routines do not return the heap to its state before the call (%d blocks remain, %d missing)"
                          % (PCH[prec], STEP_DOC.get(d["step"], d["step"]), len(rem), len(mis)),
                          dict(replay, step=d["step"]), key={"kind": "destroy_incomplete", "step": d["step"], "prec": PCH[prec]})
    for a, b in r["tasks"]:
        if a != b:
            ok = False
            ctx.violation("p%s: /proc/self/task count %d -> %d across a call" % (PCH[prec], a, b), replay, key={"kind": "thread_leak", "step": "proc", "prec": PCH[prec]})
    # growth over the repetitions (first iteration may create persistent library state)
    lv = sorted(r["live"])
    if len(lv) >= 3:
        stats["repeat_cases"] += 1
        grow = lv[-1][1] - lv[1][1]
        if grow > 0 and ok and not expect_growth_ok:
            ctx.violation("p%s: live bytes grow by %d over %d repetitions of a sequence whose calls are all balanced" % (PCH[prec], grow, len(lv) - 2),
                          replay, key={"kind": "growth", "prec": PCH[prec]})
        r["growth_per_iteration"] = grow / float(len(lv) - 2)
    return "ok" if ok else "bad"


def run(ctx):
    ctx.cov["rule"] = ("per precision and thread count: random diagonally dominant sparse matrices (n 5..40); the documented call sequences "
                       "(p?gssv; p?gssvx DOFACT/EQUILIBRATE, FACTORED, lwork=-1, ample and too small user workspace; StatAlloc/p?gstrf_init/p?gstrf/"
                       "?gstrs/pxgstrf_finalize/StatFree with and without refactorization; illegal argument; singular matrix; NR input), each repeated 50x; "
                       "allocation-failure returns (request k and later fail, runs that return info>n).  Non-trivial = distinct (sequence, matrix, threads, precision).")
    ctx.cov["partial"] += [
        "that the real calls produce balanced ledgers is observed on every run (K-trace), not proved from a model of the drivers",
        "blocks inside a caller-supplied workspace are the caller's; only L->Store / U->Store are library allocations there",
        "descriptors are counted (/proc/self/fd) around each call, not traced; the library opens no file in these sequences",
        "fault flavour compiled with -Dmalloc=ledger_plain_malloc -Dfree=ledger_plain_free (the library mixes plain and SUPERLU_ calls: C14 finding)",
    ]
    ctx.cov["trusted_base"] += [
        "harness/ledger_harness.c, ledger_trace.c, verif_malloc.c (ledger), extract/ledger_driver.ml, tools/ustack_sites.py (addr2line)",
        "reachable set = the pointers freed by Destroy_SuperNode_SCP / Destroy_CompCol_NCP / Destroy_SuperMatrix_Store as read from SRC/util.c",
    ]
    u.make_threadsafe(ctx)
    stats = {"calls": 0, "destroys": 0, "leaky_calls": 0, "repeat_cases": 0, "cases": 0, "fault_returns": 0, "died": 0}
    ctx.coq_properties()
    tools = Tools(ctx)
    quick = ctx.quick()
    rng = ctx.rng
    for prec in range(4):
        tools.exe(prec)
    tools.model()
    jobs = []
    # corpus first
    for f in sorted(glob.glob(os.path.join(vf.VERIF, "corpus", "C17", "*.json"))):
        try:
            o = json.load(open(f))
            kind = o["case"].split("\n")[0].split()[1]
            jobs.append((o["prec"], o.get("P", 1), kind, o["case"], 0, ([], [os.path.basename(f)], [])))
        except (ValueError, KeyError, IndexError):
            pass
    for prec in range(4):
        Ps = [1, 2, 3, 4]
        for P in Ps:
            for rep in range(1 if quick else 10):
                n = rng.choice([5, 8, 12, 20] if quick else [5, 9, 14, 22, 30, 40])
                mat = u.gen_matrix(rng, n, rng.choice([0.15, 0.25]))
                fact = rng.randint(0, 1); permc = rng.randint(0, 3)
                jobs.append((prec, P, "bal", case_text("bal", P, mat, n, BALANCED_SEQ, repeat=50, fact=fact, permc=permc), n, mat))
                jobs.append((prec, P, "query", case_text("query", P, mat, n, "gssvxq", repeat=50, fact=fact, permc=permc), n, mat))
                jobs.append((prec, P, "small", case_text("small", P, mat, n, "gssvxs", repeat=50, fact=fact, permc=permc), n, mat))
                if P == 1:
                    dmat = u.gen_matrix(rng, n, 0.0)        # diagonal: empty adjacency structure in get_perm_c
                    jobs.append((prec, P, "diag", case_text("diag", P, dmat, n, "gssv,trsv0", repeat=50, fact=fact, permc=rng.randint(1, 2)), n, dmat))
                if not quick or P in (1, 4):
                    jobs.append((prec, P, "nr", case_text("nr", P, mat, n, "gssv,gssvx,gssvxf,gssvxu", repeat=50, fact=fact, permc=permc, nr=1), n, mat))
                    jobs.append((prec, P, "mixed", case_text("mixed", P, mat, n, "gssvxq,gssv,gssvxs,gssvx", repeat=20, fact=fact, permc=permc), n, mat))

    def one(job):
        prec, P, kind, text, n, mat = job
        o, res = run_trace(tools, prec, text)
        r = next(iter(res.values())) if res else None
        if r is not None and r["end"] == "status=signal:14":      # machine load? once more with a long alarm
            o, res = run_trace(tools, prec, text, alarm=400)
            r = next(iter(res.values())) if res else None
        if r is None:
            ctx.broken.append("ledger harness produced nothing (prec %s, %s)" % (PCH[prec], kind))
            return
        verdict = judge(ctx, tools, prec, kind, r, text, P, stats, expect_growth_ok=(kind in ("query", "small", "mixed", "diag")))
        stats["cases"] += 1
        if verdict == "died":
            stats["died"] += 1
            ctx.violation("p%s: the process died (%s) during the sequence %s without any injected failure" % (PCH[prec], r["end"], kind),
                          {"part": "ledger", "prec": prec, "P": P, "case": text}, key={"kind": "died", "seq": kind, "prec": PCH[prec]})
        ctx.count({"ledger": [kind, P, n, mat[1]], "prec": prec}, kind="seq:%s:%s" % (kind, verdict))
        if kind == "bal" and verdict == "ok" and len(ctx.cov["samples"]) < 2:
            ctx.sample({"sequence": BALANCED_SEQ, "prec": PCH[prec], "nprocs": P, "n": n,
                        "calls": [{k: c[k] for k in ("step", "info", "balanced", "nret", "nevents")} for c in r["calls"][:6]],
                        "live_bytes_per_iteration": [x[1] for x in sorted(r["live"])][:5]})
        if kind in ("query", "small") and len(ctx.cov["samples"]) < 4:
            ctx.sample({"sequence": kind, "prec": PCH[prec], "nprocs": P, "leaked_blocks_first_call": r["calls"][0].get("leaked") if r["calls"] else None,
                        "live_bytes_per_iteration": [x[1] for x in sorted(r["live"])][:5]})
    with ThreadPoolExecutor(8) as ex:
        list(ex.map(one, jobs))

    # ---- allocation-failure returns (C14's error returns): runs that come back with info > n must be balanced too
    def fault_job(prec):
        frng = __import__("random").Random(ctx.seed * 13 + prec)
        n = frng.choice([6, 9])
        mat = u.gen_matrix(frng, n, 0.25)
        for step in (("gssv", "gssvx") if quick else ("gssv", "gssvx", "gstrf", "gssvxu")):
            P = 1 if quick else frng.randint(1, 3)
            dry_o, dry = run_trace(tools, prec, case_text("dry", P, mat, n, step))
            d = dry.get("dry")
            if not d or not d["calls"]:
                continue
            K = int(d["calls"][-1].get("nevents", "0"))
            K = min(K, 140)
            text = "".join(case_text("k%d" % k, P, mat, n, step, fail=k) for k in range(1, K + 1))
            o, res = run_trace(tools, prec, text, alarm=20)
            for k in range(1, K + 1):
                r = res.get("k%d" % k)
                if not r or r["end"] != "status=exit:0" or not r["calls"]:
                    continue            # exit / crash / hang: classified by C14
                info = int(r["calls"][-1].get("info", "0"))
                if info <= n + 1:
                    continue
                stats["fault_returns"] += 1
                v = judge(ctx, tools, prec, "fault", r, case_text("k%d" % k, P, mat, n, step, fail=k), P, stats)
                ctx.count({"fault": [step, P, k, n, mat[1]], "prec": prec}, kind="fault-return:%s:%s" % (step, v))
    with ThreadPoolExecutor(4) as ex:
        list(ex.map(fault_job, range(4)))

    ctx.corr("calls_checked_by_extracted_check_balanced", stats["calls"])
    ctx.corr("destroys_checked", stats["destroys"])
    ctx.corr("calls_with_leaks", stats["leaky_calls"])
    ctx.corr("repeated_sequences", stats["repeat_cases"])
    ctx.corr("allocation_failure_returns_checked", stats["fault_returns"])
    ctx.cov["traces_validated_against_impl"] = stats["calls"]
    ctx.cov["violation_keys"] = sorted(v["sig"] for v in ctx.violations)
    ctx.log("ledger: %d cases, %d calls, %d destroys, %d leaky calls, %d failure returns" % (
        stats["cases"], stats["calls"], stats["destroys"], stats["leaky_calls"], stats["fault_returns"]))


def replay(ctx, obj):
    rp = obj.get("replay", obj)
    u.make_threadsafe(ctx)
    tools = Tools(ctx)
    stats = {"calls": 0, "destroys": 0, "leaky_calls": 0, "repeat_cases": 0, "cases": 0, "fault_returns": 0, "died": 0}
    if rp.get("part") != "ledger":
        return 0
    o, res = run_trace(tools, rp["prec"], rp["case"])
    r = next(iter(res.values())) if res else None
    if r is None:
        return 0
    v = judge(ctx, tools, rp["prec"], "replay", r, rp["case"], rp.get("P", 1), stats)
    if v == "died":
        ctx.violation("replay: process died %s" % r["end"], rp, key=obj.get("key") or {"kind": "died"})
    return 1 if (ctx.violations or ctx.known_hit) else 0
