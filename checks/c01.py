"""C01 -- the simple driver solves A*X = B for every nonsingular input, nprocs and schedule."""
import json, struct
import vf, drv, gen, lu, cert

MANIFEST = {
    "text": "Coq theorems (Properties_C01.v): for factors related to Pr*A*Pc by the relational LU specification (any summation "
            "order, C02) and triangular solves related to them by the relational substitution specification (any order), the "
            "computed X satisfies |B - A X| <= gamma(3n) (Pr^T |L||U| Pc^T)|X| componentwise (Reals, any unit roundoff u, "
            "3n u < 1); the permutation wiring of the driver (NR storage = transposed NC problem) is part of the statement. "
            "Schedule independence comes from C03/C04 (the theorem's hypothesis does not mention the schedule). Tie: the "
            "conclusion is decided EXACTLY (integer / rational arithmetic on the IEEE values) on the X, L, U, perm_r, perm_c "
            "returned by the real p?gssv for s/d/c/z, NC and NR storage, orderings 0..3, nrhs in {0,1,3}, nprocs up to n+3 and "
            "oversubscribed, under seeded schedule perturbation incl. the NewNsuper/Glu_alloc window; info = 0 and bit-identity "
            "of A are checked on every run.",
    "note": "FLX rounding model (no overflow/underflow). Complex precisions: certificate with the relaxed constant 4*gamma(3n) and "
            "rational bounds of the moduli. Kernels covered by the any-order quantification + exact certificate. Trusted: Coq "
            "kernel, Reals axioms as printed, hooks, python exact certificate. Input families include the 2-D kernel segment lengths and fill that reaches a column through an earlier column of its own panel (panelfill).",
    "technique": "Coq proof (backward stability of LU + substitution in any summation order) + exact certificate on real driver output",
}

UPOW = {"d": 53, "s": 24, "z": 53, "c": 24}


def f32(x):
    return struct.unpack("f", struct.pack("f", x))[0]


def make_case(rng, cid, prec, kind, n, quick):
    A = gen.matrix(rng, kind, n)
    n = A["n"]
    ncomp = 2 if prec in "cz" else 1
    rnd = f32 if prec in "sc" else (lambda v: v)
    vals = []
    for v in A["vals"]:
        if ncomp == 2:
            vals += [rnd(v), rnd(gen.val(rng) * 0.5)]
        else:
            vals.append(rnd(v))
    nrhs = rng.choice([1, 1, 1, 3, 0])
    rhs = [rnd(gen.val(rng)) for _ in range(n * nrhs * ncomp)]
    stype = rng.choice(["NC", "NC", "NR"])
    return dict(id=cid, prec=prec, driver="gssv", stype=stype, m=n, n=n, colptr=A["colptr"], rowind=A["rowind"], vals=vals,
                nrhs=nrhs, rhs=rhs, ldb=n + rng.choice([0, 0, 1, 5]), nprocs=rng.choice([1, 2, 3, 4, 8, n + 3, 33]), colperm=rng.choice([0, 1, 2, 3]),
                ienv=[rng.choice([1, 2, 4, 8, 20]), rng.choice([1, 2, 4, 6]), rng.choice([8, 20, 200]), rng.choice([4, 200]),
                      rng.choice([2, 100]), -50, -50, -30],
                perturb=[rng.randint(1, 10 ** 6), rng.choice([0.0, 0.1, 0.4]), rng.choice([0, 50, 300])],
                dumplu=1, timeout=120, kind=kind)


def kernel2d_case(rng, cid, prec):
    """the 2-D update kernel (p?gstrf_bmod2D) with every unrolled segment length: a leading supernode of w dense columns (all rows),
    then columns whose U-segment into it has length 1, 2, 3, 4, ... in turn, and a dense trailing block; natural order, diagonally
    dominant (diagonal pivots), blocking parameters small enough (colblk 2, rowblk 2..4) for the 2-D path to be taken"""
    ncomp = 2 if prec in "cz" else 1
    rnd = f32 if prec in "sc" else (lambda v: v)
    w = rng.randint(4, 7); tcols = rng.randint(6, 10); n = w + tcols
    ent = {}
    for j in range(w):
        for i in range(n):
            ent[(i, j)] = gen.val(rng)
    for k, j in enumerate(range(w, n)):
        seg = 1 + (k % min(w, 5))
        for i in range(w - seg, w):
            ent[(i, j)] = gen.val(rng)
        for i in range(j, n):
            ent[(i, j)] = gen.val(rng)
        for i in range(w, j):
            if rng.random() < 0.5:
                ent[(i, j)] = gen.val(rng)
    for j in range(n):
        ent[(j, j)] = (sum(abs(v) for (i, jj), v in ent.items() if jj == j) + 1.0) * rng.choice([1, -1])
    A = gen.from_entries(n, ent, "kernel2d")
    vals = []
    for v in A["vals"]:
        vals += [rnd(v), rnd(gen.val(rng) * 0.3)] if ncomp == 2 else [rnd(v)]
    rhs = [rnd(gen.val(rng)) for _ in range(n * ncomp)]
    return dict(id=cid, prec=prec, driver="gssv", stype="NC", m=n, n=n, colptr=A["colptr"], rowind=A["rowind"], vals=vals,
                nrhs=1, rhs=rhs, ldb=n, nprocs=rng.choice([1, 2]), colperm=0,
                ienv=[rng.choice([1, 2, 4]), 1, rng.choice([8, 20]), rng.choice([2, 3, 4]), 2, -50, -50, -30],
                perturb=None, dumplu=1, timeout=120, kind="kernel2d")


def panelfill_case(rng, cid, prec):
    """the supernode test of p?gstrf_column_dfs on fill that reaches a column THROUGH an earlier column of its own panel: columns
    f < j-1 < j on one etree chain inside one panel, U(f,j) != 0, U(j-1,j) structurally zero, struct(L(:,f)) holds a row that
    struct(L(:,j-1)) lacks, yet |struct(L(:,j))| = |struct(L(:,j-1))| - 1 (the count test alone cannot tell the columns apart);
    natural order, strongly dominant diagonal (diagonal pivots), relax 1"""
    ncomp = 2 if prec in "cz" else 1
    rnd = f32 if prec in "sc" else (lambda v: v)
    # (column 0 is the leaf of the chain, a relaxed supernode and a panel of its own; the regular panel starts at column f = 1 and,
    #  n being small, has half the nominal width: panel sizes 6, 8, 20 give 3, 4, 10 columns)
    extra = rng.randint(0, 3); tail = rng.randint(4, 8); n = 4 + tail + extra
    cols = {0: {0, 1}, 1: {1, 5, 6}, 2: {2, 3, 4, 5, 7}, 3: {1, 3, 4}}
    for k in range(extra):                 # rows shared by columns j-1 and j keep both conditions
        cols[2].add(4 + tail + k); cols[3].add(4 + tail + k)
    for j in range(4, n):
        cols[j] = {j} | ({j + 1} if j + 1 < n else set())
        if j + 2 < n and rng.random() < 0.4: cols[j].add(rng.randint(j + 2, n - 1))
    ent = {}
    for j, rows in cols.items():
        for i in rows:
            ent[(i, j)] = gen.val(rng)
    for j in range(n):
        ent[(j, j)] = (40.0 * sum(abs(v) for (i, jj), v in ent.items() if jj == j and i != j) + 50.0) * rng.choice([1, -1])
    A = gen.from_entries(n, ent, "panelfill")
    vals = []
    for v in A["vals"]:
        vals += [rnd(v), rnd(gen.val(rng) * 0.3)] if ncomp == 2 else [rnd(v)]
    nrhs = rng.choice([1, 2])
    rhs = [rnd(gen.val(rng)) for _ in range(n * nrhs * ncomp)]
    return dict(id=cid, prec=prec, driver="gssv", stype="NC", m=n, n=n, colptr=A["colptr"], rowind=A["rowind"], vals=vals,
                nrhs=nrhs, rhs=rhs, ldb=n, nprocs=rng.choice([1, 1, 2]), colperm=0,
                ienv=[rng.choice([6, 8, 20]), 1, rng.choice([8, 20]), rng.choice([4, 200]), rng.choice([2, 100]), -50, -50, -30],
                perturb=None, dumplu=1, timeout=120, kind="panelfill")


def cplx(flat):
    return [complex(flat[2 * i], flat[2 * i + 1]) for i in range(len(flat) // 2)]


def A_entries(c):
    """dict (i,j) -> value of the user's matrix A (row i, column j), whatever the storage"""
    ncomp = 2 if c["prec"] in "cz" else 1
    vals = cplx(c["vals"]) if ncomp == 2 else c["vals"]
    A = {}
    for j in range(c["n"]):
        for p in range(c["colptr"][j], c["colptr"][j + 1]):
            i = c["rowind"][p]
            if c["stype"] == "NR":
                A[(j, i)] = vals[p]
            else:
                A[(i, j)] = vals[p]
    return A


def oracle(c, r):
    prec = c["prec"]; n = c["n"]; ncomp = 2 if prec in "cz" else 1
    if r.get("timeout") or r.get("crash") is not None or r.get("missing") or r.get("parse_error"):
        return "run failed: %s" % {k: r.get(k) for k in ("timeout", "crash", "stderr", "parse_error")}
    if r["info"] != 0:
        if gen.exactly_singular(n, A_entries(c)):
            return None        # exactly singular input: the domain of C06
        return "info = %d for a nonsingular matrix" % r["info"]
    if not r["A_unchanged"]:
        return "A was modified by the driver"
    if r.get("pad_modified"):
        return "%d storage entries of B outside the n x nrhs matrix (ldb %d) were modified" % (r["pad_modified"], r.get("ldb"))
    if r["threads_after"] != 1:
        return "threads left after return: %d" % r["threads_after"]
    if sorted(r["perm_r"]) != list(range(n)) or sorted(r["perm_c"]) != list(range(n)):
        return "perm_r / perm_c is not a permutation"
    try:
        L, U = lu.dense_LU(r, ncomp)
    except (ValueError, IndexError, KeyError) as e:
        return "malformed L/U structure: %s" % e
    A = A_entries(c)
    X = [float.fromhex(x) for x in r["X"]]
    Bf = c["rhs"]
    if ncomp == 2:
        X = cplx(X); Bf = cplx(Bf)
    nr = c["nrhs"]
    Xv = [X[k * n:(k + 1) * n] for k in range(nr)]
    Bv = [Bf[k * n:(k + 1) * n] for k in range(nr)]
    tr = c["stype"] == "NR"
    if tr:   # the factors are those of the NC view = A^T
        At = {(j, i): v for (i, j), v in A.items()}
    else:
        At = A
    kf = 1 if ncomp == 1 else 4
    if prec == "d":
        bad = cert.check_lu(n, At, r["perm_r"], r["perm_c"], L, U, UPOW[prec], thresh_u=1.0)
        if bad is None and nr and not tr:
            bad = cert.check_solve(n, A, r["perm_r"], r["perm_c"], L, U, Bv, Xv, UPOW[prec])
        elif bad is None and nr:
            bad = cert.check_solve_frac(n, A, r["perm_r"], r["perm_c"], L, U, Bv, Xv, UPOW[prec], 3 * n, transposed=True)
        return bad
    bad = cert.check_lu_frac(n, At, r["perm_r"], r["perm_c"], L, U, UPOW[prec], kf * n)
    if bad is None and nr:
        bad = cert.check_solve_frac(n, A, r["perm_r"], r["perm_c"], L, U, Bv, Xv, UPOW[prec], kf * 3 * n, transposed=tr)
    return bad


def run(ctx):
    rng = ctx.rng
    ctx.cov["rule"] = ("p?gssv on structured matrices (random, zero-diagonal, banded, grid, block diagonal, arrow, chain, dense, star; "
                       "n<=30 quick / 80 thorough; complex/single n<=20), s/d/c/z, NC and NR, orderings 0..3, nrhs {0,1,3}, nprocs "
                       "{1,2,3,4,8,n+3,33}, panel/relax/maxsuper/blocking sweeps (relax<=maxsuper), seeded perturbation; "
                       "non-trivial = n>=3 and not diagonal; distinct by matrix+parameters")
    ctx.coq_properties()
    kinds = ["random", "randomzd", "banded", "grid", "blockdiag", "arrow", "chain", "dense", "star", "diagdom"]
    N = {"d": 70, "s": 20, "z": 20, "c": 15} if ctx.quick() else {"d": 900, "s": 250, "z": 250, "c": 200}
    ncert = 0; nbump = 0
    adrv = ctx.ocaml_model("alloc")
    for prec in "dszc":
        cases = []
        for k in range(N[prec]):
            nmax = (30 if ctx.quick() else 80) if prec == "d" else (16 if ctx.quick() else 30)
            cases.append(make_case(rng, k + 1, prec, kinds[k % len(kinds)], rng.randint(1, nmax), ctx.quick()))
        for k in range(4 if ctx.quick() else 30):
            cases.append(kernel2d_case(rng, 5000 + k, prec))
        for k in range(4 if ctx.quick() else 30):
            cases.append(panelfill_case(rng, 6000 + k, prec))
        for flavor in (("hooks", "vendor") if prec == "d" else ("hooks",)):
            exe = drv.build(ctx, prec, flavor)
            sub = cases if flavor == "hooks" else cases[::3]
            res = drv.run_grouped(exe, sub, par=max(1, vf.NCPU // 3))
            bb, nb = drv.check_bumps(adrv, res)
            nbump += nb
            for k, msg in bb.items():
                if k < 0:
                    ctx.broken.append(msg)
                else:
                    ctx.violation("C01 (%s, %s build): %s" % (prec, flavor, msg), {"flavor": flavor, "case": sub[k]}, key={"kind": "bump_allocator"})
            for c, r in zip(sub, res):
                ctx.count((prec, flavor, c["kind"], c["n"], tuple(c["rowind"][:40]), tuple(c["vals"][:6]), c["nprocs"], c["stype"]),
                          nontrivial=c["n"] >= 3 and len(c["rowind"]) > c["n"], kind="%s-%s-%s" % (prec, c["stype"], c["kind"]))
                bad = oracle(c, r)
                if bad is None:
                    ncert += 1
                else:
                    key = {"kind": "solve_cert", "prec": prec, "what": bad[:24]}
                    if r.get("lsub_order_inversions", 0) > 0 and "exceeds" in bad:
                        key = {"kind": "fixupL_order"}
                    ctx.violation("C01 certificate (%s, %s build): %s" % (prec, flavor, bad),
                                  {"flavor": flavor, "case": c, "result": {k: v for k, v in r.items() if k not in ("L", "U", "events")}}, key=key)
        ctx.sample({k: cases[0][k] for k in ("prec", "kind", "n", "stype", "nrhs", "nprocs", "colperm", "ienv", "perturb")}, limit=8)
    ctx.cov["correspondence"]["exact_certificates_passed"] = ncert
    ctx.cov["correspondence"]["bump_allocator_logs_equal_to_model"] = nbump
    ctx.log("certificates passed: %d" % ncert)
    ctx.cov["partial"] += ["64-bit index build (-D_LONGINT) and the OpenMP build are not exercised in the quick tier",
                           "complex precisions: relaxed constant 4*gamma(3n), rational bounds of complex moduli"]
    ctx.cov["trusted_base"] += ["python exact certificate lib/cert.py", "Reals axioms as printed under assumptions_printed"]


def replay(ctx, obj):
    rp = obj.get("replay", obj)
    c = rp["case"]
    exe = drv.build(ctx, c["prec"], rp.get("flavor", "hooks"))
    for i in range(30):
        cc = dict(c)
        if cc.get("perturb"):
            cc["perturb"] = [cc["perturb"][0] + i, max(cc["perturb"][1], 0.1), cc["perturb"][2]]
        r = drv.run_batch(exe, [cc])[0]
        bad = oracle(cc, r)
        if bad:
            ctx.violation("C01 certificate: " + bad, {"flavor": rp.get("flavor", "hooks"), "case": cc}, key={"kind": "solve_cert"})
            return 1
    return 0
