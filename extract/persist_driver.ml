(* persist_driver.ml -- runs the extracted Persist model (coq/PersistModel.v) on an op sequence.
   stdin: tokens (integers) describing sessions and operations; stdout: one canonical line per operation
   (outcome of the call + the observable part of the persistent record of that precision + what the session holds).

   slots K                         followed by K lines:  pat n annz dword
   F slot prec expert <21 fargs> opid        first factorization
   R slot prec expert <21 fargs> opid        refactorization
   S slot prec expert trans rhs              solve with the existing factors
   Q slot prec expert refact restore <21 fargs> opid     lwork = -1 query
   P slot prec                               superlu_?QuerySpace
   D slot prec                               destroy L, U and the symbolic arrays
   V jcol usepr oldrow diagrow un ud k (row mag)*k       one call of the pivot rule
   end
   fargs: n annz pat vals permc_in nprocs panel relax u usepr lwork work dword maxsuper rowblk
          fill_lusup fill_ucol fill_lsub env_dyn preset fresh *)
open Persist_model

let rec pos_of_int n = if n = 1 then XH else if n land 1 = 1 then XI (pos_of_int (n lsr 1)) else XO (pos_of_int (n lsr 1))
let z_of_int n = if n = 0 then Z0 else if n > 0 then Zpos (pos_of_int n) else Zneg (pos_of_int (- n))
let rec int_of_pos = function XH -> 1 | XO p -> 2 * int_of_pos p | XI p -> 2 * int_of_pos p + 1
let int_of_z = function Z0 -> 0 | Zpos p -> int_of_pos p | Zneg p -> - (int_of_pos p)
let rec nat_of_int n = if n <= 0 then O else S (nat_of_int (n - 1))
let rec int_of_nat = function O -> 0 | S k -> 1 + int_of_nat k

let toks : string list ref = ref []
let rec next () =
  match !toks with
  | t :: r -> toks := r; t
  | [] -> (match (try Some (input_line stdin) with End_of_file -> None) with
           | None -> "end"
           | Some l -> toks := List.filter (fun s -> s <> "") (Str.split (Str.regexp "[ \t\r]+") l); next ())
let geti () = int_of_string (next ())
let getz () = z_of_int (geti ())

let get_fargs () =
  let fa_n = getz () in let fa_annz = getz () in let fa_pat = getz () in let fa_vals = getz () in
  let fa_permc_in = getz () in let fa_nprocs = getz () in let fa_panel = getz () in let fa_relax = getz () in
  let fa_u = getz () in let fa_usepr = getz () in let fa_lwork = getz () in let fa_work = getz () in
  let fa_dword = getz () in let fa_maxsuper = getz () in let fa_rowblk = getz () in
  let fa_fill_lusup = getz () in let fa_fill_ucol = getz () in let fa_fill_lsub = getz () in
  let fa_env_dyn = getz () in let fa_preset = getz () in let fa_fresh = getz () in
  { fa_n; fa_annz; fa_pat; fa_vals; fa_permc_in; fa_nprocs; fa_panel; fa_relax; fa_u; fa_usepr; fa_lwork; fa_work;
    fa_dword; fa_maxsuper; fa_rowblk; fa_fill_lusup; fa_fill_ucol; fa_fill_lsub; fa_env_dyn; fa_preset; fa_fresh }

let pr_obs p prec =
  match pobserve p (nat_of_int prec) with
  | None -> Printf.printf " | obs none"
  | Some o -> Printf.printf " | obs exp=%d ndim=%d head=%d tail=%d array=%d avail=%d" (if o.ob_exp then 1 else 0)
                (int_of_z o.ob_ndim) (int_of_z o.ob_head) (int_of_z o.ob_tail) (int_of_z o.ob_array) (int_of_z o.ob_avail)

let pr_sess p slot =
  match List.nth_opt p.pr_se slot with
  | None -> Printf.printf " | sess none\n"
  | Some se ->
     let pr = match se.s_permr with PRnone -> "none" | PRempty -> "empty" | PRfrom k -> string_of_int (int_of_z k) in
     let fo = match se.s_fac with None -> "none" | Some f -> string_of_int (int_of_z f.f_op) in
     Printf.printf " | sess vals=%d permc=%d permr=%s sym=%d fac=%s usepr=%d\n" (int_of_z se.s_vals) (int_of_z se.s_permc) pr
       (int_of_z se.s_sym) fo (int_of_z se.s_usepr)

let pr_reads r =
  Printf.printf "pat=%d vals=%d permc=%d sym=%d u=%d usepr=%d permr_in=%d nprocs=%d panel=%d relax=%d nzlmax=%d nzumax=%d store=%d tmp=%d bmod=%d,%d ienv=%d,%d dyn=%d"
    (int_of_z r.fr_pat) (int_of_z r.fr_vals) (int_of_z r.fr_permc) (int_of_z r.fr_sym) (int_of_z r.fr_u) (int_of_z r.fr_usepr)
    (int_of_z r.fr_permr_in) (int_of_z r.fr_nprocs) (int_of_z r.fr_panel) (int_of_z r.fr_relax) (int_of_z r.fr_nzlmax)
    (int_of_z r.fr_nzumax) (int_of_z r.fr_store) (int_of_z r.fr_tmp) (int_of_z r.fr_bmod_maxsuper) (int_of_z r.fr_bmod_rowblk)
    (int_of_z r.fr_maxsuper) (int_of_z r.fr_rowblk) (int_of_z r.fr_dyn)

let pr_out = function
  | RFactor (r, ex, e) -> Printf.printf "factor expert=%d expansions=%d " (if ex then 1 else 0) (int_of_z e); pr_reads r
  | RSolve (r, t, b, e) ->
     Printf.printf "solve trans=%d rhs=%d expansions=%s " (int_of_z t) (int_of_z b)
       (match e with None -> "none" | Some v -> string_of_int (int_of_z v)); pr_reads r
  | REstimate v -> Printf.printf "estimate v=%d" (int_of_z v)
  | RMemFail v -> Printf.printf "memfail v=%d" (int_of_z v)
  | RWorkFail v -> Printf.printf "workfail v=%d" (int_of_z v)
  | RQSpace e -> Printf.printf "qspace expansions=%d" (int_of_z e)
  | RNone -> Printf.printf "none"
  | RInvalid -> Printf.printf "invalid"
  | RUnmodelled -> Printf.printf "unmodelled"

let () =
  let p = ref (proc0 []) in
  let fin = ref false in
  while not !fin do
    let t = next () in
    let doop slot prec ex o =
      let (p1, out) = pstep !p ex (nat_of_int slot) (nat_of_int prec) o in
      p := p1; pr_out out; pr_obs !p prec; pr_sess !p slot in
    match t with
    | "end" -> fin := true
    | "slots" ->
       let k = geti () in
       let l = ref [] in
       for _ = 1 to k do
         let pat = getz () in let n = getz () in let annz = getz () in let dw = getz () in
         l := sess0 pat n annz dw :: !l
       done;
       p := proc0 (List.rev !l)
    | "F" -> let slot = geti () in let prec = geti () in let ex = geti () = 1 in
             let a = get_fargs () in let opid = getz () in doop slot prec ex (OFirst (a, opid))
    | "R" -> let slot = geti () in let prec = geti () in let ex = geti () = 1 in
             let a = get_fargs () in let opid = getz () in doop slot prec ex (ORefact (a, opid))
    | "S" -> let slot = geti () in let prec = geti () in let ex = geti () = 1 in
             let tr = getz () in let rhs = getz () in doop slot prec ex (OSolve (ex, tr, rhs))
    | "Q" -> let slot = geti () in let prec = geti () in let ex = geti () = 1 in
             let refact = getz () in let restore = geti () = 1 in
             let a = get_fargs () in let opid = getz () in doop slot prec ex (OQuery (a, refact, opid, restore))
    | "P" -> let slot = geti () in let prec = geti () in doop slot prec true OQSpace
    | "D" -> let slot = geti () in let prec = geti () in doop slot prec true ODestroy
    | "V" ->
       let jcol = getz () in let usepr = geti () = 1 in let oldrow = getz () in let diagrow = getz () in
       let un = getz () in let ud = getz () in let k = geti () in
       let c = ref [] in
       for _ = 1 to k do let r = getz () in let m = getz () in c := (r, m) :: !c done;
       let r = pivotL jcol (List.rev !c) usepr oldrow diagrow un ud in
       Printf.printf "piv ptr=%d row=%d usepr=%d info=%d\n" (int_of_nat r.pv_ptr) (int_of_z r.pv_row) (if r.pv_usepr then 1 else 0) (int_of_z r.pv_info)
    | s -> prerr_endline ("persist_driver: unknown token " ^ s); exit 2
  done
