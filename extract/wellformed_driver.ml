(* wellformed_driver.ml -- runs the extracted checker check_wf_LU (proved sound and complete for wf_LU) and the extracted
   fixupL / countnz models.  Token oriented stdin; vectors are "<len> v1 .. vlen", integers decimal.
     wf <id> <n> Lnnz Lnsuper Lnzlen nzbeg nzend rowind ribeg riend col2sup supbeg supend Unnz urowind ucolbeg ucolend perm_r perm_c
        -> R <id> <1|0> <index of the first failing clause, or the number of clauses>
     fixupl <id> <n> perm_r xsup xsup_end supno lsub xlsub xlsub_end   -> R <id> lsub' xlsub' xlsub_end'
     countnz <id> <n> xsup xsup_end supno xlsub xlsub_end <nextu>       -> R <id> nnzL nnzU                       *)
open Wellformed_model

let rec pos_of_int (n : int) : positive =
  if n <= 1 then XH else if n land 1 = 1 then XI (pos_of_int (n lsr 1)) else XO (pos_of_int (n lsr 1))
let z_of_int (n : int) : z = if n = 0 then Z0 else if n > 0 then Zpos (pos_of_int n) else Zneg (pos_of_int (- n))
let rec int_of_pos = function XH -> 1 | XO p -> 2 * int_of_pos p | XI p -> 2 * int_of_pos p + 1
let int_of_z = function Z0 -> 0 | Zpos p -> int_of_pos p | Zneg p -> - (int_of_pos p)

let toks = ref []
let load () =
  let b = Buffer.create 65536 in
  (try while true do Buffer.add_channel b stdin 1 done with End_of_file -> ());
  toks := List.filter (fun s -> s <> "")
            (String.split_on_char ' ' (String.map (fun c -> if c = '\n' || c = '\t' then ' ' else c) (Buffer.contents b)))
let next () = match !toks with [] -> raise End_of_file | h :: t -> toks := t; h
let next_int () = int_of_string (next ())
let next_z () = z_of_int (next_int ())
let vec () = let n = next_int () in List.init n (fun _ -> next_z ())
let pr_vec v = Printf.printf " %d" (List.length v); List.iter (fun x -> Printf.printf " %d" (int_of_z x)) v

let () =
  load ();
  try
    while true do
      let cmd = next () in
      let id = next () in
      if cmd = "wf" then begin
        let n = next_z () in
        let lnnz = next_z () in let lnsuper = next_z () in let lnzlen = next_z () in
        let nzbeg = vec () in let nzend = vec () in let rowind = vec () in let ribeg = vec () in let riend = vec () in
        let col2sup = vec () in let supbeg = vec () in let supend = vec () in
        let unnz = next_z () in let urow = vec () in let ucb = vec () in let uce = vec () in
        let perm_r = vec () in let perm_c = vec () in
        let l = { l_nnz = lnnz; l_nsuper = lnsuper; l_nzval_len = lnzlen; l_nzval_colbeg = nzbeg; l_nzval_colend = nzend;
                  l_rowind = rowind; l_rowind_colbeg = ribeg; l_rowind_colend = riend; l_col_to_sup = col2sup;
                  l_sup_to_colbeg = supbeg; l_sup_to_colend = supend } in
        let u = { u_nnz = unnz; u_rowind = urow; u_colbeg = ucb; u_colend = uce } in
        let ok = check_wf_LU n l u perm_r perm_c in
        Printf.printf "R %s %d %d\n" id (if ok then 1 else 0) (int_of_z (first_failing_clause n l u perm_r perm_c))
      end else if cmd = "fixupl" then begin
        let n = next_z () in let perm_r = vec () in let xsup = vec () in let xsup_end = vec () in let supno = vec () in
        let lsub = vec () in let xlsub = vec () in let xlsub_end = vec () in
        let g = { g_xsup = xsup; g_xsup_end = xsup_end; g_supno = supno; g_lsub = lsub; g_xlsub = xlsub; g_xlsub_end = xlsub_end;
                  g_nextu = Z0 } in
        let ((ls, xl), xe) = fixupL n perm_r g in
        Printf.printf "R %s" id; pr_vec ls; pr_vec xl; pr_vec xe; print_newline ()
      end else if cmd = "countnz" then begin
        let n = next_z () in let xsup = vec () in let xsup_end = vec () in let supno = vec () in
        let xlsub = vec () in let xlsub_end = vec () in let nextu = next_z () in
        let g = { g_xsup = xsup; g_xsup_end = xsup_end; g_supno = supno; g_lsub = []; g_xlsub = xlsub; g_xlsub_end = xlsub_end;
                  g_nextu = nextu } in
        let (nl, nu) = countnz n g in
        Printf.printf "R %s %d %d\n" id (int_of_z nl) (int_of_z nu)
      end else failwith ("unknown command " ^ cmd)
    done
  with End_of_file -> ()
