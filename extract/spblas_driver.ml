(* spblas_driver.ml -- runs the extracted exact-rational (Qc) instance of the sparse BLAS model.
   stdin: whitespace separated tokens
     gemv <id> <tr> <alpha> <beta> <xo> <incx> <yo> <incy> <m> <n> <nnz> colptr[n+1] rowind[nnz] val[nnz] <lx> x[lx] <ly> y[ly]
     trsv <id> <uplo> <tr> <diag> <n> <nsuper> <lv> lval[lv] nzbeg[n] nzend[n] <lr> rowind[lr] ribeg[n] riend[n]
               col2sup[n+1] supbeg[ns+1] supend[ns+1] <lu> uval[lu] urowind[lu] ucolbeg[n] ucolend[n] <lx> x[lx]
   rationals are  [-]HEXNUM/HEXDEN ; integers decimal.
   stdout: one line per case   R <id> <status> <k> q_1 .. q_k     (status ok | xerbla<i> | abort) *)
open Spblas_model

let rec nat_of_int n = if n <= 0 then O else S (nat_of_int (n - 1))
let rec int_of_nat = function O -> 0 | S k -> 1 + int_of_nat k

(* positive <-> big-endian bit lists *)
let pos_of_bits (bits : bool list) : positive =
  (* bits: most significant first, first element true *)
  match bits with
  | [] -> XH
  | _ :: rest -> List.fold_left (fun p b -> if b then XI p else XO p) XH rest

let bits_of_hex (s : string) : bool list =
  let l = ref [] in
  String.iter (fun c ->
    let v = int_of_string ("0x" ^ String.make 1 c) in
    l := (v land 1 <> 0) :: (v land 2 <> 0) :: (v land 4 <> 0) :: (v land 8 <> 0) :: !l) s;
  (* !l is least-significant first *)
  let rec strip = function false :: t -> strip t | x -> x in
  strip (List.rev !l)

let z_of_hex (s : string) : z =
  let neg = String.length s > 0 && s.[0] = '-' in
  let s = if neg then String.sub s 1 (String.length s - 1) else s in
  match bits_of_hex s with
  | [] -> Z0
  | b -> let p = pos_of_bits b in if neg then Zneg p else Zpos p

let rec bits_of_pos (p : positive) (acc : bool list) : bool list =  (* msb first *)
  match p with XH -> true :: acc | XO q -> bits_of_pos q (false :: acc) | XI q -> bits_of_pos q (true :: acc)

let hex_of_pos (p : positive) : string =
  let bits = bits_of_pos p [] in
  let n = List.length bits in
  let pad = (4 - n mod 4) mod 4 in
  let bits = (List.init pad (fun _ -> false)) @ bits in
  let buf = Buffer.create 16 in
  let rec go = function
    | a :: b :: c :: d :: t ->
      let v = (if a then 8 else 0) + (if b then 4 else 0) + (if c then 2 else 0) + (if d then 1 else 0) in
      Buffer.add_char buf "0123456789abcdef".[v]; go t
    | _ -> () in
  go bits; Buffer.contents buf

let hex_of_z = function Z0 -> "0" | Zpos p -> hex_of_pos p | Zneg p -> "-" ^ hex_of_pos p

let z_of_int (i : int) : z = z_of_hex (if i < 0 then Printf.sprintf "-%x" (-i) else Printf.sprintf "%x" i)

let qc_of_string (s : string) : Obj.t =
  let i = String.index s '/' in
  let num = z_of_hex (String.sub s 0 i) and den = z_of_hex (String.sub s (i + 1) (String.length s - i - 1)) in
  let d = match den with Zpos p -> p | _ -> XH in
  Obj.repr (q2Qc { qnum = num; qden = d })

let string_of_qc (o : Obj.t) : string =
  let (q : q) = Obj.obj o in hex_of_z q.qnum ^ "/" ^ hex_of_pos q.qden

let tch (s : string) : tchar =
  match Char.uppercase_ascii s.[0] with
  | 'N' -> CN | 'T' -> CT | 'C' -> CC | 'L' -> CL | 'U' -> CU | 'M' -> CM | 'O' -> CO | '1' -> C1
  | 'I' -> CI | 'F' -> CF | 'E' -> CE | _ -> CX

let toks = ref []
let load () =
  let b = Buffer.create 65536 in
  (try while true do Buffer.add_channel b stdin 1 done with End_of_file -> ());
  toks := List.filter (fun s -> s <> "") (String.split_on_char ' ' (String.map (fun c -> if c = '\n' || c = '\t' then ' ' else c) (Buffer.contents b)))
let next () = match !toks with [] -> raise End_of_file | h :: t -> toks := t; h
let next_int () = int_of_string (next ())
let ivec n = List.init n (fun _ -> nat_of_int (next_int ()))
let qvec n = List.init n (fun _ -> qc_of_string (next ()))
let pr_vec id st v = Printf.printf "R %s %s %d %s\n" id st (List.length v) (String.concat " " (List.map string_of_qc v))
let int_of_z = function Z0 -> 0 | Zpos p -> int_of_string ("0x" ^ hex_of_pos p) | Zneg p -> - (int_of_string ("0x" ^ hex_of_pos p))

let () =
  load ();
  try
    while true do
      let cmd = next () in
      let id = next () in
      if cmd = "gemv" then begin
        let tr = tch (next ()) in
        let alpha = qc_of_string (next ()) in let beta = qc_of_string (next ()) in
        let xo = z_of_int (next_int ()) in let incx = z_of_int (next_int ()) in
        let yo = z_of_int (next_int ()) in let incy = z_of_int (next_int ()) in
        let m = next_int () in let n = next_int () in let nnz = next_int () in
        let colptr = ivec (n + 1) in let rowind = ivec nnz in let value = qvec nnz in
        let lx = next_int () in let x = qvec lx in
        let ly = next_int () in let y = qvec ly in
        let a = { a_nrow = z_of_int m; a_ncol = z_of_int n; a_colptr = colptr; a_rowind = rowind; a_val = value } in
        (match sp_gemv arQ tr alpha a x xo incx beta y yo incy with
         | G_ok y' -> pr_vec id "ok" y'
         | G_xerbla (i, y') -> pr_vec id (Printf.sprintf "xerbla%d" (int_of_z i)) y'
         | G_abort y' -> pr_vec id "abort" y')
      end else if cmd = "trsv" then begin
        let uplo = tch (next ()) in let tr = tch (next ()) in let diag = tch (next ()) in
        let n = next_int () in let ns = next_int () in
        let lv = next_int () in let lval = qvec lv in let nzbeg = ivec n in let nzend = ivec n in
        let lr = next_int () in let rowind = ivec lr in let ribeg = ivec n in let riend = ivec n in
        let col2sup = ivec (n + 1) in let supbeg = ivec (ns + 1) in let supend = ivec (ns + 1) in
        let lu = next_int () in let uval = qvec lu in let urow = ivec lu in let ucb = ivec n in let uce = ivec n in
        let lx = next_int () in let x = qvec lx in
        let l = create_scp arQ (z_of_int n) (z_of_int n) lval nzbeg nzend rowind ribeg riend col2sup supbeg supend in
        let u = create_ncp arQ (z_of_int n) (z_of_int n) uval urow ucb uce in
        (match sp_trsv arQ l u uplo tr diag x with
         | S_ok x' -> pr_vec id "ok" x'
         | S_xerbla (i, x') -> pr_vec id (Printf.sprintf "xerbla%d" (int_of_z i)) x')
      end else failwith ("unknown command " ^ cmd)
    done
  with End_of_file -> ()
