(* argcheck_driver.ml (property C15): line-oriented driver around the extracted ArgCheck model.
   stdin :  <id> <routine> <prec> key=value ...        (same lines as harness/argcheck_harness.c reads)
   stdout:  <id> model=<info|UB> final=<info left when the tests pass> spec=<info> xerbla=<pos|-> equed=<z> optperm=<0|1> allocs=<n> wrote=<n> *)
open Argcheck_model

let rec pos_of_int (n : int) : positive =
  if n <= 1 then XH
  else if n land 1 = 0 then XO (pos_of_int (n lsr 1)) else XI (pos_of_int (n lsr 1))

let z_of_int (n : int) : z = if n = 0 then Z0 else if n > 0 then Zpos (pos_of_int n) else Zneg (pos_of_int (- n))

let rec int_of_pos = function XH -> 1 | XO p -> 2 * int_of_pos p | XI p -> 2 * int_of_pos p + 1
let int_of_z = function Z0 -> 0 | Zpos p -> int_of_pos p | Zneg p -> - (int_of_pos p)

let rec pow2 k = if k <= 0 then XH else XO (pow2 (k - 1))

(* "a/b", "a", "2^k", "-2^k", "1/2^k" *)
let z_of_tok (s : string) : z =
  let neg = String.length s > 0 && s.[0] = '-' in
  let s' = if neg then String.sub s 1 (String.length s - 1) else s in
  let v =
    if String.length s' > 2 && String.sub s' 0 2 = "2^" then
      Zpos (pow2 (int_of_string (String.sub s' 2 (String.length s' - 2))))
    else z_of_int (int_of_string s') in
  if neg then (match v with Zpos p -> Zneg p | x -> x) else v

let q_of_tok (s : string) : q =
  match String.index_opt s '/' with
  | None -> { qnum = z_of_tok s; qden = XH }
  | Some i ->
    let n = z_of_tok (String.sub s 0 i) in
    let d = z_of_tok (String.sub s (i + 1) (String.length s - i - 1)) in
    (match d with Zpos p -> { qnum = n; qden = p } | _ -> failwith "bad denominator")

let qlist (s : string) : q list =
  if s = "-" || s = "" then [] else List.map q_of_tok (String.split_on_char ',' s)

let prec_of = function "s" -> PS | "d" -> PD | "c" -> PC | "z" -> PZ | _ -> failwith "prec"

let () =
  try
    while true do
      let line = input_line stdin in
      let toks = List.filter (fun t -> t <> "") (String.split_on_char ' ' line) in
      match toks with
      | id :: rt :: pr :: kvs ->
        let tbl = Hashtbl.create 64 in
        List.iter (fun kv ->
            match String.index_opt kv '=' with
            | Some i -> Hashtbl.replace tbl (String.sub kv 0 i) (String.sub kv (i + 1) (String.length kv - i - 1))
            | None -> ()) kvs;
        let gs k = try Hashtbl.find tbl k with Not_found -> failwith ("missing key " ^ k ^ " in case " ^ id) in
        let g k = z_of_int (int_of_string (gs k)) in
        let mat pfx = { m_st = g (pfx ^ ".st"); m_dt = g (pfx ^ ".dt"); m_mt = g (pfx ^ ".mt");
                        m_nr = g (pfx ^ ".nr"); m_nc = g (pfx ^ ".nc");
                        m_lda = (try g (pfx ^ ".lda") with Failure _ -> Z0) } in
        let p = prec_of pr in
        let final = ref None in
        let out (o : outcome option) (spec : z) =
          match o with
          | None -> Printf.printf "%s model=UB spec=%d xerbla=- equed=0 optperm=0 allocs=0 wrote=0\n" id (int_of_z spec)
          | Some o ->
            Printf.printf "%s model=%d final=%d spec=%d xerbla=%s equed=%d optperm=%d allocs=%d wrote=%d\n" id
              (int_of_z o.o_info) (match !final with None -> int_of_z o.o_info | Some f -> int_of_z f) (int_of_z spec)
              (match o.o_xerbla with None -> "-" | Some i -> string_of_int (int_of_z i))
              (int_of_z o.o_equed) (if o.o_optperm then 1 else 0) (int_of_z o.o_allocs)
              (List.length o.o_wrote) in
        (match rt with
         | "gssv" ->
           let a = { gv_nprocs = g "np"; gv_A = mat "A"; gv_B = mat "B" } in
           out (Some (gssv_run p a)) (spec_info (doc_gssv p) a)
         | "gssvx" ->
           let a = { gx_nprocs = g "np"; gx_fact = g "fact"; gx_trans = g "trans"; gx_refact = g "refact";
                     gx_usepr = g "usepr"; gx_lwork = g "lwork"; gx_A = mat "A"; gx_equed = g "equed";
                     gx_R = qlist (gs "R"); gx_C = qlist (gs "C"); gx_B = mat "B"; gx_X = mat "X" } in
           out (gssvx_run p a) (spec_info (doc_gssvx p) a)
         | "gstrs" ->
           let a = { gt_trans = g "trans"; gt_L = mat "L"; gt_U = mat "U"; gt_B = mat "B" } in
           final := Some (gstrs_final_info p a);
           out (Some (gstrs_run p a)) (spec_info (doc_gstrs p) a)
         | "gsrfs" ->
           let a = { gr_trans = g "trans"; gr_A = mat "A"; gr_L = mat "L"; gr_U = mat "U";
                     gr_equed = g "equed"; gr_B = mat "B"; gr_X = mat "X" } in
           out (Some (gsrfs_run p a)) (spec_info (doc_gsrfs p) a)
         | "gscon" ->
           let a = { gc_norm = g "norm"; gc_L = mat "L"; gc_U = mat "U" } in
           out (Some (gscon_run p a)) (spec_info (doc_gscon p) a)
         | "gsequ" ->
           let a = mat "A" in
           out (Some (gsequ_run p a)) (spec_info (doc_gsequ p) a)
         | "trsv" ->
           let a = { tv_uplo = g "uplo"; tv_trans = g "trans"; tv_diag = g "diag"; tv_L = mat "L"; tv_U = mat "U" } in
           out (Some (trsv_run p a)) (spec_info (doc_trsv p) a)
         | "gemv" ->
           let a = { gm_trans = g "trans"; gm_A = mat "A"; gm_incx = g "incx"; gm_incy = g "incy" } in
           out (Some (gemv_run p a)) (spec_info (doc_gemv p) a)
         | _ -> Printf.printf "%s model=ERR unknown routine %s\n" id rt)
      | _ -> ()
    done
  with End_of_file -> ()
