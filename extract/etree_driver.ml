(* Driver around the Coq-extracted Etree model (Etree_model).  Same line-oriented case file as
   harness/etree_harness.c (see checks/c10.py); one canonical result line per command.
     CT id nr nc len colbeg[nc] colend[nc] arow[len]       -> "id CT parent[nc]"      (sp_coletree model)
     ST id n len colbeg[n] colend[n] arow[len]             -> "id ST parent[n]"       (sp_symetree model)
     PO id n parent[n]                                     -> "id PO post[n+1]"       (TreePostorder model)
     CO id sym m n nnz colptr[n+1] rowind[nnz] perm_c[n]   -> "id CO colbeg ; colend ; perm_c ; etree"
     GP id k m n nnz colptr rowind                         -> "id GP perm_c"  (k-th option of {NATURAL, MMD_ATA, MMD_AT_PLUS_A,
                                                              COLAMD}; only the `case 0` branch is modelled, others "UNMODELLED")
   model / spec only:
     SP id nr nc len colbeg colend arow                    -> "id SP parent"          (coletree_spec)
     SS id n len colbeg colend arow                        -> "id SS parent"          (symetree_spec)
     CP id n len p[len]                                    -> "id CP 0|1"             (check_perm)
     CB id n len part[len]                                 -> "id CB 0|1"             (check_blocks)
   A model function returning None (out-of-range access / fuel exhausted) prints "id <cmd> ERR". *)
open Etree_model

let rec pos_of_int (i : int) : positive =
  if i = 1 then XH else if i land 1 = 0 then XO (pos_of_int (i lsr 1)) else XI (pos_of_int (i lsr 1))
let z_of_int (i : int) : z =
  if i = 0 then Z0 else if i > 0 then Zpos (pos_of_int i) else Zneg (pos_of_int (-i))
let rec int_of_pos = function XH -> 1 | XO p -> 2 * int_of_pos p | XI p -> 2 * int_of_pos p + 1
let int_of_z = function Z0 -> 0 | Zpos p -> int_of_pos p | Zneg p -> - (int_of_pos p)

let ints (l : z list) : string =
  let b = Buffer.create 256 in
  List.iter (fun x -> Buffer.add_char b ' '; Buffer.add_string b (string_of_int (int_of_z x))) l;
  Buffer.contents b

let () =
  let out = Buffer.create (1 lsl 16) in
  let flush_out () = print_string (Buffer.contents out); Buffer.clear out in
  (try
     while true do
       let line = input_line stdin in
       let toks = List.filter (fun s -> s <> "") (String.split_on_char ' ' (String.trim line)) in
       match toks with
       | [] -> ()
       | cmd :: rest when String.length cmd > 0 && cmd.[0] <> '#' ->
         let arr = Array.of_list (List.map int_of_string rest) in
         let pos = ref 0 in
         let next () = let v = arr.(!pos) in incr pos; v in
         let rd k = List.init k (fun _ -> z_of_int (next ())) in
         let id = next () in
         let emit s = Buffer.add_string out (Printf.sprintf "%d %s%s\n" id cmd s) in
         let emit_opt = function Some l -> emit (ints l) | None -> emit " ERR" in
         (match cmd with
          | "CT" ->
            let nr = next () in let nc = next () in let len = next () in
            let cb = rd nc in let ce = rd nc in let ar = rd len in
            emit_opt (sp_coletree cb ce ar (z_of_int nr) (z_of_int nc))
          | "ST" ->
            let n = next () in let len = next () in
            let cb = rd n in let ce = rd n in let ar = rd len in
            emit_opt (sp_symetree cb ce ar (z_of_int n))
          | "SP" ->
            let _nr = next () in let nc = next () in let len = next () in
            let cb = rd nc in let ce = rd nc in let ar = rd len in
            emit (ints (coletree_spec cb ce ar (z_of_int nc)))
          | "SS" ->
            let n = next () in let len = next () in
            let cb = rd n in let ce = rd n in let ar = rd len in
            emit (ints (symetree_spec cb ce ar (z_of_int n)))
          | "PO" ->
            let n = next () in
            let parent = rd n in
            emit_opt (tree_postorder (z_of_int n) parent)
          | "CO" ->
            let sym = next () in let m = next () in let n = next () in let nnz = next () in
            let colptr = rd (n + 1) in let rowind = rd nnz in let perm_c = rd n in
            (match colorder (sym <> 0) (z_of_int m) (z_of_int n) colptr rowind perm_c with
             | Some (((colbeg, colend), pc), etree) ->
               emit (ints colbeg ^ " ;" ^ ints colend ^ " ;" ^ ints pc ^ " ;" ^ ints etree)
             | None -> emit " ERR")
          | "GP" ->
            (* the k-th ordering option; its colperm_t value comes from the generated Consts.v *)
            let k = next () in let _m = next () in let n = next () in
            (match ordering_code (z_of_int k) with
             | Some code ->
               (match get_perm_c_model code (z_of_int n) with
                | Some r -> emit_opt r
                | None -> emit " UNMODELLED")
             | None -> emit " ERR")
          | "CP" ->
            let n = next () in let len = next () in
            let p = rd len in
            emit (if check_perm (z_of_int n) p then " 1" else " 0")
          | "CB" ->
            let n = next () in let len = next () in
            let p = rd len in
            emit (if check_blocks (z_of_int n) p then " 1" else " 0")
          | _ -> emit " UNKNOWN");
         if Buffer.length out > (1 lsl 16) then flush_out ()
       | _ -> ()
     done
   with End_of_file -> ());
  flush_out ()
