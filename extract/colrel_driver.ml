(* stdin, one trace per line: operations separated by ';':  "T c1 c2 .." (Take), "F c" (Final), "R c" (Release), "D c" (Read).
   stdout per line: "OK <reads> <all reads saw a final column: 0/1>"  or  "FAIL <index of the first operation whose guard fails>":
   ColRelease.cstep true folded over the operations from ColRelease.cinit *)
open Colrel_model
let rec nat_of_int i = if i <= 0 then O else S (nat_of_int (i - 1))
let toks s = List.filter (fun t -> t <> "") (String.split_on_char ' ' s)
let () =
  try while true do
    let line = input_line stdin in
    let ops = List.filter (fun o -> toks o <> []) (String.split_on_char ';' line) in
    let rec go s i = function
      | [] -> let r = s.rd in
              Printf.printf "OK %d %d\n" (List.length r) (if List.for_all (fun (_, b) -> b) r then 1 else 0)
      | o :: rest ->
          let op = match toks o with
            | "T" :: cs -> Some (Take (List.map (fun t -> nat_of_int (int_of_string t)) cs))
            | ["F"; c] -> Some (Final (nat_of_int (int_of_string c)))
            | ["R"; c] -> Some (Release (nat_of_int (int_of_string c)))
            | ["D"; c] -> Some (Read (nat_of_int (int_of_string c)))
            | _ -> None in
          (match op with
           | None -> Printf.printf "ERR %d\n" i
           | Some op -> (match cstep true s op with
                         | Some s' -> go s' (i + 1) rest
                         | None -> Printf.printf "FAIL %d\n" i)) in
    go cinit 0 ops
  done with End_of_file -> ()
