(* stdin: one pivot search per line:  usepr oldrow diagind thr k  row_1 mag_1 ... row_k mag_k
   rows are decimal (may be -1), magnitudes and thr are non-negative integers in BINARY (scaled doubles).
   stdout: "ptr row usepr singular" per line;
   or "INFO i i | i ..." (InfoModel.gstrf_info on the per-worker info sequences) -> "INFO r" *)
open Pivot_model
let rec pos_of_int (i : int) : positive =
  if i = 1 then XH else if i land 1 = 0 then XO (pos_of_int (i lsr 1)) else XI (pos_of_int (i lsr 1))
let z_of_int (i : int) : z = if i = 0 then Z0 else if i > 0 then Zpos (pos_of_int i) else Zneg (pos_of_int (-i))
let rec int_of_pos = function XH -> 1 | XO p -> 2 * int_of_pos p | XI p -> 2 * int_of_pos p + 1
let int_of_z = function Z0 -> 0 | Zpos p -> int_of_pos p | Zneg p -> - (int_of_pos p)
let rec int_of_nat = function O -> 0 | S n -> 1 + int_of_nat n
(* binary string, most significant bit first *)
let z_of_bin (s : string) : z =
  let n = String.length s in
  let i = ref 0 in
  while !i < n && s.[!i] = '0' do incr i done;
  if !i >= n then Z0 else begin
    let p = ref XH in
    for k = !i + 1 to n - 1 do p := if s.[k] = '1' then XI !p else XO !p done;
    Zpos !p end
let () =
  try while true do
    let line = input_line stdin in
    let tok = Array.of_list (List.filter (fun s -> s <> "") (String.split_on_char ' ' line)) in
    if Array.length tok >= 1 && tok.(0) = "INFO" then begin
      (* INFO i i i | i i | ...   : per worker, the infos (0 or column+1) of the pivot searches it made, in its own order *)
      let parts = ref [] and cur = ref [] in
      Array.iteri (fun k t -> if k > 0 then (if t = "|" then (parts := List.rev !cur :: !parts; cur := []) else cur := z_of_int (int_of_string t) :: !cur)) tok;
      parts := List.rev !cur :: !parts;
      Printf.printf "INFO %d\n" (int_of_z (gstrf_info (List.rev !parts)))
    end else
    if Array.length tok >= 5 then begin
      let usepr = tok.(0) = "1" in
      let oldrow = z_of_int (int_of_string tok.(1)) and diagind = z_of_int (int_of_string tok.(2)) in
      let thr = z_of_bin tok.(3) in
      let k = int_of_string tok.(4) in
      let c = List.init k (fun i -> (z_of_int (int_of_string tok.(5 + 2 * i)), z_of_bin tok.(6 + 2 * i))) in
      let r = pivotL c usepr oldrow diagind thr in
      Printf.printf "%d %d %d %d\n" (int_of_nat r.pr_ptr) (int_of_z r.pr_row) (if r.pr_usepr then 1 else 0) (if r.pr_singular then 1 else 0)
    end
  done with End_of_file -> ()
