(* stdin: one job per line:  n | i j i j ...   (entries of the pattern, 0-based, in the FINAL numbering)
   stdout: "S c0 c1 ... | L c0 c1 ... | R c0 c1 ..."  : column counts of the filled A^T+A (diagonal included), of the filled A
   (diagonal pivots) and of George & Ng's row-merge pattern (what qrnzcnt predicts for a zero-free diagonal) *)
open Symfill_model
let rec nat_of_int (i : int) : nat = if i <= 0 then O else S (nat_of_int (i - 1))
let rec int_of_nat = function O -> 0 | S n -> 1 + int_of_nat n
let () =
  try while true do
    let line = input_line stdin in
    match String.split_on_char '|' line with
    | [hd; es] ->
        let n = int_of_string (String.trim hd) in
        let toks = List.filter (fun t -> t <> "") (String.split_on_char ' ' es) in
        let rec pairs = function a :: b :: t -> (nat_of_int (int_of_string a), nat_of_int (int_of_string b)) :: pairs t | _ -> [] in
        let ents = pairs toks in
        let nn = nat_of_int n in
        let s = sym_colcounts nn ents and l = lu_colcounts nn ents and r = rm_colcounts nn ents in
        let pr l = String.concat " " (List.map (fun x -> string_of_int (int_of_nat x)) l) in
        Printf.printf "S %s | L %s | R %s\n" (pr s) (pr l) (pr r)
    | _ -> print_endline "ERR"
  done with End_of_file -> ()
