(* reader_driver.ml -- line-oriented driver around the extracted reader model (C20).
   Commands on stdin, one per line:
     parse  hb|rb|mt  <cplx 0|1>  <path>
         -> "OK m n nnz hasvals|colptr..|rowind..|neg:mant:e10 .." or "ERR code"
     pif <b0> ... <b99>     (?ParseIntFormat on a fully determinate 100-byte buffer)
     pff <b0> ... <b99>     (?ParseFloatFormat)
         -> "FMT num size" or "ERR code"
     print hb|rb|mt <outpath> <tokens...>   (token layout: see parse_* below; integers only)
         -> "PRINTED <admissible 0|1> <bytes>"   and the file written *)
open Reader_model

let rec pos_of_int n =
  if n = 1 then XH else if n land 1 = 0 then XO (pos_of_int (n lsr 1)) else XI (pos_of_int (n lsr 1))
let z_of_int n = if n = 0 then Z0 else if n > 0 then Zpos (pos_of_int n) else Zneg (pos_of_int (-n))
let rec int_of_pos = function XH -> 1 | XO p -> 2 * int_of_pos p | XI p -> 2 * int_of_pos p + 1
let int_of_z = function Z0 -> 0 | Zpos p -> int_of_pos p | Zneg p -> - (int_of_pos p)

let rec nat_of_int n = if n <= 0 then O else S (nat_of_int (n - 1))

let chunk9 = z_of_int 1000000000

(* decimal string <-> z, through the extracted arithmetic (any size) *)
let z_of_string (s : string) : z =
  let neg = String.length s > 0 && s.[0] = '-' in
  let s = if neg then String.sub s 1 (String.length s - 1) else s in
  let n = String.length s in
  let acc = ref Z0 in
  let i = ref 0 in
  while !i < n do
    let k = min 9 (n - !i) in
    let part = int_of_string (String.sub s !i k) in
    let sc = ref 1 in
    for _ = 1 to k do sc := !sc * 10 done;
    acc := Z.add (Z.mul !acc (z_of_int !sc)) (z_of_int part);
    i := !i + k
  done;
  if neg then Z.opp !acc else !acc

let string_of_z (x : z) : string =
  let neg = (match x with Zneg _ -> true | _ -> false) in
  let x = ref (if neg then Z.opp x else x) in
  if !x = Z0 then "0" else begin
    let parts = ref [] in
    while !x <> Z0 do
      let q = Z.div !x chunk9 and r = Z.modulo !x chunk9 in
      parts := int_of_z r :: !parts;
      x := q
    done;
    let b = Buffer.create 32 in
    if neg then Buffer.add_char b '-';
    (match !parts with
     | [] -> ()
     | p :: rest ->
         Buffer.add_string b (string_of_int p);
         List.iter (fun q -> Buffer.add_string b (Printf.sprintf "%09d" q)) rest);
    Buffer.contents b
  end

let byte_tab = Array.init 256 z_of_int

let read_file path : z list =
  let ic = open_in_bin path in
  let n = in_channel_length ic in
  let s = really_input_string ic n in
  close_in ic;
  let l = ref [] in
  for i = n - 1 downto 0 do l := byte_tab.(Char.code s.[i]) :: !l done;
  !l

let write_file path (l : z list) =
  let oc = open_out_bin path in
  List.iter (fun c -> output_char oc (Char.chr ((int_of_z c) land 255))) l;
  close_out oc

let zl_to_string (l : z list) = String.concat " " (List.map string_of_z l)

let show_result = function
  | Err c -> Printf.sprintf "ERR %d" (int_of_z c)
  | Ok r ->
      let vals = String.concat " "
          (List.map (fun ((neg, m), e) ->
               Printf.sprintf "%d:%s:%s" (if neg then 1 else 0) (string_of_z m) (string_of_z e)) r.r_vals) in
      Printf.sprintf "OK %s %s %s %d|%s|%s|%s"
        (string_of_z r.r_m) (string_of_z r.r_n) (string_of_z r.r_nnz) (if r.r_hasvals then 1 else 0)
        (zl_to_string r.r_colptr) (zl_to_string r.r_rowind) vals

(* ---- token stream for the print command *)
let toks : string list ref = ref []
let next () = match !toks with [] -> failwith "token underflow" | t :: r -> toks := r; t
let next_int () = int_of_string (next ())
let next_z () = z_of_string (next ())
let next_bool () = next_int () <> 0
let next_list f = let n = next_int () in List.init n (fun _ -> f ())
let next_bytes () = next_list (fun () -> z_of_int (next_int ()))

let next_ifmt () =
  let per = next_z () in let w = next_z () in let lower = next_bool () in let bl = next_int () in
  { i_per = per; i_w = w; i_lower = lower; i_blanks = nat_of_int bl }

let next_ffmt () =
  let sc = next_int () in
  let per = next_z () in
  let kind = (match next_int () with 0 -> FE | 1 -> FD | _ -> FF) in
  let w = next_z () in let d = next_z () in let lower = next_bool () in
  { f_scale = (if sc < 0 then None else Some (z_of_int sc)); f_per = per; f_kind = kind; f_w = w; f_d = d;
    f_lower = lower }

let next_dec () : dec =
  let neg = next_bool () in let m = next_z () in let e = next_z () in ((neg, m), e)

let next_csc () =
  let nrow = next_z () in let ncol = next_z () in
  let cp = next_list next_z in let ri = next_list next_z in let vs = next_list next_dec in
  { m_nrow = nrow; m_ncol = ncol; m_colptr = cp; m_rowind = ri; m_vals = vs }

let all f l = List.for_all f l

let body_ok ptr ind vf (m : csc) =
  ifmt_ok ptr && ifmt_ok ind && ffmt_ok vf
  && all (fun x -> int_fits ptr.i_w (Z.add x (z_of_int 1))) m.m_colptr
  && all (fun x -> int_fits ind.i_w (Z.add x (z_of_int 1))) m.m_rowind
  && all (fun v -> dec_fits vf v) m.m_vals

let do_print kind out =
  match kind with
  | "hb" ->
      let title = next_bytes () in let key = next_bytes () in let ty = next_bytes () in
      let ptr = next_ifmt () in let ind = next_ifmt () in let vf = next_ffmt () in
      let rhsfmt = next_bytes () in let rhscrd = next_z () in let rhsline = next_bytes () in
      let m = next_csc () in
      let h = { h_title = title; h_key = key; h_type = ty; h_ptr = ptr; h_ind = ind; h_val = vf;
                h_rhsfmt = rhsfmt; h_rhscrd = rhscrd; h_rhsline = rhsline } in
      let bytes = print_hb h m in
      write_file out bytes;
      Printf.printf "PRINTED %d %d\n" (if body_ok ptr ind vf m then 1 else 0) (List.length bytes)
  | "rb" ->
      let title = next_bytes () in let ty = next_bytes () in
      let ptr = next_ifmt () in let ind = next_ifmt () in let vf = next_ffmt () in
      let m = next_csc () in
      let h = { b_title = title; b_type = ty; b_ptr = ptr; b_ind = ind; b_val = vf } in
      let bytes = print_rb h m in
      write_file out bytes;
      Printf.printf "PRINTED %d %d\n" (if body_ok ptr ind vf m then 1 else 0) (List.length bytes)
  | "mt" ->
      let cplx = next_bool () in
      let title = next_bytes () in
      let m = next_csc () in
      let bytes = print_mt cplx title m in
      write_file out bytes;
      Printf.printf "PRINTED 1 %d\n" (List.length bytes)
  | _ -> print_endline "BAD print kind"

let show_fmt = function
  | Err c -> Printf.sprintf "ERR %d" (int_of_z c)
  | Ok (a, b) -> Printf.sprintf "FMT %s %s" (string_of_z a) (string_of_z b)

let () =
  try
    while true do
      let line = input_line stdin in
      let ws = List.filter (fun s -> s <> "") (String.split_on_char ' ' line) in
      (match ws with
       | "parse" :: kind :: cplx :: path :: _ ->
           let bytes = read_file path in
           let c = cplx <> "0" in
           let r = (match kind with
               | "hb" -> parse_hb c bytes
               | "rb" -> parse_rb c bytes
               | _ -> parse_mt c bytes) in
           print_endline (show_result r)
       | "pif" :: rest ->
           print_endline (show_fmt (parse_int_format (List.map (fun s -> z_of_int (int_of_string s)) rest)))
       | "pff" :: rest ->
           print_endline (show_fmt (parse_float_format (List.map (fun s -> z_of_int (int_of_string s)) rest)))
       | "print" :: kind :: out :: rest ->
           toks := rest;
           (try do_print kind out with Failure m -> Printf.printf "BAD %s\n" m)
       | [] -> ()
       | _ -> print_endline "BAD command");
      flush stdout
    done
  with End_of_file -> ()
