(* stdin, one job per line:   n psz relax | e0 .. e(n-1) | j b fsup ; j b fsup ; ...
   stdout: "ST <forestb> <chainb> <postb> <check_init> T <tasks_remain after ParallelInit>" then one line "M c0 c1 ..." (sorted, distinct) per query:
   SchedBusy.mark_busy on ParallelInit's image of the forest *)
open Busy_model
let rec z_of_int (i : int) : z =
  if i = 0 then Z0 else if i > 0 then Zpos (pos_of_int i) else Zneg (pos_of_int (-i))
and pos_of_int (i : int) : positive =
  if i = 1 then XH else if i land 1 = 0 then XO (pos_of_int (i lsr 1)) else XI (pos_of_int (i lsr 1))
let rec int_of_pos = function XH -> 1 | XO p -> 2 * int_of_pos p | XI p -> 2 * int_of_pos p + 1
let int_of_z = function Z0 -> 0 | Zpos p -> int_of_pos p | Zneg p -> - (int_of_pos p)
let toks s = List.filter (fun t -> t <> "") (String.split_on_char ' ' s)
let b2i b = if b then 1 else 0
let () =
  try while true do
    let line = input_line stdin in
    match String.split_on_char '|' line with
    | [hd; et; qs] ->
        (match toks hd with
         | [n; psz; relax] ->
             let et = List.map (fun t -> z_of_int (int_of_string t)) (toks et) in
             let s = parallel_init (z_of_int (int_of_string n)) et (z_of_int (int_of_string psz)) (z_of_int (int_of_string relax)) in
             Printf.printf "ST %d %d %d %d T %d\n" (b2i (forestb s)) (b2i (chainb s)) (b2i (postb s)) (b2i (check_init s)) (int_of_z s.tasks);
             List.iter (fun q ->
               match toks q with
               | [j; b; f] ->
                   let l = mark_busy s (z_of_int (int_of_string j)) (z_of_int (int_of_string b)) (z_of_int (int_of_string f)) in
                   let l = List.sort_uniq compare (List.map int_of_z l) in
                   Printf.printf "M %s\n" (String.concat " " (List.map string_of_int l))
               | [] -> ()
               | _ -> print_endline "ERR") (String.split_on_char ';' qs)
         | _ -> print_endline "ERR")
    | _ -> print_endline "ERR"
  done with End_of_file -> ()
