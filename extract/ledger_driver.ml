(* Driver around the extracted ledger model (Ledger_model): reads the trace printed by harness/ledger_harness.c
   (one case per TRACE .. ENDTRACE block) and decides, with the extracted check_balanced_from, whether each call
   is balanced w.r.t. the state it starts in and the set of blocks reachable from what it hands back, and whether
   the documented destroy restores the state of before the call.
   Output per call:   CALL <case> <step> info=<i> balanced=<b> consistent=<b> leaked=<ids> dangling=<ids> threads=<d> handles=<d>
                      DESTROY <case> <step> restored=<b> remaining=<ids>                                               *)
open Ledger_model

let rec pos_of_int (i : int) : positive =
  if i = 1 then XH else if i land 1 = 0 then XO (pos_of_int (i lsr 1)) else XI (pos_of_int (i lsr 1))
let z_of_int (i : int) : z = if i = 0 then Z0 else if i > 0 then Zpos (pos_of_int i) else Zneg (pos_of_int (-i))
let rec int_of_pos = function XH -> 1 | XO p -> 2 * int_of_pos p | XI p -> 2 * int_of_pos p + 1
let int_of_z = function Z0 -> 0 | Zpos p -> int_of_pos p | Zneg p -> - (int_of_pos p)
(* identifiers are Peano naturals in the extracted code: keep them small by renumbering per case *)
let rec nat_of_int i = if i <= 0 then O else S (nat_of_int (i - 1))
let rec int_of_nat = function O -> 0 | S n -> 1 + int_of_nat n

let ids l = String.concat "," (List.map (fun n -> string_of_int (int_of_nat n)) l)

let () =
  let case = ref "" and st = ref empty_state and pre = ref empty_state in
  let seg : event list ref = ref [] in          (* events of the current call (reversed) *)
  let in_call = ref false and in_destroy = ref false and step = ref "" and info = ref "" in
  let ret = ref [] in
  let base : lstate option ref = ref None in     (* state before the first call of a chain that shares its objects *)
  let renum : (int, int) Hashtbl.t = Hashtbl.create 997 and back : (int, int) Hashtbl.t = Hashtbl.create 997 in
  let next = ref 0 in
  let small id = match Hashtbl.find_opt renum id with Some k -> k | None -> incr next; Hashtbl.add renum id !next; Hashtbl.add back !next id; !next in
  let orig n = let k = int_of_nat n in match Hashtbl.find_opt back k with Some id -> id | None -> -k in
  let oids l = String.concat "," (List.map (fun n -> string_of_int (orig n)) l) in
  let step0 e = match Ledger_model.step !st e with Some s -> st := s | None -> Printf.printf "INCONSISTENT %s outside-call\n" !case in
  let feed e = if !in_call || !in_destroy then seg := e :: !seg else step0 e in
  (try
    while true do
      let line = input_line stdin in
      let tok = List.filter (fun s -> s <> "") (String.split_on_char ' ' (String.trim line)) in
      match tok with
      | "TRACE" :: id :: _ -> case := id; st := empty_state; seg := []; in_call := false; in_destroy := false; base := None;
                              Hashtbl.reset renum; Hashtbl.reset back; next := 0
      | "A" :: id :: sz :: _ -> feed (Alloc (nat_of_int (small (int_of_string id)), z_of_int (int_of_string sz)))
      | "F" :: id :: _ -> let i = int_of_string id in if i > 0 then feed (Free (nat_of_int (small i)))
      | "T+" :: _ -> feed ThreadStart
      | "T-" :: _ -> feed ThreadEnd
      | "O" :: _ -> feed Open
      | "C" :: _ -> feed Close
      | "B" :: name :: _ -> in_call := true; step := name; pre := !st; seg := [];
                            (match !base with None -> base := Some !st | Some _ -> ())
      | "E" :: _ :: i :: _ -> info := i
      | "R" :: l ->
          ret := List.map (fun s -> nat_of_int (small (int_of_string s))) l;
          let h = List.rev !seg in
          (* descriptor events arrive after R: the call is evaluated at D *)
          ignore h
      | "D" :: _ ->
          let h = List.rev !seg in
          let ok = check_balanced_from !pre !ret h in
          (match run !pre h with
           | None -> Printf.printf "CALL %s %s info=%s balanced=false consistent=false leaked= dangling= threads=0 handles=0\n" !case !step !info
           | Some s' ->
               Printf.printf "CALL %s %s info=%s balanced=%b consistent=true leaked=%s dangling=%s threads=%d handles=%d nret=%d nevents=%d\n"
                 !case !step !info ok (oids (leaked !pre s' !ret)) (oids (dangling !pre s' !ret))
                 (int_of_z s'.threads - int_of_z !pre.threads) (int_of_z s'.handles - int_of_z !pre.handles)
                 (List.length !ret) (List.length h);
               st := s');
          in_call := false; in_destroy := true; seg := []
      | "K" :: _ -> in_destroy := false; seg := []       (* objects kept for the next call of the chain *)
      | "Z" :: _ ->
          let d = List.rev !seg in
          let pre0 = (match !base with Some b -> b | None -> !pre) in
          base := None;
          (match run !st d with
           | None -> Printf.printf "DESTROY %s %s restored=false consistent=false remaining=\n" !case !step
           | Some s'' ->
               (* after the destroy exactly the blocks of before the call must be live *)
               let extra = leaked pre0 s'' [] and missing = dangling pre0 s'' [] in
               Printf.printf "DESTROY %s %s restored=%b consistent=true remaining=%s missing=%s\n" !case !step
                 (extra = [] && missing = []) (oids extra) (oids missing);
               st := s'');
          in_destroy := false; seg := []
      | _ -> ()
    done
  with End_of_file -> ());
  ignore ids
