(* Driver around the extracted workspace model (Ustack_model): reads the same case file as
   harness/ustack_harness.c and prints the same canonical lines.
   usage: ustack_driver <dword>            (4 | 8 | 16; complex = 8)                              *)
open Ustack_model

let rec pos_of_int (i : int) : positive =
  if i = 1 then XH else if i land 1 = 0 then XO (pos_of_int (i lsr 1)) else XI (pos_of_int (i lsr 1))
let z_of_int (i : int) : z =
  if i = 0 then Z0 else if i > 0 then Zpos (pos_of_int i) else Zneg (pos_of_int (-i))
let rec int_of_pos = function XH -> 1 | XO p -> 2 * int_of_pos p | XI p -> 2 * int_of_pos p + 1
let int_of_z = function Z0 -> 0 | Zpos p -> int_of_pos p | Zneg p -> - (int_of_pos p)
let rec nat_of_int i = if i <= 0 then O else S (nat_of_int (i - 1))
let rec int_of_nat = function O -> 0 | S n -> 1 + int_of_nat n

let dword = ref 8
(* sp_ienv defaults of harness/sp_ienv_verif.c: w, relax, maxsuper, rowblk, colblk, fill_lusup, fill_ucol, fill_lsub *)
let ienv = [| 0; 20; 6; 200; 200; 100; -50; -50; -30 |]
let cfg () = { dword = z_of_int !dword; maxsuper = z_of_int ienv.(3); rowblk = z_of_int ienv.(4);
               fill_lusup = z_of_int ienv.(6); fill_ucol = z_of_int ienv.(7); fill_lsub = z_of_int ienv.(8) }

let fail_from = ref 0                         (* absolute ordinal; 0 = never *)
let fail (k : nat) : bool = !fail_from > 0 && int_of_nat k >= !fail_from

exception Stopped of stop

(* the harness prints offsets only when the current call uses a user buffer (lwork > 0) *)
let pstr user (p : ptr) = match p with
  | PNull -> "NULL"
  | POff z -> if user then string_of_int (int_of_z z) else "sys"
  | PSys _ -> if user then "sys?" else "sys"

let zero_glu = { g_xsup = PNull; g_xsup_end = PNull; g_supno = PNull; g_xlsub = PNull; g_xlsub_end = PNull;
                 g_xlusup = PNull; g_xlusup_end = PNull; g_xusub = PNull; g_xusub_end = PNull;
                 g_lusup = PNull; g_ucol = PNull; g_lsub = PNull; g_usub = PNull;
                 g_nzlmax = Z0; g_nzumax = Z0; g_nzlumax = Z0 }

let fuel = nat_of_int 200

(* model-side classification, printed as comment lines (ignored by the comparison with the C harness) *)
(* a retry of p?gstrf_MemInit shows in the log as EvUserRestore (user space: stack.top1/used put back to retry_top1/retry_used;
   before fix 'the retry loop gives back exactly what the last attempt took' it was one EvUserFree) or as EvSysFree (system space) *)
let count_retries (m : mem) = List.length (List.filter (function EvUserFree (_, _) -> true | EvUserRestore (_, _) -> true | EvSysFree _ -> true | _ -> false) m.m_log)
let live : (z * z) list ref = ref []

let () =
  if Array.length Sys.argv > 1 then dword := int_of_string Sys.argv.(1);
  let m = ref init_mem in
  let last_glu = ref zero_glu and last_iw = ref PNull and last_dw = ref PNull and last_user = ref false in
  let prev = ref None in
  let in_case = ref false and stopped = ref false and cur = ref "" in
  let finish_case status = Printf.printf "END %s %s\n" !cur status; in_case := false in
  (try
    while true do
      let line = input_line stdin in
      let tok = List.filter (fun s -> s <> "") (String.split_on_char ' ' (String.trim line)) in
      match tok with
      | [] -> ()
      | "CASE" :: id :: _ ->
          cur := id; in_case := true; stopped := false;
          m := init_mem; last_glu := zero_glu; prev := None; fail_from := 0;
          Array.blit [| 0; 20; 6; 200; 200; 100; -50; -50; -30 |] 0 ienv 0 9;
          Printf.printf "CASE %s\n" id
      | "END" :: _ -> if !in_case && not !stopped then finish_case "exit=0"
      | op :: args when !in_case && not !stopped ->
          let a = Array.of_list (List.map int_of_string args) in
          let g i = if i < Array.length a then a.(i) else 0 in
          (try
            (match op with
             | "ENV" -> ienv.(g 0) <- g 1; print_string "ENV ok\n"
             | "S" ->
                 m := setup_space (z_of_int (g 1)) (set_ba !m (z_of_int (g 0 land 7)));
                 last_user := g 1 > 0;
                 print_string "S ok\n"
             | "M" ->
                 let (p, m1) = umalloc (z_of_int (g 0)) (if g 1 = 0 then HEAD else TAIL) !m in
                 m := m1; Printf.printf "M p=%s\n" (pstr true p)
             | "F" -> m := ufree (z_of_int (g 0)) (if g 1 = 0 then HEAD else TAIL) !m; print_string "F ok\n"
             | "I" ->
                 let user = g 7 > 0 in
                 last_user := user;
                 (* the harness owns a static GlobalLU_t: refact = NO sets dynamic_snode_bound and nzlumax on entry *)
                 if g 4 = 0 then last_glu := { !last_glu with g_nzlumax = z_of_int (g 6) };
                 let (pl, pu, plu) = (!last_glu.g_nzlmax, !last_glu.g_nzumax, !last_glu.g_nzlumax) in
                 let args = { a_n = z_of_int (g 0); a_annz = z_of_int (g 1); a_nprocs = z_of_int (g 2);
                              a_w = z_of_int (g 3); a_refact = (g 4 <> 0); a_dyn = (g 5 <> 0);
                              a_nzlumax = plu;
                              a_nzlmax = pl; a_nzumax = pu;
                              a_lwork = z_of_int (g 7); a_ba = z_of_int (g 8 land 7); a_prev = !prev } in
                 (match mem_init fail (cfg ()) fuel args !m with
                  | Stop (s, m1) -> m := m1; raise (Stopped s)
                  | Ok (r, m1) ->
                      m := m1;
                      (match r with
                       | MIquery e -> Printf.printf "I code=%d\n" (int_of_z e)
                       | MIfail e -> Printf.printf "I code=%d\n" (int_of_z e)
                       | MIok gl when g 4 <> 0 ->
                           last_glu := gl;
                           Printf.printf "I code=0 refact nzlmax=%d nzumax=%d nzlumax=%d\n"
                             (int_of_z gl.g_nzlmax) (int_of_z gl.g_nzumax) (int_of_z gl.g_nzlumax)
                       | MIok gl ->
                           last_glu := gl; live := [];
                           (if user then
                              match glu_blocks (cfg ()) (z_of_int (g 0)) gl with
                              | Some bl -> Printf.printf "# I retries=%d blocks=%s top1=%d top2=%d used=%d\n" (count_retries !m)
                                             (if blocks_okb (z_of_int (g 7)) bl then "ok" else "bad")
                                             (int_of_z !m.m_stack.s_top1) (int_of_z !m.m_stack.s_top2) (int_of_z !m.m_stack.s_used)
                              | None -> Printf.printf "# I retries=%d blocks=bad-null\n" (count_retries !m)
                            else Printf.printf "# I retries=%d blocks=na\n" (count_retries !m));
                           let p = pstr user in
                           Printf.printf "I code=0 xsup=%s xsup_end=%s supno=%s xlsub=%s xlsub_end=%s xlusup=%s xlusup_end=%s xusub=%s xusub_end=%s lusup=%s ucol=%s lsub=%s usub=%s nzlmax=%d nzumax=%d nzlumax=%d\n"
                             (p gl.g_xsup) (p gl.g_xsup_end) (p gl.g_supno) (p gl.g_xlsub) (p gl.g_xlsub_end)
                             (p gl.g_xlusup) (p gl.g_xlusup_end) (p gl.g_xusub) (p gl.g_xusub_end)
                             (p gl.g_lusup) (p gl.g_ucol) (p gl.g_lsub) (p gl.g_usub)
                             (int_of_z gl.g_nzlmax) (int_of_z gl.g_nzumax) (int_of_z gl.g_nzlumax)))
             | "L" -> prev := Some !last_glu; print_string "L ok\n"
             | "W" ->
                 (match work_init fail (cfg ()) (z_of_int (g 0)) (z_of_int (g 1)) !m with
                  | Stop (s, m1) -> m := m1; raise (Stopped s)
                  | Ok (((r, iw), dw), m1) ->
                      m := m1; last_iw := iw; last_dw := dw;
                      (match iw, dw with
                       | POff i, POff d when !last_user ->
                           live := (i, work_isize (z_of_int (g 0)) (z_of_int (g 1))) :: (d, work_dsize (cfg ()) (z_of_int (g 0)) (z_of_int (g 1))) :: !live;
                           let gb = match glu_blocks (cfg ()) !m.m_ndim !last_glu with Some bl -> bl | None -> [] in
                           Printf.printf "# W live=%s top1=%d top2=%d\n"
                             (if blocks_okb !m.m_stack.s_size (gb @ !live) then "ok" else "bad")
                             (int_of_z !m.m_stack.s_top1) (int_of_z !m.m_stack.s_top2)
                       | _ -> ());
                      Printf.printf "W ret=%d iwork=%s dwork=%s\n" (int_of_z r) (pstr !last_user iw) (pstr !last_user dw))
             | "R" -> m := work_free !last_iw !last_dw !m; live := []; print_string "R ok\n"
             | "RK" -> (* WorkFree by a thread whose blocks are the k-th most recent pair: that thread's blocks die, the others stay live *)
                 m := work_free !last_iw !last_dw !m;
                 let k = g 0 in
                 live := List.filteri (fun i _ -> i / 2 <> k) !live;
                 print_string "R ok\n"
             | "B" ->   (* the block oracle (extracted blocks_okb) on offsets produced by the implementation *)
                 let rec pairs i = if i + 1 < Array.length a then (z_of_int a.(i), z_of_int a.(i + 1)) :: pairs (i + 2) else [] in
                 Printf.printf "B %s\n" (if blocks_okb (z_of_int (g 0)) (pairs 1) then "ok" else "bad")
             | "T" -> Printf.printf "T %d\n" (int_of_z (temp_space (cfg ()) (z_of_int (g 0)) (z_of_int (g 1)) (z_of_int (g 2))))
             | "U" -> Printf.printf "U %d\n" (int_of_z (memory_use (cfg ()) !m.m_ndim (z_of_int (g 0)) (z_of_int (g 1)) (z_of_int (g 2))))
             | "A" -> fail_from := (if g 0 > 0 then int_of_nat !m.m_sysn + g 0 else 0); print_string "A ok\n"
             | "D" -> m := set_exp !m None; print_string "D ok\n"
             | "C" -> print_string "C ok\n"          (* the model never writes: canaries are the C side's oracle *)
             | _ -> Printf.printf "? %s\n" op)
          with Stopped s ->
            stopped := true;
            finish_case (match s with ExitDiag -> "exit=1" | Crash -> "signal=11" | Hang -> "signal=14"))
      | _ -> ()
    done
  with End_of_file -> ())
