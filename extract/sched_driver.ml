(* Driver around the extracted scheduler model (Sched_model).
   stdin: one job per line
     EXPLORE n psz relax nthreads maxstates e0 .. e(n-1)
        walks the reachable state space of the thread/scheduler LTS (gstep) from ParallelInit's state,
        depth first with a visited set (threads are symmetric: states are canonicalised by sorting the
        thread list), executing EVERY transition it meets.  For the C harness it emits a command script
        (lines starting with "C ") and for each command the expected canonical output ("E ").
     WALK n psz relax nthreads seed steps e0 .. e(n-1)
        one random maximal run (for large forests).
   output: "C <command>" / "E <expected line>" / "S <statistics>"                                    *)
open Sched_model

let rec z_of_int (i : int) : z =
  if i = 0 then Z0 else if i > 0 then Zpos (pos_of_int i) else Zneg (pos_of_int (-i))
and pos_of_int (i : int) : positive =
  if i = 1 then XH else if i land 1 = 0 then XO (pos_of_int (i lsr 1)) else XI (pos_of_int (i lsr 1))
let rec int_of_pos = function XH -> 1 | XO p -> 2 * int_of_pos p | XI p -> 2 * int_of_pos p + 1
let int_of_z = function Z0 -> 0 | Zpos p -> int_of_pos p | Zneg p -> - (int_of_pos p)
let rec nat_of_int i = if i <= 0 then O else S (nat_of_int (i - 1))

let ints l = String.concat " " (List.map (fun z -> string_of_int (int_of_z z)) l)
let take k l = let rec go k l = if k <= 0 then [] else match l with [] -> [] | h :: t -> h :: go (k - 1) t in go k l

(* canonical description of the scheduler state: exactly what the C harness prints *)
let state_line (s : sstate) : string =
  let n = int_of_z s.sn in
  let idx = List.init n (fun i -> i) in
  let leading = List.filter (fun i -> int_of_z (nthZ s.psize (z_of_int i)) >= 1) idx in
  let at l i = int_of_z (nthZ l (z_of_int i)) in
  Printf.sprintf "T %d H %d %d %d SP %d | ty %s | st %s %d | sz %s %d | uk %s %d | fb %s | q %s | spin %s"
    (int_of_z s.tasks) (int_of_z s.qhead) (int_of_z s.qtail) (int_of_z s.qcount) (int_of_z s.nsplits)
    (String.concat " " (List.map (fun i -> string_of_int (at s.ptype i)) idx))
    (String.concat " " (List.map (fun i -> string_of_int (at s.pstate i)) leading)) (at s.pstate n)
    (String.concat " " (List.map (fun i -> string_of_int (at s.psize i)) idx)) (at s.psize n)
    (String.concat " " (List.map (fun i -> string_of_int (at s.pukids i)) leading)) (at s.pukids n)
    (String.concat " " (List.map (fun i -> string_of_int (at s.fb i)) leading))
    (ints (take (int_of_z s.qtail) s.q))
    (ints s.spin)

let key (g : gstate) : string =
  let t = List.sort compare (List.map (fun (m, c) -> (int_of_z m, int_of_z c)) g.thr) in
  state_line g.gs ^ "#" ^ String.concat ";" (List.map (fun (m, c) -> Printf.sprintf "%d,%d" m c) t)

let out = Buffer.create (1 lsl 20)
let emit s = Buffer.add_string out s; Buffer.add_char out '\n';
  if Buffer.length out > (1 lsl 20) then (print_string (Buffer.contents out); Buffer.clear out)

let nstates = ref 0 and ntrans = ref 0 and nguard_fail = ref 0 and ncalls = ref 0 and nfinal = ref 0
and ndead = ref 0 and maxq = ref 0 and npipe = ref 0 and nerr = ref 0 and ninitbad = ref 0 and ntrunc = ref 0

(* perform transition l from g: emit the C command and the expected output; returns g' *)
let do_step (g : gstate) (l : label) (g' : gstate) =
  incr ntrans;
  match l with
  | LFinish t ->
      let (_, cur) = List.nth g.thr (int_of_z t) in
      emit (Printf.sprintf "C DONE %d" (int_of_z cur));
      emit ("E " ^ state_line g'.gs)
  | LTest _ -> ()
  | LCall t ->
      incr ncalls;
      let (_, cur) = List.nth g.thr (int_of_z t) in
      let guard = sched_guard g.gs cur in
      if not guard then incr nguard_fail;
      let ((_, j), b) = sched g.gs cur in
      if int_of_z j = -2 then incr nerr;
      if int_of_z j >= 0 && int_of_z b <> int_of_z j then incr npipe;
      if int_of_z g'.gs.qtail > !maxq then maxq := int_of_z g'.gs.qtail;
      emit (Printf.sprintf "C CALL %d" (int_of_z cur));
      emit (Printf.sprintf "E R %d %d G %d" (int_of_z j) (if int_of_z j >= 0 then int_of_z b else 0) (if guard then 1 else 0));
      emit ("E " ^ state_line g'.gs)

let labels nthreads =
  List.concat (List.init nthreads (fun t -> let z = z_of_int t in [LFinish z; LTest z; LCall z]))

let all_exited (g : gstate) = List.for_all (fun (m, _) -> int_of_z m = 3) g.thr

let explore n psz relax nthreads maxstates et =
  let s0 = parallel_init (z_of_int n) et (z_of_int psz) (z_of_int relax) in
  emit (Printf.sprintf "C INIT %d %d %d %s" n psz relax (ints et));
  emit ("E RS " ^ String.concat " " (List.map (fun (a, b) -> Printf.sprintf "%d:%d" (int_of_z a) (int_of_z b)) (relax_snode (z_of_int n) et (z_of_int relax))));
  emit ("E " ^ state_line s0);
  if not (check_init s0) then incr ninitbad;
  let g0 = ginit s0 (nat_of_int nthreads) in
  let visited = Hashtbl.create 4096 in
  let labs = labels nthreads in
  let depth = ref 0 in
  let local = ref 0 in
  let rec dfs (g : gstate) =
    Hashtbl.replace visited (key g) ();
    incr nstates; incr local;
    let enabled = List.filter_map (fun l -> match gstep g l with Some g' -> Some (l, g') | None -> None) labs in
    if enabled = [] then (if all_exited g then incr nfinal else incr ndead);
    (* symmetry: among threads in identical (mode,cur) only the first needs exploring *)
    let seen = Hashtbl.create 8 in
    List.iter (fun (l, g') ->
      let t = match l with LFinish t | LTest t | LCall t -> int_of_z t in
      let kind = match l with LFinish _ -> 0 | LTest _ -> 1 | LCall _ -> 2 in
      let (m, c) = List.nth g.thr t in
      let sk = (kind, int_of_z m, int_of_z c) in
      if not (Hashtbl.mem seen sk) then begin
        Hashtbl.replace seen sk ();
        let changes_c = (match l with LTest _ -> false | _ -> true) in
        let fresh = not (Hashtbl.mem visited (key g')) in
        if !local < maxstates || not fresh then begin
          if changes_c then emit "C SNAP";
          do_step g l g';
          if fresh && !local < maxstates then (incr depth; dfs g'; decr depth);
          if changes_c then emit "C RESTORE"
        end
      end) enabled
  in
  dfs g0;
  if !local >= maxstates then incr ntrunc

(* simple LCG so that runs are reproducible from the seed *)
let rng = ref 1
let rand k = rng := (!rng * 1103515245 + 12345) land 0x3fffffff; (!rng lsr 8) mod k

let walk n psz relax nthreads seed steps et =
  rng := seed + 7;
  let s0 = parallel_init (z_of_int n) et (z_of_int psz) (z_of_int relax) in
  emit (Printf.sprintf "C INIT %d %d %d %s" n psz relax (ints et));
  emit ("E RS " ^ String.concat " " (List.map (fun (a, b) -> Printf.sprintf "%d:%d" (int_of_z a) (int_of_z b)) (relax_snode (z_of_int n) et (z_of_int relax))));
  emit ("E " ^ state_line s0);
  if not (check_init s0) then incr ninitbad;
  let labs = labels nthreads in
  let g = ref (ginit s0 (nat_of_int nthreads)) in
  (try
    for _ = 1 to steps do
      let enabled = List.filter_map (fun l -> match gstep !g l with Some g' -> Some (l, g') | None -> None) labs in
      if enabled = [] then (if all_exited !g then incr nfinal else incr ndead; raise Exit);
      (* prefer calls/tests a little so that several panels are in flight *)
      let (l, g') = List.nth enabled (rand (List.length enabled)) in
      do_step !g l g'; incr nstates;
      g := g'
    done
  with Exit -> ())

let () =
  (try
    while true do
      let line = input_line stdin in
      let tok = List.filter (fun s -> s <> "") (String.split_on_char ' ' line) in
      match tok with
      | "EXPLORE" :: n :: psz :: relax :: nt :: mx :: et ->
          explore (int_of_string n) (int_of_string psz) (int_of_string relax) (int_of_string nt) (int_of_string mx)
            (List.map (fun s -> z_of_int (int_of_string s)) et)
      | "WALK" :: n :: psz :: relax :: nt :: seed :: steps :: et ->
          walk (int_of_string n) (int_of_string psz) (int_of_string relax) (int_of_string nt) (int_of_string seed) (int_of_string steps)
            (List.map (fun s -> z_of_int (int_of_string s)) et)
      | _ -> ()
    done
  with End_of_file -> ());
  emit (Printf.sprintf "S states %d transitions %d calls %d guard_fail %d final %d dead %d maxqtail %d pipelined %d err %d init_bad %d truncated %d"
          !nstates !ntrans !ncalls !nguard_fail !nfinal !ndead !maxq !npipe !nerr !ninitbad !ntrunc);
  print_string (Buffer.contents out)
