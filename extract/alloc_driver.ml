(* stdin, one job per line (fields separated by '|'):
     PRESET n maxsup relax | colbeg.. | colend.. | rowind.. | etree.. | colcnt.. | super_bnd..
   stdout: "M m0 m1 ... mn | OK b"   (map_in_sup of the model, check_slots on it)
     BUMP next max | num num ...   ->  "B p0 p1 ..." (start of each block) or "B ABORT" *)
open Alloc_model
let rec pos_of_int (i : int) : positive =
  if i = 1 then XH else if i land 1 = 0 then XO (pos_of_int (i lsr 1)) else XI (pos_of_int (i lsr 1))
let z_of_int (i : int) : z = if i = 0 then Z0 else if i > 0 then Zpos (pos_of_int i) else Zneg (pos_of_int (-i))
let rec int_of_pos = function XH -> 1 | XO p -> 2 * int_of_pos p | XI p -> 2 * int_of_pos p + 1
let int_of_z = function Z0 -> 0 | Zpos p -> int_of_pos p | Zneg p -> - (int_of_pos p)
let ints s = List.map (fun t -> z_of_int (int_of_string t)) (List.filter (fun t -> t <> "") (String.split_on_char ' ' s))
let () =
  try while true do
    let line = input_line stdin in
    match String.split_on_char '|' line with
    | [hd; cb; ce; ri; et; cc; sb] ->
        (match List.filter (fun t -> t <> "") (String.split_on_char ' ' hd) with
         | ["PRESET"; n; ms; rl] ->
             let n = z_of_int (int_of_string n) in
             let et = ints et in
             let rlx = relax_snode n et (z_of_int (int_of_string rl)) in
             let (m, _) = preset_map n (ints cb) (ints ce) (ints ri) rlx (ints cc) (ints sb) (z_of_int (int_of_string ms)) in
             Printf.printf "M %s | OK %d\n" (String.concat " " (List.map (fun z -> string_of_int (int_of_z z)) m)) (if check_slots n m then 1 else 0)
         | ["PRESETDYN"; n; ms; rl] ->
             let n = z_of_int (int_of_string n) in
             let et = ints et in
             let rlx = relax_snode n et (z_of_int (int_of_string rl)) in
             let (m, tot) = preset_map_dyn n (ints cb) (ints ce) (ints ri) rlx (ints cc) (ints sb) (z_of_int (int_of_string ms)) in
             Printf.printf "M %s | NEXTLU %d\n" (String.concat " " (List.map (fun z -> string_of_int (int_of_z z)) m)) (int_of_z tot)
         | _ -> print_endline "ERR")
    | [hd; reqs] ->
        (* BUMP next max | num num ... : the locked bump allocator on the request sequence; prints the blocks' starts or ABORT *)
        (match List.filter (fun t -> t <> "") (String.split_on_char ' ' hd) with
         | ["BUMP"; nx; mx] ->
             (match bump_all (z_of_int (int_of_string nx)) (z_of_int (int_of_string mx)) (ints reqs) with
              | Some l -> Printf.printf "B %s\n" (String.concat " " (List.map (fun (p, _) -> string_of_int (int_of_z p)) l))
              | None -> print_endline "B ABORT")
         | _ -> print_endline "ERR")
    | _ -> print_endline "ERR"
  done with End_of_file -> ()
